#!/usr/bin/env python3
"""ktx_glue_mac — source-level translator for the STATEFUL GLUE of the MAC objects of /repo/src
(src/poly1305.rs object API, src/hmac.rs, src/mac.rs): buffering, offsets, flags, length bookkeeping, data-dependent
loops, out-parameters.  Used by tools/kernels/glue_mac.py through `TRANSLATE = ktx_glue_mac.translate`
(kernel_translate.generate_all()); the output is lean/CxVerif/Extracted/GlueMac.lean, regenerated from the CURRENT source on
every run.  Tie theorems: lean/CxVerif/Props/C05/GlueTieMac.lean (helpers in lean/CxVerif/Proofs/GlueMac.lean).

It reuses the lexer of tools/kernel_translate.py and the parser `P2` of tools/ktx_misc.py (extended here to `PG`).

What a translation is
---------------------
One Rust `fn` -> one Lean `def <lean_name>` (+ auxiliary defs, see below) in the SHAPE of the hand models of
lean/CxVerif/Impl: state structure in, state structure out.

  signature   `&mut self` / `&mut T` parameters are returned: result = (mut params in order…, return value) (unit dropped).
              `&[u8]`, `&mut [u8]`, `Vec<u8>`, `[u8; N]` = `Bytes` (static length N remembered for arrays);
              `[u32; 5]`-style small arrays = the record named by the module spec (L5/L4) — literal indices only;
              `usize/u32/u64` = `Nat`, `u8` = `UInt8`, `bool` = `Bool`; a generic `D: Digest` = an abstract type `δ` with the
              method dictionary `(D : DigestModel δ)`; Rust structs = the Lean structure named by the module spec (its
              field list is CHECKED against the Rust `struct` declaration) or a structure GENERATED from the declaration.
  failure     a function in which any panic site was emitted returns `Except Panic _` (style "except": `.error .index`,
              `.error .assertion`, `.error .overflow`) or `Option _` (style "option"); a function without one is a pure def.
  statements  `let [mut] x [: T] = e;`  `let (a, b) = f(..);`  `x = e;`  `x op= e;`  `self.f = e;`  `a[i] = e;`
              `assert!(c);`  `return;`  `return e;`  trailing expression; expression statements (calls with effects);
              `if c {A} [else {B}]`: when both branches can fall through and statements follow, the continuation becomes an
              auxiliary def `<fn>_k<n>_src` over the live variables (join point; the hand models do the same: `inputTail`);
              `for i in lo..hi {..}` -> auxiliary def `<fn>_loop<n>_src captured… : (count) → (i) → carried… → M carried`
              by structural recursion on the count `hi - lo` (evaluated once, as Rust does);
              `while c {..}` -> auxiliary def `<fn>_loop<n>_src captured… : (fuel) → carried… → M carried`; the fuel
              expression is given by the kernel spec (`fuel=[…]`) and its adequacy (the loop exits because `c` is false, not
              because the fuel ran out) is a theorem next to the tie;
              `for e in X.iter_mut() { *e op= v; }` (X a byte place or a sub-slice of one) -> `List.map`.
              Loop-carried variables = the variables the body assigns (incl. `&mut` arguments and `&mut self` receivers).
  places      variables, `self.f`, `x.f.g`, `a[i]` (bytes: dynamic index with bounds check; records: literal index),
              sub-slices `a[lo..hi]`, `a[..hi]`, `a[lo..]`, `a[..]` as values, as `&mut` arguments and as
              `copy_from_slice` destinations.  Every bounds check Rust performs is emitted as a guard that fails with
              `.index` exactly there (static arrays: against the declared length N; slices/Vecs: against `.length`);
              a guard whose two sides are textually identical, or which is decided by literals, is not emitted.
  expressions integer literals, `true/false`, variables, fields, `x.len()`, `min(a,b)`, comparisons (as `Prop`s:
              `= ≠ < ≤ > ≥`), `!b` on `bool`, `& | ^ >>` on unsigned values, `<<` (literal<<literal), `^` on `u8`,
              usize `+` (mathematical: operands are lengths/indices of live objects, each ≤ isize::MAX, so the sum fits —
              the one arithmetic fact this translator trusts), usize `-` (CHECKED: guard, failure `.overflow`),
              `[lit; n]`, `[a, b, …]`, struct literals, `repeat(0).take(n).collect()`, `.clone()`, `.to_vec()`,
              `&`/`&mut`/`*` (erased), value-`if` with pure single-expression branches, calls of translated functions
              (by path or by receiver type), calls of the externs declared by the module spec (`read_u32_le`, digest
              methods, `CtEqual::ct_eq`, …: Lean template + which arguments are written + failure mode).
              Checked arithmetic on u32/u64 is NOT translated here (that is the limb kernels' job: kernel_translate.py);
              a function may end in a KERNEL TAIL: the statements tied by an existing kernel (`block`/`finish` of
              tools/kernels/poly1305.py) are replaced by one call of the kernel wrapper and the split glue/kernel is
              cross-checked against that kernel's own statement filter (every statement belongs to exactly one side).
Anything else raises TranslateError -> reported as a broken extraction (the generated def degenerates and the tie theorem
fails); nothing is skipped silently.
After audit 3 (tools/ktx_glue_guard.py): the function is the ONE live definition in the live `impl` blocks its scope names (item
`#[cfg]` evaluated); attributes / nested items / `use` inside a body, inner-block shadowing, `let x = &mut …` aliases (this
translator gives `&mut` copy semantics), re-bound `&mut` parameters, changed imports of a used name, `debug_assert!` are refused;
an operand / argument with a side effect evaluated after another operand was read is refused (`Tr.after`); a `while` loop FAILS
(`.error .diverge` / `none`) when its fuel runs out and is called with `fuel + 1` (one unit for the last, false, test).
"""
import os
import re

import kernel_translate as KT
from kernel_translate import TranslateError, lex, find_fn, strip_comments
import ktx_misc
from ktx_misc import P2
import ktx_glue_guard as GUARD

LEAN_KEYWORDS = ktx_misc.LEAN_KEYWORDS | {"cnt", "fuel"}
NAT_TYPES = {"u16", "u32", "u64", "u128", "usize"}


def REPO():
    return os.environ.get("CX_REPO", KT.REPO)


def read_src(rel):
    return open(os.path.join(REPO(), rel)).read()


# ===================================================================================================== parser

class PG(P2):
    """P2 + `while`, `return;`, `x[..]`, reference / generic types kept.  Attributes, nested items and `use` inside a body are REFUSED here
    (the base parser skips them): a `#[cfg]` on a statement, a nested `fn` shadowing a callee and a local `use` all change what the body
    means (audit 3, F4/F6).  `nested_ok`: names of nested `fn` items that are kernels of their own (translated from that very item and
    registered before the enclosing function): those are skipped here."""
    nested_ok = ()

    def block(self):
        stmts = []
        while self.peek()[0] != "eof" and not self.at("}"):
            if self.at(";"):
                self.eat(); continue
            if self.at("#"):
                self.eat()
                if self.at("!"):
                    self.eat()
                self.eat("["); head = self.peek()[1]; d = 1
                while d:
                    t = self.eat()[1]; d += (t == "[") - (t == "]")
                if head not in GUARD.NEUTRAL_ATTRS:
                    raise TranslateError(f"attribute #[{head}…] inside a function body is not supported")
                continue
            if self.atid("fn") and self.peek(1)[0] == "id" and self.peek(1)[1] in self.nested_ok:
                while not self.at("{"):
                    self.eat()
                self.eat("{"); d = 1
                while d:
                    t = self.eat()
                    if t[0] == "eof":
                        raise TranslateError("unterminated nested fn")
                    d += (t[1] == "{") - (t[1] == "}")
                continue
            if self.peek()[0] == "id" and self.peek()[1] in ("fn", "use", "struct", "impl", "mod", "static", "trait", "enum", "extern", "type", "macro_rules", "pub") \
                    or (self.atid("const") and self.peek(1)[1] in ("fn", "unsafe")) or (self.atid("unsafe") and self.peek(1)[1] == "fn"):
                raise TranslateError(f"nested `{self.peek()[1]}` item inside a function body is not supported")
            stmts.append(self.stmt())
        return stmts

    def ty(self):
        if self.at("&", "&&"):
            self.eat()
            mut = False
            if self.atid("mut"):
                self.eat(); mut = True
            return ("ref", mut, self.ty())
        if self.at("["):
            self.eat(); e = self.ty(); n = None
            if self.at(";"):
                self.eat(); n = self.expr()
            self.eat("]")
            return ("arr", e, n)
        if self.at("("):
            self.eat(); items = []
            while not self.at(")"):
                items.append(self.ty())
                if self.at(","):
                    self.eat()
            self.eat(")")
            return ("tuplety", items)
        t = self.eat()
        if t[0] != "id":
            raise TranslateError(f"type expected, got {t[1]!r}")
        name = t[1]
        while self.at("::"):
            self.eat(); name = self.eat()[1]
        if self.at("<") and not getattr(self, "no_generics", False):
            self.eat(); args = []
            while not self.at(">"):
                args.append(self.ty())
                if self.at(","):
                    self.eat()
            self.eat(">")
            return ("gen", name, args)
        return name

    def cast(self):
        e = self.unary()
        while self.atid("as"):
            self.eat()
            self.no_generics = True
            try:
                e = ("cast", e, self.ty())
            finally:
                self.no_generics = False
        return e

    def expr(self, lvl=0):
        if lvl == 0 and self.at("..") and self.peek(1)[0] == "op" and self.peek(1)[1] in ("]", ")"):
            self.eat()
            return ("range", None, None)
        return super().expr(lvl)

    def stmt(self):
        if self.atid("while"):
            self.eat(); c = self.expr_nostruct(); body = self.block_in_braces()
            return ("while", c, body)
        if self.atid("return"):
            self.eat()
            if self.at(";"):
                self.eat(); return ("return", None)
            e = self.expr()
            if self.at(";"):
                self.eat()
            return ("return", e)
        if self.atid("break") or self.atid("continue") or self.atid("loop"):
            raise TranslateError(f"`{self.peek()[1]}` is outside the translated subset")
        return super().stmt()


def rng(e):
    """("range", lo, hi[, op]) -> (lo, hi); `..=` is outside the subset"""
    if len(e) == 4 and e[3] == "..=":
        raise TranslateError("inclusive range")
    return e[1], e[2]


def parse_sig(hdr):
    p = PG(lex(hdr.rstrip().rstrip("{")))
    p.eat("fn")
    name = p.eat()[1]
    generics = []
    if p.at("<"):
        p.eat(); depth = 1; start = True
        while depth:
            t = p.eat()
            if t[0] == "eof":
                raise TranslateError("unterminated generics")
            if t[1] == "<":
                depth += 1
            elif t[1] == ">":
                depth -= 1
            elif t[1] == ">>":
                depth -= 2
            elif t[1] == "," and depth == 1:
                start = True
                continue
            elif start and t[0] == "id" and t[1] != "const":
                generics.append(t[1]); start = False
    p.eat("(")
    params = []
    while not p.at(")"):
        if p.at("&") and (p.peek(1)[1] == "self" or (p.peek(1)[1] == "mut" and p.peek(2)[1] == "self")):
            p.eat(); mut = False
            if p.atid("mut"):
                p.eat(); mut = True
            p.eat("self")
            params.append(("self", ("ref", mut, "Self")))
        elif p.atid("self"):
            p.eat(); params.append(("self", "Self"))
        elif p.atid("mut") and p.peek(1)[1] == "self":
            p.eat(); p.eat(); params.append(("self", "Self"))
        else:
            if p.atid("mut"):
                p.eat()
            pname = p.eat()[1]
            p.eat(":")
            params.append((pname, p.ty()))
        if p.at(","):
            p.eat()
    p.eat(")")
    ret = None
    if p.at("->"):
        p.eat(); ret = p.ty()
    if p.peek()[0] != "eof":
        raise TranslateError(f"unsupported signature tail near {p.peek()[1]!r}")
    return name, generics, params, ret


def find_struct(src, name):
    """fields [(name, rust type)] of `struct <name> … { … }`"""
    text = strip_comments(src)
    ms = [m for m in re.finditer(r"\bstruct\s+" + re.escape(name) + r"\b[^{;(]*\{", text)
          if GUARD.attrs_live(GUARD.attrs_before(text, m.start()), f"struct {name}")]
    if len(ms) != 1:
        raise TranslateError(f"struct {name}: {len(ms)} live declarations; exactly one is required")
    m = ms[0]
    depth, i = 1, m.end()
    while i < len(text) and depth:
        depth += {"{": 1, "}": -1}.get(text[i], 0)
        i += 1
    p = PG(lex(text[m.end():i - 1]))
    fields = []
    while p.peek()[0] != "eof":
        if p.at("#"):
            p.eat(); p.eat("["); d = 1
            while d:
                t = p.eat()[1]; d += (t == "[") - (t == "]")
            continue
        if p.atid("pub"):
            p.eat()
            if p.at("("):
                while not p.at(")"):
                    p.eat()
                p.eat(")")
        fname = p.eat()[1]
        p.eat(":")
        fields.append((fname, p.ty()))
        if p.at(","):
            p.eat()
    return fields


# ===================================================================================================== types

class Ty:
    def __init__(self, kind, lean, **kw):
        self.kind = kind; self.lean = lean
        self.__dict__.update(kw)

    def __repr__(self):
        return f"Ty({self.kind},{self.lean})"


def TNat(rust):
    return Ty("nat", "Nat", rust=rust)


TU8 = Ty("u8", "UInt8")
TBool = Ty("bool", "Bool")
TProp = Ty("prop", "Prop")
TUnit = Ty("unit", "Unit")


def TBytes(n=None):
    return Ty("bytes", "Bytes", n=n)


def TTuple(items):
    return Ty("tuple", "(" + " × ".join(t.lean for t in items) + ")", items=items)


def atomize(t):
    return t if re.fullmatch(r"[\w.]+", t) else f"({t})"


def lean_id(name):
    # Lean keywords, the translator's own binders (`cnt`, `fuel`) and its temporaries (`t<n>`) are avoided
    return name + "_" if (name in LEAN_KEYWORDS or re.fullmatch(r"t\d+", name)) else name


# ===================================================================================================== specs

class Rec:
    """a small fixed array `[elem; n]` modelled as a Lean record with one field per element"""

    def __init__(self, lean, fields):
        self.lean = lean; self.fields = list(fields)


class StructSpec:
    """rust struct -> Lean structure.  `lean`: type text (may mention the generic's Lean type); `generate`: emit the
    structure from the Rust declaration (kernel kind "struct")"""

    def __init__(self, lean, generate=False):
        self.lean = lean; self.generate = generate


class Ext:
    """an external function / method the translator does not look into.

    lean      template of the call: {self} receiver, {0} {1} … argument values, {0.len} length of argument 0, {D} dictionary
    args      per argument "val" | "out" (a `&mut [u8]` whose new contents the callee RETURNS) | "set" (a `&mut [u8]` whose new
              contents is the template writes[i])
    ret       result Ty or None;  mut_self: the receiver is `&mut self` and is returned first
    fails     None (total) | "option" | "except": the call returns Option / Except of (self', outs…, ret)
    panic     panic kind reported in style "except" when an "option" extern fails
    arg_len   {i: n}: the callee panics unless argument i has exactly n bytes — must be decidable statically
    """

    def __init__(self, lean, args=(), ret=None, mut_self=False, fails=None, panic="index", arg_len=None, writes=None, argty=None):
        self.lean = lean; self.args = list(args); self.ret = ret; self.mut_self = mut_self
        self.fails = fails; self.panic = panic; self.arg_len = dict(arg_len or {}); self.writes = dict(writes or {})
        self.argty = dict(argty or {})


class Module:
    """what is shared by the functions of one Rust file"""

    def __init__(self, **kw):
        self.file = kw["file"]
        self.style = kw.get("style", "except")           # "except" | "option"
        self.structs = dict(kw.get("structs", {}))        # rust struct name -> StructSpec
        self.recs = dict(kw.get("recs", {}))              # (elem rust type, n) -> Rec
        self.generic = kw.get("generic")                  # (rust param, lean type, dict name, dict type) or None
        self.ext_fns = dict(kw.get("ext_fns", {}))        # path -> Ext
        self.ext_methods = dict(kw.get("ext_methods", {}))  # (receiver kind or struct/abs name, method) -> Ext
        self.prefix = kw.get("prefix", "")                # Lean name prefix of the generated defs, e.g. "Poly1305."
        self.uses = list(kw.get("uses", []))              # other modules whose translated functions may be called
        self.panic_ty = kw.get("panic_ty", "Panic")       # style "except": the Lean type of the panic kinds


class KernelTail:
    """the trailing statements of `fn` are tied by an existing kernel of tools/kernels/<module>.py"""

    def __init__(self, module, kernel_fn, call, fails=True):
        self.module = module; self.kernel_fn = kernel_fn; self.call = call; self.fails = fails


class Fn:
    """one function to translate (kernel_translate.generate_all() needs .lean_name and .params)"""

    def __init__(self, mod, fn, scope=None, owner=None, name=None, doc="", fuel=(), glue=None, tail=None, kind="fn"):
        self.mod = mod; self.fn = fn; self.scope = scope; self.owner = owner
        self.lean_name = mod.prefix + (name or fn + "_src")
        self.params = ""
        self.doc = doc; self.fuel = list(fuel); self.glue = glue; self.tail = tail; self.kind = kind


# registry of translated functions (filled in translation order): (owner or None, fn) -> FnInfo
REGISTRY = {}


class FnInfo:
    def __init__(self, spec, params, ret, outs, fallible):
        self.spec = spec; self.params = params      # [(name, Ty, mode)] mode: "val" | "mut"
        self.ret = ret; self.outs = outs; self.fallible = fallible


# ===================================================================================================== output tree

class Node:
    pass


class Let(Node):
    def __init__(self, pat, text, body):
        self.pat = pat; self.text = text; self.body = body


class Guard(Node):
    """`if cond then body else FAIL` (neg: `if cond then FAIL else body`)"""

    def __init__(self, cond, kind, body, neg=False):
        self.cond = cond; self.kind = kind; self.body = body; self.neg = neg


class Bind(Node):
    """match a fallible call; src: "same" (the function's own monad) | "option" (an Option extern in an Except function)"""

    def __init__(self, pat, text, body, src="same", kind="index"):
        self.pat = pat; self.text = text; self.body = body; self.src = src; self.kind = kind


class If(Node):
    def __init__(self, cond, a, b):
        self.cond = cond; self.a = a; self.b = b


class Ret(Node):
    def __init__(self, text):
        self.text = text


class Fail(Node):
    def __init__(self, kind):
        self.kind = kind


class Tail(Node):
    """a call of a join point / loop def in tail position (already in the function's monad)"""

    def __init__(self, text):
        self.text = text


class Render:
    def __init__(self, style, pure):
        self.style = style; self.pure = pure

    def fail(self, kind):
        if self.pure:
            raise TranslateError("internal: failure in a pure function")
        return "none" if self.style == "option" else f".error .{kind}"

    def ok(self, text):
        if self.pure:
            return text
        t = text if re.fullmatch(r"[\w.']+|\(.*\)|\{.*\}|⟨.*⟩", text) else f"({text})"
        return f"some {t}" if self.style == "option" else f".ok {t}"

    def go(self, n, ind):
        s = " " * ind
        if isinstance(n, Let):
            return f"{s}let {n.pat} := {n.text}\n" + self.go(n.body, ind)
        if isinstance(n, Guard):
            if n.neg:
                return f"{s}if {n.cond} then {self.fail(n.kind)} else\n" + self.go(n.body, ind)
            return f"{s}if {n.cond} then\n" + self.go(n.body, ind + 2) + f"{s}else {self.fail(n.kind)}\n"
        if isinstance(n, Bind):
            if n.src == "option" or self.style == "option":
                return (f"{s}match {n.text} with\n{s}| none => {self.fail(n.kind)}\n{s}| some {n.pat} =>\n"
                        + self.go(n.body, ind + 2))
            return (f"{s}match {n.text} with\n{s}| .error e => .error e\n{s}| .ok {n.pat} =>\n"
                    + self.go(n.body, ind + 2))
        if isinstance(n, If):
            return f"{s}if {n.cond} then\n" + self.go(n.a, ind + 2) + f"{s}else\n" + self.go(n.b, ind + 2)
        if isinstance(n, Ret):
            return f"{s}{self.ok(n.text)}\n"
        if isinstance(n, Fail):
            return f"{s}{self.fail(n.kind)}\n"
        if isinstance(n, Tail):
            return f"{s}{n.text}\n"
        raise TranslateError("internal: unknown node")


# ===================================================================================================== translation

class Val:
    def __init__(self, t, ty, at=False, lit=None, lentext=None):
        self.t = t; self.ty = ty; self.at = at; self.lit = lit; self.lentext = lentext

    def p(self):
        return self.t if self.at else f"({self.t})"


class Place:
    """root variable + a path of ("field", f) | ("elem", index expr) | ("slice", lo expr|None, hi expr|None)"""

    def __init__(self, root, path=()):
        self.root = root; self.path = list(path)


def names_in(x, acc):
    """all first segments of paths (and `self`) occurring in an AST fragment"""
    if isinstance(x, tuple):
        if len(x) >= 2 and x[0] == "path" and isinstance(x[1], str):
            acc.add(x[1].split("::")[0])
        elif len(x) >= 2 and x[0] == "macro":
            for arg in x[2]:
                for t in arg:
                    if t[0] == "id":
                        acc.add(t[1])
        elif len(x) >= 2 and x[0] == "struct":
            for _, v in x[2]:
                names_in(v, acc)
        else:
            for y in x:
                names_in(y, acc)
    elif isinstance(x, list):
        for y in x:
            names_in(y, acc)
    return acc


class Tr:
    epoch = 0

    def __init__(self, spec: Fn):
        self.spec = spec; self.mod = spec.mod
        self.src = read_src(self.mod.file)
        self.aux = []            # (name, params text, ret type text, node or raw text)
        self.ntmp = 0; self.njoin = 0; self.nloop = 0; self.nwhile = 0
        self.in_loop = 0
        self.scopes = []         # names visible at the entry of each enclosing nested block (if-branch / loop body)
        self.epoch = 0           # number of write-backs (re-bindings of a variable's Lean name) emitted so far: see `after`

    # ------------------------------------------------------------------------------------------- types
    def conv(self, t, owner=None):
        m = self.mod
        if isinstance(t, tuple):
            if t[0] == "ref":
                return self.conv(t[2], owner)
            if t[0] == "arr":
                elem = t[1]
                n = None
                if t[2] is not None:
                    if t[2][0] != "lit":
                        raise TranslateError("array length must be a literal")
                    n = t[2][1]
                if elem == "u8":
                    return TBytes(n)
                if (elem, n) in m.recs:
                    r = m.recs[(elem, n)]
                    return Ty("rec", r.lean, fields=r.fields, elem=self.conv(elem))
                raise TranslateError(f"unsupported array type [{elem}; {n}]")
            if t[0] == "gen":
                if t[1] == "Vec" and t[2] == ["u8"]:
                    return TBytes(None)
                return self.struct_ty(t[1])
            if t[0] == "tuplety":
                return TTuple([self.conv(x, owner) for x in t[1]])
            raise TranslateError(f"unsupported type {t}")
        if t == "u8":
            return TU8
        if t in NAT_TYPES:
            return TNat(t)
        if t == "bool":
            return TBool
        if t == "Self":
            if not (owner or self.spec.owner):
                raise TranslateError("Self outside an impl")
            return self.struct_ty(owner or self.spec.owner)
        if m.generic and t == m.generic[0]:
            return Ty("abs", m.generic[1], name=t)
        return self.struct_ty(t)

    def struct_ty(self, name):
        for mod in [self.mod] + self.mod.uses:
            if name in mod.structs:
                sp = mod.structs[name]
                src = self.src if mod is self.mod else read_src(mod.file)
                saved, self.mod = self.mod, mod
                try:
                    fields = [(f, self.conv(t, owner=name)) for f, t in find_struct(src, name)]
                finally:
                    self.mod = saved
                return Ty("struct", sp.lean, name=name, fields=fields)
        raise TranslateError(f"unknown type {name}")

    # ------------------------------------------------------------------------------------------- helpers
    def tmp(self):
        self.ntmp += 1
        return f"t{self.ntmp}"

    @staticmethod
    def wrap(pre, body):
        for w in reversed(pre):
            body = w(body)
        return body

    def lit_of(self, e):
        """python int of a literal-only expression, else None"""
        k = e[0]
        if k == "lit":
            return e[1]
        if k == "paren":
            return self.lit_of(e[1])
        if k == "bin" and e[1] in ("+", "-", "*", "<<"):
            a, b = self.lit_of(e[2]), self.lit_of(e[3])
            if a is None or b is None:
                return None
            return {"+": a + b, "-": a - b, "*": a * b, "<<": a << b}[e[1]]
        return None

    def lit_text(self, n, ty):
        if ty is not None and ty.kind == "u8":
            return f"({hex(n) if n > 32 else n} : UInt8)"
        return hex(n) if n > 32 else str(n)

    # ------------------------------------------------------------------------------------------- evaluation order
    @staticmethod
    def fragile(v):
        """does the Lean text of this value depend on a variable binding (i.e. is it neither a literal nor a fresh temporary)?"""
        return isinstance(v, Val) and v.lit is None and not re.fullmatch(r"t\d+|\(?(0x)?[0-9a-f]+( : UInt8\))?|true|false", v.t)

    def after(self, earlier, thunk):
        """evaluate `thunk` (the next operand, left to right as Rust does).  A value is a Lean TEXT over the current bindings and is put
        into the output after everything the later operands emit.  So a later operand that re-binds a variable (a call with `&mut`
        arguments, a `&mut self` method) would change what an earlier operand's text means: refused unless the earlier operands are
        literals / fresh temporaries."""
        e0 = self.epoch
        r = thunk()
        if self.epoch != e0 and any(self.fragile(x) for x in earlier):
            raise TranslateError("an operand with a side effect is evaluated after another operand was read: Rust's left-to-right "
                                 "order is not translated for this shape")
        return r

    def ordered(self, thunks):
        vals = []
        for th in thunks:
            vals.append(self.after(vals, th))
        return vals

    # ------------------------------------------------------------------------------------------- places
    def place(self, e, env):
        k = e[0]
        if k == "paren":
            return self.place(e[1], env)
        if k == "deref":
            return self.place(e[1], env)
        if k == "path":
            if e[1] in env:
                return Place(e[1])
            return None
        if k == "field":
            p = self.place(e[1], env)
            if p is None:
                return None
            return Place(p.root, p.path + [("field", e[2])])
        if k == "index":
            p = self.place(e[1], env)
            if p is None:
                return None
            if e[2][0] == "range":
                lo, hi = rng(e[2])
                return Place(p.root, p.path + [("slice", lo, hi)])
            return Place(p.root, p.path + [("elem", e[2])])
        return None

    def read_place(self, pl, env, pre, upto=None):
        """value of the place (prefix `upto` of its path); guards of slices / elements go to `pre`"""
        v = Val(lean_id(pl.root), env[pl.root], True)
        path = pl.path if upto is None else pl.path[:upto]
        for step in path:
            v = self.read_step(v, step, env, pre)
        return v

    def read_step(self, v, step, env, pre):
        ty = v.ty
        if step[0] == "field":
            if ty.kind != "struct":
                raise TranslateError(f"field {step[1]} of a non-struct value")
            for f, fty in ty.fields:
                if f == step[1]:
                    return Val(f"{v.p()}.{lean_id(f)}", fty, True)
            raise TranslateError(f"no field {step[1]} in {ty.name}")
        if step[0] == "elem":
            if ty.kind == "rec":
                n = self.lit_of(step[1])
                if n is None or not (0 <= n < len(ty.fields)):
                    raise TranslateError("record arrays need a literal index in range")
                return Val(f"{v.p()}.{ty.fields[n]}", ty.elem, True)
            if ty.kind == "bytes":
                ix = self.ex(step[1], env, pre, TNat("usize"))
                t = self.tmp()
                if ty.n is not None:
                    # static array: the check is against the declared length
                    pre.append(lambda body, c=f"{ix.t} < {ty.n}": Guard(c, "index", body))
                    pre.append(lambda body, t=t, s=f"{v.p()}[{ix.t}]?": Bind(t, s, body, src="option", kind="index"))
                else:
                    pre.append(lambda body, t=t, s=f"{v.p()}[{ix.t}]?": Bind(t, s, body, src="option", kind="index"))
                return Val(t, TU8, True)
            raise TranslateError("indexing a non-array value")
        if step[0] == "slice":
            if ty.kind != "bytes":
                raise TranslateError("slicing a non-byte value")
            lo, hi, text, n = self.slice_guard(v, step, env, pre)
            if step[1] is None and step[2] is None:
                return Val(v.t, v.ty, v.at)
            return Val(text, TBytes(n), False, lentext=self.slice_len(v, lo, hi, n))
        raise TranslateError("internal: place step")

    def slice_guard(self, v, step, env, pre):
        """bounds checks of `v[lo..hi]`; returns (lo text|None, hi text|None, value text, static length|None)"""
        ty = v.ty
        lo_e, hi_e = step[1], step[2]
        lo = self.ex(lo_e, env, pre, TNat("usize")) if lo_e is not None else None
        hi = self.ex(hi_e, env, pre, TNat("usize")) if hi_e is not None else None
        length = str(ty.n) if ty.n is not None else f"{v.p()}.length"
        lo_l = lo.lit if lo is not None else 0
        hi_l = hi.lit if hi is not None else ty.n
        # lo ≤ hi
        if lo is not None and hi is not None:
            if lo_l is not None and hi_l is not None:
                if lo_l > hi_l:
                    raise TranslateError("slice with lo > hi (the code would always panic)")
            elif lo_l != 0:
                pre.append(lambda body, c=f"{lo.t} ≤ {hi.t}": Guard(c, "index", body))
        # hi ≤ len  (or lo ≤ len when there is no hi)
        bound = hi if hi is not None else lo
        if bound is not None:
            bl = bound.lit
            if bl is not None and ty.n is not None:
                if bl > ty.n:
                    raise TranslateError("slice bound beyond the declared array length (the code would not compile / always panic)")
            elif bound.t != length:
                pre.append(lambda body, c=f"{bound.t} ≤ {length}": Guard(c, "index", body))
        base = v.p()
        if lo is None and hi is None:
            return None, None, v.t, ty.n
        n = None
        if lo_l is not None and hi_l is not None:
            n = hi_l - lo_l
        if lo is None or lo_l == 0:
            text = f"{base}.take {hi.p()}" if hi is not None else v.t
        elif hi is None:
            text = f"{base}.drop {lo.p()}"
        else:
            text = f"({base}.drop {lo.p()}).take " + (str(n) if n is not None else f"({hi.t} - {lo.t})")
        return (lo.t if lo is not None and lo_l != 0 else None), (hi.t if hi is not None else None), text, n

    def slice_len(self, v, lo, hi, n):
        """length of `v[lo..hi]` once its guard has passed"""
        if n is not None:
            return str(n)
        h = hi if hi is not None else (str(v.ty.n) if v.ty.n is not None else f"{v.p()}.length")
        return h if lo is None else f"{h} - {lo}"

    def write_place(self, pl, new, env, pre, info=None):
        """`place = new` (the guards of the last step must already be in `pre`: see assign / out-arguments).
        `info`: (lo text|None, hi text|None) of a slice destination computed by slice_guard."""
        if not pl.path:
            self.epoch += 1
            pre.append(lambda body, r=lean_id(pl.root), t=new: Let(r, t, body))
            return
        parent_pre = []
        parent = self.read_place(pl, env, parent_pre, upto=len(pl.path) - 1)
        if parent_pre:
            raise TranslateError("assignment through a checked place")
        step = pl.path[-1]
        pty = parent.ty
        if step[0] == "field":
            if pty.kind != "struct" or step[1] not in [f for f, _ in pty.fields]:
                raise TranslateError(f"no field {step[1]}")
            text = f"{{ {parent.t} with {lean_id(step[1])} := {new} }}"
        elif step[0] == "elem":
            if pty.kind == "rec":
                n = self.lit_of(step[1])
                text = f"{{ {parent.t} with {pty.fields[n]} := {new} }}"
            else:
                text = f"{parent.p()}.set {info} {new if re.fullmatch(r'[^ ]+|[(].*[)]', new) else '(' + new + ')'}"
        else:
            lo, hi = info
            parts = []
            if lo is not None:
                parts.append(f"{parent.p()}.take {atomize(lo)}")
            parts.append(new)
            if hi is not None:
                parts.append(f"{parent.p()}.drop {atomize(hi)}")
            text = " ++ ".join(parts)
        self.write_place(Place(pl.root, pl.path[:-1]), text, env, pre)

    # ------------------------------------------------------------------------------------------- expressions
    def ex(self, e, env, pre, want=None):
        k = e[0]
        if k == "lit":
            ty = want
            if e[2]:
                ty = TU8 if e[2] == "u8" else TNat(e[2])
            if ty is None:
                ty = TNat("usize")
            return Val(self.lit_text(e[1], ty), ty, True, lit=e[1] if ty.kind == "nat" else None)
        if k == "paren":
            v = self.ex(e[1], env, pre, want)
            return Val(v.t, v.ty, v.at, v.lit)
        if k == "deref":
            return self.ex(e[1], env, pre, want)
        if k == "path":
            name = e[1]
            if name in env:
                return Val(lean_id(name), env[name], True)
            if name in ("true", "false"):
                return Val(name, TBool, True)
            raise TranslateError(f"unknown identifier {name}")
        if k in ("field", "index"):
            pl = self.place(e, env)
            if pl is None:
                raise TranslateError(f"unsupported place expression {k}")
            return self.read_place(pl, env, pre)
        if k == "not":
            v = self.ex(e[1], env, pre, want)
            if v.ty.kind == "bool":
                return Val(f"!{v.p()}", TBool, False)
            if v.ty.kind == "prop":
                return Val(f"¬ {v.p()}", TProp, False)
            raise TranslateError("`!` on a non-boolean")
        if k == "bin":
            return self.binop(e, env, pre, want)
        if k == "repeat":
            n = self.ex(e[2], env, pre, TNat("usize"))
            z = self.lit_of(e[1])
            if want is not None and want.kind == "rec":
                if n.lit != len(want.fields) or z is None:
                    raise TranslateError("record repeat literal")
                return Val("⟨" + ", ".join([self.lit_text(z, want.elem)] * n.lit) + "⟩", want, True)
            suffix = e[1][2] if e[1][0] == "lit" else None
            if suffix not in (None, "u8") and n.lit is not None and (suffix, n.lit) in self.mod.recs:
                r = self.mod.recs[(suffix, n.lit)]
                return Val("⟨" + ", ".join([self.lit_text(z, None)] * n.lit) + "⟩",
                           Ty("rec", r.lean, fields=r.fields, elem=TNat(suffix)), True)
            if z == 0 and (suffix == "u8" or (want is not None and want.kind == "bytes")):
                return Val(f"zeros {n.p()}", TBytes(n.lit), False)
            raise TranslateError("unsupported repeat literal")
        if k == "array":
            items = e[1]
            rty = want if want is not None and want.kind == "rec" else None
            vals = self.ordered([(lambda x=x: self.ex(x, env, pre, rty.elem if rty else None)) for x in items])
            if rty is None:
                rust = vals[0].ty.rust if vals and vals[0].ty.kind == "nat" else None
                r = self.mod.recs.get((rust, len(vals)))
                if r is None:
                    raise TranslateError("array literal of unknown record type")
                rty = Ty("rec", r.lean, fields=r.fields, elem=vals[0].ty)
            if len(vals) != len(rty.fields):
                raise TranslateError("array literal arity")
            return Val("⟨" + ", ".join(v.t for v in vals) + "⟩", rty, True)
        if k == "struct":
            sty = self.struct_ty(e[1]) if e[1] != "Self" else self.conv("Self")
            given = dict(e[2])
            if [f for f, _ in e[2]] and set(given) != {f for f, _ in sty.fields}:
                raise TranslateError(f"struct literal of {e[1]}: field set differs from the declaration")
            parts = []
            # (Rust evaluates the field initialisers in the order they are WRITTEN; the text is assembled in declaration order)
            written = self.ordered([(lambda f=f, x=x: self.ex(x, env, pre, dict(sty.fields).get(f))) for f, x in e[2]])
            wv = {f: v for (f, _), v in zip(e[2], written)}
            for f, fty in sty.fields:
                v = wv[f]
                self.compatible(fty, v.ty, f"field {f}")
                if fty.kind == "bytes" and fty.n is not None and v.ty.n != fty.n:
                    raise TranslateError(f"field {f}: array length differs from the declaration")
                parts.append(f"{lean_id(f)} := {v.t}")
            return Val("{ " + ", ".join(parts) + " }", sty, True)
        if k == "if":
            c = self.cond(e[1], env, pre)

            def val(blk):
                if blk is None or len(blk) != 1 or blk[0][0] != "ret":
                    raise TranslateError("value-`if` with a non-trivial branch")
                sub = []
                v = self.ex(blk[0][1], env, sub, want)
                if sub:
                    raise TranslateError("value-`if` with a checked branch")
                return v
            a, b = val(e[2]), val(e[3])
            self.compatible(a.ty, b.ty, "if branches")
            return Val(f"if {c} then {a.t} else {b.t}", a.ty, False)
        if k == "call":
            v = self.call(e, env, pre, want)
            if v is None:
                raise TranslateError("unit call used as a value")
            return v
        if k == "method":
            v = self.method(e, env, pre, want)
            if v is None:
                raise TranslateError("unit method call used as a value")
            return v
        if k == "tuple":
            vals = self.ordered([(lambda x=x: self.ex(x, env, pre)) for x in e[1]])
            return Val("(" + ", ".join(v.t for v in vals) + ")", TTuple([v.ty for v in vals]), True)
        raise TranslateError(f"unsupported expression {k}")

    def compatible(self, a, b, what):
        if a.kind != b.kind or (a.kind in ("struct", "rec", "abs") and a.lean != b.lean):
            raise TranslateError(f"type mismatch in {what}: {a} vs {b}")

    def cond(self, e, env, pre):
        v = self.ex(e, env, pre)
        if v.ty.kind not in ("bool", "prop"):
            raise TranslateError("condition is not boolean")
        return v.t

    CMP = {"==": "=", "!=": "≠", "<": "<", "<=": "≤", ">": ">", ">=": "≥"}

    def binop(self, e, env, pre, want):
        op = e[1]
        if op in self.CMP:
            a = self.ex(e[2], env, pre)
            a, b = self.ordered([lambda: a, lambda: self.ex(e[3], env, pre, a.ty)])
            if a.ty.kind not in ("nat", "u8") or b.ty.kind != a.ty.kind:
                raise TranslateError("comparison of unsupported operands")
            return Val(f"{a.p()} {self.CMP[op]} {b.p()}", TProp, False)
        if op in ("&&", "||"):
            a = self.ex(e[2], env, pre); sub = []
            b = self.ex(e[3], env, sub)
            if sub:
                raise TranslateError("short-circuit operand with a check")

            def prop(v):
                return v.p() if v.ty.kind == "prop" else f"{v.p()} = true"
            if a.ty.kind == "bool" and b.ty.kind == "bool":
                return Val(f"{a.p()} {op} {b.p()}", TBool, False)
            return Val(f"{prop(a)} {'∧' if op == '&&' else '∨'} {prop(b)}", TProp, False)
        a = self.ex(e[2], env, pre, want)
        a, b = self.ordered([lambda: a, lambda: self.ex(e[3], env, pre, None if op in ("<<", ">>") else a.ty)])
        if a.ty.kind == "u8":
            if op in ("^", "&", "|") and b.ty.kind == "u8":
                sym = {"^": "^^^", "&": "&&&", "|": "|||"}[op]
                return Val(f"{a.p()} {sym} {b.p()}", TU8, False)
            raise TranslateError(f"operator {op} on u8")
        if a.ty.kind != "nat" or b.ty.kind != "nat":
            raise TranslateError(f"operator {op} on unsupported operands")
        rust = a.ty.rust
        if op in ("&", "|", "^", ">>"):
            sym = {"&": "&&&", "|": "|||", "^": "^^^", ">>": ">>>"}[op]
            return Val(f"{a.p()} {sym} {b.p()}", a.ty, False)
        if op == "<<":
            if a.lit is not None and b.lit is not None and (a.lit << b.lit) < 2 ** KT.INT_TYPES[rust]:
                return Val(f"{a.t} <<< {b.t}", a.ty, False, lit=a.lit << b.lit)
            raise TranslateError("`<<` on non-literal operands (kernel arithmetic is not translated here)")
        if op in ("+", "-"):
            if a.lit is not None and b.lit is not None:
                n = a.lit + b.lit if op == "+" else a.lit - b.lit
                if n < 0:
                    raise TranslateError("literal subtraction underflows")
                return Val(f"{a.t} {op} {b.t}", a.ty, False, lit=n)
            if rust != "usize":
                raise TranslateError(f"checked `{op}` on {rust} outside a kernel (not translated here)")
            if op == "-":
                # checked usize subtraction: panics (overflow) iff a < b
                pre.append(lambda body, c=f"{a.p()} < {b.p()}": Guard(c, "overflow", body, neg=True))
            return Val(f"{a.p()} {op} {b.p()}", a.ty, False)
        raise TranslateError(f"operator {op}")

    # ------------------------------------------------------------------------------------------- calls
    def lookup_fn(self, owner, name):
        return REGISTRY.get((owner, name))

    def call(self, e, env, pre, want, stmt=False):
        path = ktx_misc.show(e[1]) if e[1][0] == "path" else None
        if path is None:
            raise TranslateError("call of a non-path")
        args = e[2]
        segs = path.split("::")
        if path == "min" or path.endswith("::min"):
            a = self.ex(args[0], env, pre)
            a, b = self.ordered([lambda: a, lambda: self.ex(args[1], env, pre, a.ty)])
            return Val(f"min {a.p()} {b.p()}", a.ty, False)
        if path in self.mod.ext_fns:
            return self.ext_call(self.mod.ext_fns[path], None, args, env, pre)
        info = None
        if len(segs) == 1:
            info = self.lookup_fn(None, segs[0])
        elif len(segs) == 2:
            owner = self.spec.owner if segs[0] == "Self" else segs[0]
            info = self.lookup_fn(owner, segs[1])
        if info is None:
            raise TranslateError(f"unknown function {path}")
        return self.fn_call(info, None, args, env, pre)

    def method(self, e, env, pre, want, stmt=False):
        recv, name, args = e[1], e[2], e[3]
        # repeat(0).take(n).collect()
        if name == "collect" and recv[0] == "method" and recv[2] == "take" and recv[1][0] == "call" \
                and ktx_misc.show(recv[1][1]).split("::")[-1] == "repeat":
            z = self.lit_of(recv[1][2][0])
            if z != 0 or (want is not None and want.kind != "bytes"):
                raise TranslateError("unsupported repeat().take().collect()")
            n = self.ex(recv[3][0], env, pre, TNat("usize"))
            return Val(f"zeros {n.p()}", TBytes(n.lit), False)
        rv = None
        rpre = []
        rplace = self.place(recv, env)
        rv = self.ex(recv, env, rpre)
        kind = rv.ty.kind
        if kind == "bytes":
            if name == "len" and not args:
                pre.extend(rpre)
                return Val(f"{rv.p()}.length", TNat("usize"), True)
            if name in ("clone", "to_vec") and not args:
                pre.extend(rpre)
                return Val(rv.t, TBytes(rv.ty.n), rv.at)
            if name == "copy_from_slice" and len(args) == 1:
                return self.copy_from_slice(rplace, args[0], env, pre)
        key = None
        if kind in ("struct", "abs"):
            key = rv.ty.name
        ext = self.mod.ext_methods.get((key, name)) or self.mod.ext_methods.get((kind, name))
        if ext is None and kind == "ext":
            ext = self.mod.ext_methods.get((rv.ty.lean, name))
        if ext is not None:
            return self.ext_call(ext, (recv, rplace), args, env, pre)
        if kind == "struct":
            info = self.lookup_fn(rv.ty.name, name)
            if info is not None:
                return self.fn_call(info, (recv, rplace), args, env, pre)
        raise TranslateError(f"unknown method {name} on {rv.ty}")

    def copy_from_slice(self, dst, src_e, env, pre):
        if dst is None or not dst.path or dst.path[-1][0] != "slice":
            if dst is None:
                raise TranslateError("copy_from_slice into a non-place")
            dst = Place(dst.root, dst.path + [("slice", None, None)])
        parent = self.read_place(dst, env, pre, upto=len(dst.path) - 1)
        lo, hi, _, n = self.slice_guard(parent, dst.path[-1], env, pre)
        src = self.ex(src_e, env, pre)
        if src.ty.kind != "bytes":
            raise TranslateError("copy_from_slice from a non-byte value")
        # the two lengths must agree (copy_from_slice panics otherwise)
        plen = str(parent.ty.n) if parent.ty.n is not None else f"{parent.p()}.length"
        dlen = hi if hi is not None else plen
        if lo is not None:
            dlen = f"{dlen} - {lo}"
        slen = str(src.ty.n) if src.ty.n is not None else f"{src.p()}.length"
        if not (dlen == slen or (n is not None and src.ty.n == n)):
            pre.append(lambda body, c=f"{slen} = {dlen}": Guard(c, "index", body))
        self.write_place(dst, src.t, env, pre, info=(lo, hi))
        return None

    def out_arg(self, a, env, pre):
        """an argument passed as `&mut`: (current value, write-back function new_text -> None)"""
        pl = self.place(a, env)
        if pl is None:
            raise TranslateError("`&mut` argument is not a place")
        if pl.path and pl.path[-1][0] == "slice":
            parent = self.read_place(pl, env, pre, upto=len(pl.path) - 1)
            lo, hi, text, n = self.slice_guard(parent, pl.path[-1], env, pre)
            return (Val(text, TBytes(n), False, lentext=self.slice_len(parent, lo, hi, n)),
                    (lambda new, post: self.write_place(pl, new, env, post, info=(lo, hi))), None)
        if pl.path and pl.path[-1][0] == "elem":
            raise TranslateError("`&mut` of an array element")
        cur = self.read_place(pl, env, pre)
        direct = lean_id(pl.root) if not pl.path else None
        return cur, (lambda new, post: self.write_place(pl, new, env, post)), direct

    def finish_call(self, text, fails, style_src, panic, outs, ret_ty, pre):
        """bind the results of a call: outs = [(write-back fn, direct name or None)], ret_ty or None -> Val or None"""
        pats, post = [], []
        for wb, direct in outs:
            if direct is not None:
                self.epoch += 1
                pats.append(direct)
            else:
                t = self.tmp(); pats.append(t); wb(t, post)
        rv = None
        if not fails and not outs and ret_ty is not None and ret_ty.kind != "unit":
            return Val(text, ret_ty, False)            # a pure value: inlined
        if ret_ty is not None and ret_ty.kind != "unit":
            t = self.tmp(); pats.append(t); rv = Val(t, ret_ty, True)
        if not pats:
            if fails:
                pats = ["_"]
            else:
                raise TranslateError("call without effect")
        pat = pats[0] if len(pats) == 1 else "(" + ", ".join(pats) + ")"
        if fails:
            src = "option" if (style_src == "option" and self.mod.style == "except") else "same"
            pre.append(lambda body: Bind(pat, text, body, src=src, kind=panic))
        else:
            pre.append(lambda body: Let(pat, text, body))
        pre.extend(post)
        return rv

    def dict_arg(self):
        return (self.mod.generic[2] + " ") if self.mod.generic else ""

    def fn_call(self, info, recv, args, env, pre):
        params = list(info.params)
        texts, outs = [], []
        actuals = ([recv[0]] if recv is not None else []) + list(args)
        if len(actuals) != len(params):
            raise TranslateError(f"arity of {info.spec.fn}")
        seen = []
        for a, (pn, pty, mode) in zip(actuals, params):
            if mode == "mut":
                cur, wb, direct = self.after(seen, lambda: self.out_arg(a, env, pre))
                self.compatible(pty, cur.ty, f"argument {pn}")
                texts.append(cur.p()); outs.append((wb, direct)); seen.append(cur)
            else:
                v = self.after(seen, lambda: self.ex(a, env, pre, pty))
                self.compatible(pty, v.ty, f"argument {pn}")
                if pty.kind == "bytes" and pty.n is not None and v.ty.n != pty.n:
                    raise TranslateError(f"argument {pn}: array length")
                texts.append(v.p()); seen.append(v)
        gen = ""
        if info.spec.mod.generic:
            if not self.mod.generic:
                raise TranslateError("generic callee from a non-generic module")
            gen = self.mod.generic[2] + " "
        text = f"{info.spec.lean_name} {gen}" + " ".join(texts)
        return self.finish_call(text.rstrip(), info.fallible, info.spec.mod.style, "index", outs, info.ret, pre)

    def ext_call(self, ext, recv, args, env, pre):
        if len(args) != len(ext.args):
            raise TranslateError("extern arity")
        fmt, outs, sets = {}, [], []
        if recv is not None:
            if ext.mut_self:
                cur, wb, direct = self.out_arg(recv[0], env, pre)
                fmt["self"] = cur.p(); outs.append((wb, direct))
            else:
                fmt["self"] = self.ex(recv[0], env, pre).p()
        vals = []
        recv_val = [Val(fmt["self"], None)] if "self" in fmt else []
        for i, (a, mode) in enumerate(zip(args, ext.args)):
            if mode == "val":
                v = self.after(recv_val + vals, lambda: self.ex(a, env, pre, ext.argty.get(i)))
                wb = None
            else:
                v, wb, direct = self.after(recv_val + vals, lambda: self.out_arg(a, env, pre))
                if mode == "out":
                    outs.append((wb, direct))
                else:
                    sets.append((i, wb))
            if i in ext.arg_len:
                if v.ty.kind != "bytes" or v.ty.n is None:
                    raise TranslateError("extern argument length not statically known")
                if v.ty.n != ext.arg_len[i]:
                    raise TranslateError(f"extern argument of {v.ty.n} bytes where exactly {ext.arg_len[i]} are required (the code would always panic)")
            vals.append(v)

        class F(dict):
            def __missing__(s, key):
                if key.endswith(".len"):
                    v = vals[int(key[:-4])]
                    if v.lentext is not None:
                        return atomize(v.lentext)
                    return str(v.ty.n) if v.ty.n is not None else f"{v.p()}.length"
                return vals[int(key)].p()
        f = F(fmt)
        f["D"] = self.mod.generic[2] if self.mod.generic else ""
        text = re.sub(r"\{([\w.]+)\}", lambda m: f[m.group(1)], ext.lean)
        if not outs and not ext.fails and ext.ret is not None:
            rv = Val(text, ext.ret, False)            # pure value: inline
        elif not outs and not ext.fails and ext.ret is None:
            rv = None
        else:
            rv = self.finish_call(text, bool(ext.fails), ext.fails, ext.panic, outs, ext.ret, pre)
        for i, wb in sets:
            new = re.sub(r"\{([\w.]+)\}", lambda m: f[m.group(1)], ext.writes[i])
            wb(new, pre)
        return rv

    # ------------------------------------------------------------------------------------------- statements
    def assigned_roots(self, stmts, env, acc):
        """root variables a statement list may assign (conservative)"""
        def place_root(e):
            pl = self.place(e, env_all)
            if pl is not None:
                acc.add(pl.root)
        env_all = dict(env)

        def walk_e(e):
            if not isinstance(e, tuple):
                return
            k = e[0]
            if k == "method":
                recv = e[1]
                walk_e(recv)
                for a in e[3]:
                    walk_e(a)
                pl = self.place(recv, env_all)
                if pl is not None and self.method_mutates(recv, e[2], env_all):
                    acc.add(pl.root)
                for i in self.mut_arg_indices(e, env_all):
                    place_root(e[3][i])
            elif k == "call":
                for a in e[2]:
                    walk_e(a)
                for i in self.mut_arg_indices(e, env_all):
                    place_root(e[2][i])
            elif k == "if":
                walk_e(e[1]); walk(e[2]); walk(e[3] or [])
            elif k in ("bin",):
                walk_e(e[2]); walk_e(e[3])
            elif k in ("paren", "not", "deref", "cast"):
                walk_e(e[1])
            elif k == "index":
                walk_e(e[1]); walk_e(e[2])
            elif k == "field":
                walk_e(e[1])
            elif k in ("lit", "path", "macro"):
                pass                             # (macros: only `assert!` is translated, its condition may not have effects: do_macro)
            else:
                # any other expression kind: every sub-expression may contain a call with `&mut` arguments
                for y in e[1:]:
                    if isinstance(y, tuple):
                        walk_e(y)
                    elif isinstance(y, list):
                        for z in y:
                            if isinstance(z, tuple) and z and isinstance(z[0], str):
                                walk_e(z)
                            elif isinstance(z, tuple):
                                for w in z:
                                    if isinstance(w, tuple):
                                        walk_e(w)

        def walk(ss):
            for s in ss:
                if s[0] == "let":
                    if s[3] is not None:
                        walk_e(s[3])
                elif s[0] == "assign":
                    place_root(s[1]); walk_e(s[3])
                elif s[0] in ("expr", "ret", "return"):
                    if s[1] is not None:
                        walk_e(s[1])
                elif s[0] == "for":
                    walk_e(s[2]); walk(s[3])
                elif s[0] == "while":
                    walk_e(s[1]); walk(s[2])
                else:
                    raise TranslateError(f"unsupported statement {s[0]} in a loop / branch body")
        walk(stmts)
        return acc

    def method_mutates(self, recv, name, env):
        try:
            rv = self.ex(recv, env, [])
        except TranslateError:
            return True
        kind = rv.ty.kind
        if kind == "bytes":
            return name in ("copy_from_slice",)
        key = rv.ty.name if kind in ("struct", "abs") else None
        ext = self.mod.ext_methods.get((key, name)) or self.mod.ext_methods.get((kind, name))
        if ext is not None:
            return ext.mut_self
        if kind == "struct":
            info = self.lookup_fn(rv.ty.name, name)
            if info is not None:
                return info.params[0][2] == "mut"
        return True

    def mut_arg_indices(self, e, env):
        try:
            if e[0] == "call":
                path = ktx_misc.show(e[1])
                if path in self.mod.ext_fns:
                    return [i for i, m in enumerate(self.mod.ext_fns[path].args) if m != "val"]
                segs = path.split("::")
                info = self.lookup_fn(None, segs[0]) if len(segs) == 1 else self.lookup_fn(
                    self.spec.owner if segs[0] == "Self" else segs[0], segs[-1])
                if info is not None:
                    return [i for i, p in enumerate(info.params) if p[2] == "mut"]
                return []
            rv = self.ex(e[1], env, [])
            kind = rv.ty.kind
            key = rv.ty.name if kind in ("struct", "abs") else None
            ext = self.mod.ext_methods.get((key, e[2])) or self.mod.ext_methods.get((kind, e[2]))
            if ext is not None:
                return [i for i, m in enumerate(ext.args) if m != "val"]
            if kind == "struct":
                info = self.lookup_fn(rv.ty.name, e[2])
                if info is not None:
                    return [i - 1 for i, p in enumerate(info.params) if p[2] == "mut" and i > 0]
        except TranslateError:
            pass
        return []

    @staticmethod
    def diverges(blk):
        if not blk:
            return False
        s = blk[-1]
        if s[0] == "return":
            return True
        if s[0] in ("expr", "ret") and s[1][0] == "macro" and s[1][1] in ("panic", "unreachable"):
            return True
        return False

    def params_text(self, names, env):
        return " ".join(f"({lean_id(n)} : {env[n].lean})" for n in names)

    def generic_binders(self):
        g = self.mod.generic
        return f"{{{g[1]} : Type}} ({g[2]} : {g[3]}) " if g else ""

    def seq(self, stmts, i, env, k, kv):
        """translate stmts[i:]; k(env) = fall off the end, kv(env, Val) = trailing value"""
        if i >= len(stmts):
            return k(env)
        s = stmts[i]
        rest = lambda env2: self.seq(stmts, i + 1, env2, k, kv)
        last = i == len(stmts) - 1
        kind = s[0]
        # kernel tail
        if self.tail_at is not None and i == self.tail_at and stmts is self.top_stmts:
            return self.kernel_tail(env, k)
        if kind == "let":
            return self.do_let(s, env, rest)
        if kind == "assign":
            return self.do_assign(s, env, rest)
        if kind == "return":
            if self.in_loop:
                raise TranslateError("`return` inside a loop body")
            pre = []
            v = self.ex(s[1], env, pre, self.ret_ty) if s[1] is not None else None
            return self.wrap(pre, self.final(env, v))
        if kind == "ret":
            e = s[1]
            if not last and e[0] not in ("if", "macro"):
                raise TranslateError("value expression in the middle of a block")
            if e[0] in ("if",) and not (last and self.is_value_if(e)):
                return self.do_if(e, env, stmts, i, k, kv)
            if e[0] == "macro":
                return self.do_macro(e, env, rest)
            pre = []
            if e[0] in ("call", "method"):
                v = self.call(e, env, pre, None) if e[0] == "call" else self.method(e, env, pre, None)
                if v is None:
                    return self.wrap(pre, k(env))
                return self.wrap(pre, kv(env, v))
            v = self.ex(e, env, pre, self.ret_ty)
            return self.wrap(pre, kv(env, v))
        if kind == "expr":
            e = s[1]
            if e[0] == "if":
                return self.do_if(e, env, stmts, i, k, kv)
            if e[0] == "macro":
                return self.do_macro(e, env, rest)
            if e[0] in ("call", "method"):
                pre = []
                v = self.call(e, env, pre, None) if e[0] == "call" else self.method(e, env, pre, None)
                return self.wrap(pre, rest(env))
            raise TranslateError(f"unsupported expression statement {e[0]}")
        if kind == "for":
            return self.do_for(s, env, rest)
        if kind == "while":
            return self.do_while(s, env, rest)
        raise TranslateError(f"unsupported statement {kind}")

    def is_value_if(self, e):
        """`if` whose branches are single pure value expressions"""
        a, b = e[2], e[3]
        return (b is not None and len(a) == 1 and len(b) == 1 and a[0][0] == "ret" and b[0][0] == "ret"
                and a[0][1][0] in ("lit", "path", "bin", "paren") and b[0][1][0] in ("lit", "path", "bin", "paren")
                and not (a[0][1][0] == "path" and a[0][1][1] in ("true", "false")))

    def block(self, stmts, env, k, kv):
        """a nested block: its `let`s must not shadow a name of an enclosing scope (the Lean `let` would leak past the block)"""
        self.scopes.append(set(env))
        try:
            return self.seq(stmts, 0, dict(env), k, kv)
        finally:
            self.scopes.pop()

    def check_shadow(self, name):
        if any(name in sc for sc in self.scopes):
            raise TranslateError(f"`let {name}` in a nested block shadows an outer variable (outside the translated subset)")

    def do_let(self, s, env, rest):
        pat, ty, init = s[1], s[2], s[3]
        for p_ in (pat[1] if pat[0] == "tuple" else [pat]):
            if p_[0] == "var":
                self.check_shadow(p_[1])
        if init is None:
            raise TranslateError("`let` without initialiser")
        want = self.conv(ty) if ty is not None else None
        pre = []
        if pat[0] == "tuple":
            if init[0] not in ("call", "method"):
                raise TranslateError("tuple pattern needs a call")
            v = self.call(init, env, pre, want) if init[0] == "call" else self.method(init, env, pre, want)
            if v is None or v.ty.kind != "tuple" or len(v.ty.items) != len(pat[1]):
                raise TranslateError("tuple pattern arity")
            env2 = dict(env)
            names = []
            for p_, t_ in zip(pat[1], v.ty.items):
                if p_[0] != "var":
                    raise TranslateError("nested pattern")
                names.append(lean_id(p_[1])); env2[p_[1]] = t_
            pre.append(lambda body: Let("(" + ", ".join(names) + ")", v.t, body))
            return self.wrap(pre, rest(env2))
        if pat[0] != "var":
            raise TranslateError("unsupported pattern")
        v = self.ex(init, env, pre, want)
        if want is not None:
            self.compatible(want, v.ty, f"let {pat[1]}")
            if want.kind == "bytes" and want.n is not None and v.ty.n != want.n:
                raise TranslateError("array length of a let")
        env2 = dict(env)
        env2[pat[1]] = v.ty
        if v.at and v.t == lean_id(pat[1]):
            return self.wrap(pre, rest(env2))
        lhs = lean_id(pat[1])
        if v.t.startswith("⟨") or (v.t.startswith("{") and " with " not in v.t):
            lhs += f" : {v.ty.lean}"
        return self.wrap(pre, Let(lhs, v.t, rest(env2)))

    def do_assign(self, s, env, rest):
        lhs, op, rhs = s[1], s[2], s[3]
        pl = self.place(lhs, env)
        if pl is None:
            raise TranslateError("assignment to a non-place")
        pre = []
        if op != "=":
            rhs = ("bin", op[:-1], lhs, rhs)
        # Rust evaluates the right-hand side first, then the place (index check)
        info = None
        tyl = self.place_type(pl, env)
        v = self.ex(rhs, env, pre, tyl)
        self.compatible(tyl, v.ty, "assignment")
        if pl.path and pl.path[-1][0] == "elem":
            parent = self.read_place(pl, env, [], upto=len(pl.path) - 1)
            if parent.ty.kind == "bytes":
                ix = self.ex(pl.path[-1][1], env, pre, TNat("usize"))
                length = str(parent.ty.n) if parent.ty.n is not None else f"{parent.p()}.length"
                if not (ix.lit is not None and parent.ty.n is not None and ix.lit < parent.ty.n):
                    pre.append(lambda body, c=f"{ix.t} < {length}": Guard(c, "index", body))
                info = ix.p()
        elif pl.path and pl.path[-1][0] == "slice":
            raise TranslateError("assignment to a slice")
        env2 = dict(env)
        if not pl.path:
            env2[pl.root] = v.ty if tyl.kind != "bytes" else tyl if tyl.n is not None else v.ty
        self.write_place(pl, v.t, env, pre, info=info)
        return self.wrap(pre, rest(env2))

    def place_type(self, pl, env):
        ty = env[pl.root]
        for step in pl.path:
            if step[0] == "field":
                ty = dict(ty.fields)[step[1]] if ty.kind == "struct" and step[1] in dict(ty.fields) else None
            elif step[0] == "elem":
                ty = ty.elem if ty.kind == "rec" else (TU8 if ty.kind == "bytes" else None)
            else:
                ty = TBytes(None)
            if ty is None:
                raise TranslateError("ill-typed place")
        return ty

    def do_macro(self, e, env, rest):
        name, args = e[1], e[2]
        if name == "assert" and len(args) >= 1:
            pa = PG(list(args[0])); c_ast = pa.expr()
            if pa.peek()[0] != "eof":
                raise TranslateError("assert!: condition not understood")
            e0 = self.epoch
            pre = []
            if c_ast[0] == "not":
                inner = self.ex(c_ast[1], env, pre)
                if inner.ty.kind in ("bool", "prop"):
                    return self.wrap(pre, Guard(inner.t, "assertion", rest(env), neg=True))
            c = self.cond(c_ast, env, pre)
            if self.epoch != e0:
                raise TranslateError("assert! whose condition has a side effect")
            return self.wrap(pre, Guard(c, "assertion", rest(env)))
        raise TranslateError(f"unsupported macro {name}!")

    def do_if(self, e, env, stmts, i, k, kv):
        c_pre = []
        c = self.cond(e[1], env, c_pre)
        a, b = e[2], e[3] or []
        more = i + 1 < len(stmts)
        da, db = self.diverges(a), self.diverges(b)
        if more and i + 2 == len(stmts) and stmts[i + 1][0] == "ret" and stmts[i + 1][1][0] in ("path", "lit"):
            # the rest is one trailing variable / literal: cheap, duplicated into both branches instead of a join point
            cont = lambda env2: self.seq(stmts, i + 1, {n: env2[n] for n in env2 if n in env}, k, kv)
            na = self.block(a, env, cont, self.no_value)
            nb = self.block(b, env, cont, self.no_value)
            return self.wrap(c_pre, If(c, na, nb))
        if not more or da or db:
            # no join needed: at most one branch reaches the rest (or the rest is the cheap continuation k itself)
            cont = lambda env2: self.seq(stmts, i + 1, {n: env2[n] for n in env2 if n in env}, k, kv)
            na = self.block(a, env, cont, kv if not more else self.no_value)
            nb = self.block(b, env, cont, kv if not more else self.no_value)
            return self.wrap(c_pre, If(c, na, nb))
        if self.in_loop:
            raise TranslateError("`if` with a continuation inside a loop body")
        # join point over the live variables
        used = names_in(stmts[i + 1:], set()) | set(self.out_vars)
        live = [n for n in env if n in used]
        self.njoin += 1
        jname = f"{self.base}_k{self.njoin}_src"
        jenv = {n: env[n] for n in live}
        body = self.seq(stmts, i + 1, dict(jenv), k, kv)
        self.aux.append(("join", jname, self.params_text(live, env), body))
        call = Tail((f"{jname} {self.dict_arg()}" + " ".join(lean_id(n) for n in live)).rstrip())
        cont = lambda env2: call
        na = self.block(a, env, cont, self.no_value)
        nb = self.block(b, env, cont, self.no_value)
        return self.wrap(c_pre, If(c, na, nb))

    def no_value(self, env, v):
        raise TranslateError("value expression in statement position")

    def carried_and_captured(self, body_stmts, extra_exprs, env, exclude=()):
        assigned = self.assigned_roots(body_stmts, env, set())
        carried = [n for n in env if n in assigned and n not in exclude]
        used = names_in(body_stmts, set())
        for x in extra_exprs:
            names_in(x, used)
        captured = [n for n in env if n in used and n not in carried and n not in exclude]
        return carried, captured

    def do_for(self, s, env, rest):
        pat, it, body = s[1], s[2], s[3]
        if pat[0] != "var":
            raise TranslateError("for pattern")
        var = pat[1]
        # for e in X.iter_mut() { *e op= v; }
        if it[0] == "method" and it[2] == "iter_mut" and not it[3]:
            return self.do_iter_mut(var, it[1], body, env, rest)
        if it[0] != "range":
            raise TranslateError("unsupported `for` iterator")
        lo_e, hi_e = rng(it)
        if lo_e is None or hi_e is None:
            raise TranslateError("unbounded range")
        pre = []
        lo = self.ex(lo_e, env, pre, TNat("usize"))
        hi = self.ex(hi_e, env, pre, TNat("usize"))
        carried, captured = self.carried_and_captured(body, [], env, exclude=(var,))
        if not carried:
            raise TranslateError("loop without effect")
        self.nloop += 1
        lname = f"{self.base}_loop{self.nloop}_src"
        cnt = "cnt"
        benv = {n: env[n] for n in captured + carried}
        benv[var] = TNat("usize")
        cpat = ", ".join(lean_id(n) for n in carried)
        ctuple = lean_id(carried[0]) if len(carried) == 1 else f"({cpat})"
        cap_args = "".join(lean_id(n) + " " for n in captured)
        rec = Tail(f"{lname} {self.dict_arg()}{cap_args}{cnt} ({lean_id(var)} + 1) " + " ".join(lean_id(n) for n in carried))
        self.in_loop += 1
        try:
            bnode = self.block(body, benv, lambda env2: rec, self.no_value)
        finally:
            self.in_loop -= 1
        rty = env[carried[0]].lean if len(carried) == 1 else "(" + " × ".join(env[n].lean for n in carried) + ")"
        self.aux.append(("for", lname, self.params_text(captured, env), (cnt, lean_id(var), carried, [env[n].lean for n in carried], rty, ctuple, bnode)))
        count = hi.t if lo.lit == 0 else f"{hi.p()} - {lo.p()}"
        count = count if re.fullmatch(r"[\w.]+", count) else f"({count})"
        call = f"{lname} {self.dict_arg()}{cap_args}{count} {lo.p()} " + " ".join(lean_id(n) for n in carried)
        pre.append(lambda b: ("LOOPCALL", call, ctuple, b))
        return self.wrap_loopcall(pre, rest(dict(env)))

    def wrap_loopcall(self, pre, body):
        """the loop call is a Bind when the loop def is fallible, else a Let — decided when the aux def is rendered;
        a marker node keeps both possibilities"""
        for w in reversed(pre):
            r = w(body)
            if isinstance(r, tuple) and r[0] == "LOOPCALL":
                body = LoopCall(r[1], r[2], r[3], self.aux[-1])
            else:
                body = r
        return body

    def do_while(self, s, env, rest):
        cond_e, body = s[1], s[2]
        if self.nwhile >= len(self.spec.fuel):
            raise TranslateError("`while` loop without a fuel annotation in the kernel spec")
        fuel_text = self.spec.fuel[self.nwhile]
        self.nwhile += 1
        carried, captured = self.carried_and_captured(body, [cond_e], env)
        if not carried:
            raise TranslateError("loop without effect")
        self.nloop += 1
        lname = f"{self.base}_loop{self.nloop}_src"
        benv = {n: env[n] for n in captured + carried}
        cpat = ", ".join(lean_id(n) for n in carried)
        ctuple = lean_id(carried[0]) if len(carried) == 1 else f"({cpat})"
        cap_args = "".join(lean_id(n) + " " for n in captured)
        rec = Tail(f"{lname} {self.dict_arg()}{cap_args}fuel " + " ".join(lean_id(n) for n in carried))
        cpre = []
        c = self.cond(cond_e, benv, cpre)
        self.in_loop += 1
        try:
            bnode = self.block(body, benv, lambda env2: rec, self.no_value)
        finally:
            self.in_loop -= 1
        node = self.wrap(cpre, If(c, bnode, Ret(ctuple)))
        rty = env[carried[0]].lean if len(carried) == 1 else "(" + " × ".join(env[n].lean for n in carried) + ")"
        self.aux.append(("while", lname, self.params_text(captured, env), (carried, [env[n].lean for n in carried], rty, ctuple, node)))
        # the spec's fuel expression bounds the number of ITERATIONS; one more unit pays for the last (false) test of the condition,
        # so that running out of fuel can be a failure (`| 0 => DIVERGE`), never a success value
        f = f"({fuel_text} + 1)"
        call = f"{lname} {self.dict_arg()}{cap_args}{f} " + " ".join(lean_id(n) for n in carried)
        pre = [lambda b: ("LOOPCALL", call, ctuple, b)]
        return self.wrap_loopcall(pre, rest(dict(env)))

    def do_iter_mut(self, var, target, body, env, rest):
        pl = self.place(target, env)
        if pl is None:
            raise TranslateError("iter_mut on a non-place")
        if len(body) != 1 or body[0][0] != "assign" or body[0][1] != ("deref", ("path", var)):
            raise TranslateError("iter_mut loop body must be a single assignment to the element")
        op, rhs = body[0][2], body[0][3]
        if op != "=":
            rhs = ("bin", op[:-1], ("path", var), rhs)
        pre = []
        info = None
        if pl.path and pl.path[-1][0] == "slice":
            parent = self.read_place(pl, env, pre, upto=len(pl.path) - 1)
            lo, hi, text, _ = self.slice_guard(parent, pl.path[-1], env, pre)
            cur = Val(text, TBytes(None), False); info = (lo, hi)
        else:
            cur = self.read_place(pl, env, pre)
        if cur.ty.kind != "bytes":
            raise TranslateError("iter_mut on a non-byte place")
        benv = dict(env); benv[var] = TU8
        sub = []
        v = self.ex(rhs, benv, sub, TU8)
        if sub or v.ty.kind != "u8":
            raise TranslateError("iter_mut body with a check")
        if pl.root in names_in(rhs, set()):
            raise TranslateError("iter_mut body reads the mutated place")
        new = f"{cur.p()}.map (fun {lean_id(var)} => {v.t})"
        self.write_place(pl, new, env, pre, info=info)
        return self.wrap(pre, rest(dict(env)))

    # ------------------------------------------------------------------------------------------- kernel tail
    def setup_tail(self, stmts):
        self.tail_at = None
        sp = self.spec
        if sp.tail is None:
            return
        import importlib
        kmod = importlib.import_module("kernels." + sp.tail.module)
        ker = [k for k in kmod.KERNELS if k.fn == sp.tail.kernel_fn]
        if len(ker) != 1:
            raise TranslateError("kernel of the tail not found")
        ker = ker[0]
        first = None
        for i, s in enumerate(stmts):
            in_kernel = (ker.stmt_filter is None or ker.stmt_filter(i, s))
            if in_kernel and s[0] == "assign":
                try:
                    key = KT.show(s[1])
                except TranslateError:
                    key = None
                if key in ker.stores and ker.stores[key].startswith("_"):
                    in_kernel = False          # a store the kernel ignores: it is glue
            in_glue = sp.glue(i, s)
            if in_kernel == in_glue:
                raise TranslateError(f"statement {i} of fn {sp.fn} belongs to {'both the glue and the kernel' if in_glue else 'neither the glue nor the kernel'}")
            if in_kernel and first is None:
                first = i
            if in_glue and first is not None:
                raise TranslateError("glue statement after the kernel part")
        if first is None:
            raise TranslateError("empty kernel tail")
        self.tail_at = first
        self.tail_kernel = ker

    def kernel_tail(self, env, k):
        ker = self.tail_kernel
        stores = {}
        for key, slot in ker.stores.items():
            if slot.startswith("_"):
                continue
            m = re.fullmatch(r"self\.(\w+)\[(\d+)\]", key)
            if not m:
                raise TranslateError("kernel store of unsupported form")
            stores.setdefault(m.group(1), []).append(int(m.group(2)))
        if len(stores) != 1:
            raise TranslateError("kernel stores into more than one field")
        field, idxs = next(iter(stores.items()))
        idxs = sorted(idxs)
        sty = env["self"]
        fty = dict(sty.fields)[field]
        if fty.kind != "rec" or idxs != list(range(len(idxs))):
            raise TranslateError("kernel store pattern")
        out_rec = [r for r in self.mod.recs.values() if len(r.fields) == len(idxs)]
        if len(out_rec) != 1:
            raise TranslateError("kernel result record")
        t = self.tmp()
        elems = [f"{t}.{out_rec[0].fields[i]}" if i in idxs else f"self.{field}.{fty.fields[i]}" for i in range(len(fty.fields))]
        upd = f"{{ self with {field} := ⟨" + ", ".join(elems) + "⟩ }"
        body = Let("self", upd, k(env))
        return Bind(t, self.spec.tail.call, body) if self.spec.tail.fails else Let(t, self.spec.tail.call, body)

    # ------------------------------------------------------------------------------------------- function
    def final(self, env, v):
        outs = [lean_id(n) for n in self.out_vars]
        if self.ret_ty is not None and self.ret_ty.kind != "unit":
            if v is None:
                raise TranslateError("missing return value")
            self.compatible(self.ret_ty, v.ty, "return value")
            outs.append(v.t)
        elif v is not None:
            raise TranslateError("value returned from a unit function")
        if not outs:
            raise TranslateError("function without result")
        return Ret(outs[0] if len(outs) == 1 else "(" + ", ".join(outs) + ")")

    def translate(self):
        sp = self.spec
        # bounded `impl` region, unique live match, item #[cfg] evaluated; statement attributes, nested items, inner shadowing, re-bound
        # `&mut` parameters and `let x = &mut …` aliases (this translator gives `&mut` copy semantics) are refused (ktx_glue_guard.py)
        hdr, body = GUARD.find_fn(self.src, sp.fn, sp.scope)
        GUARD.lint_fn(hdr, body, what=f"fn {sp.fn}")
        GUARD.check_fn_uses(self.mod.file, strip_comments(self.src), hdr, body, what=f"fn {sp.fn}")
        name, generics, params, ret = parse_sig(hdr)
        env, plist, self.out_vars = {}, [], []
        for pn, pt in params:
            ty = self.conv(pt)
            mode = "mut" if isinstance(pt, tuple) and pt[0] == "ref" and pt[1] else "val"
            env[pn] = ty; plist.append((pn, ty, mode))
            if mode == "mut":
                self.out_vars.append(pn)
        self.ret_ty = self.conv(ret) if ret is not None else None
        self.base = sp.lean_name[:-4] if sp.lean_name.endswith("_src") else sp.lean_name
        stmts = PG(lex(body)).block()
        self.top_stmts = stmts
        self.setup_tail(stmts)
        node = self.seq(stmts, 0, env, lambda env2: self.final(env2, None), lambda env2, v: self.final(env2, v))
        # fallibility: any panic site in the body or in an auxiliary def
        fal = fallible_deep(node) or any(aux_fallible(a) for a in self.aux)
        out_tys = [env[n].lean for n in self.out_vars]
        if self.ret_ty is not None and self.ret_ty.kind != "unit":
            out_tys.append(self.ret_ty.lean)
        rty = out_tys[0] if len(out_tys) == 1 else "(" + " × ".join(out_tys) + ")"
        style = self.mod.style
        mty = rty if not fal else (f"Option {paren_ty(rty)}" if style == "option" else f"Except {self.mod.panic_ty} {paren_ty(rty)}")
        R = Render(style, not fal)
        gb = self.generic_binders()
        parts = []
        for a in self.aux:
            parts.append(self.render_aux(a, R, mty, gb, fal))
        ptext = self.params_text([p[0] for p in plist], env)
        doc = f"/-- {sp.doc + ' — ' if sp.doc else ''}GENERATED from `fn {sp.fn}` in {self.mod.file} -/\n"
        parts.append(doc + f"def {sp.lean_name} {gb}{ptext} : {mty} :=\n" + R.go(resolve(node, fal), 2))
        REGISTRY[(sp.owner, sp.fn)] = FnInfo(sp, plist, self.ret_ty, self.out_vars, fal)
        return "\n".join(parts)

    def render_aux(self, a, R, mty, gb, fal):
        kind, name, ptext = a[0], a[1], a[2]
        ptext = (ptext + " ") if ptext else ""
        if kind == "join":
            return (f"/-- join point of `fn {self.spec.fn}` (the statements after an `if`) -/\n"
                    f"def {name} {gb}{ptext}: {mty} :=\n" + R.go(resolve(a[3], fal), 2))
        if kind == "for":
            cnt, var, carried, ctys, rty, ctuple, bnode = a[3]
            m = rty if not fal else (f"Option {paren_ty(rty)}" if R.style == "option" else f"Except {self.mod.panic_ty} {paren_ty(rty)}")
            sig = " → ".join(["Nat", "Nat"] + ctys + [m])
            cp = ", ".join(carried)
            return (f"/-- `for {var} in lo..hi` of `fn {self.spec.fn}`: `cnt` iterations from `{var}` -/\n"
                    f"def {name} {gb}{ptext}: {sig}\n"
                    f"  | 0, _, {cp} => {R.ok(ctuple)}\n"
                    f"  | cnt + 1, {var}, {cp} =>\n" + R.go(resolve(bnode, fal), 4))
        if kind == "while":
            carried, ctys, rty, ctuple, node = a[3]
            m = rty if not fal else (f"Option {paren_ty(rty)}" if R.style == "option" else f"Except {self.mod.panic_ty} {paren_ty(rty)}")
            sig = " → ".join(["Nat"] + ctys + [m])
            cp = ", ".join(carried)
            if not fal:
                raise TranslateError("internal: a fuel-driven loop must be fallible")
            under = ", ".join("_" for _ in carried)
            return (f"/-- `while` loop of `fn {self.spec.fn}` on fuel; running out of fuel is the failure `{R.fail('diverge')}`, never a value -/\n"
                    f"def {name} {gb}{ptext}: {sig}\n"
                    f"  | 0, {under} => {R.fail('diverge')}\n"
                    f"  | fuel + 1, {cp} =>\n" + R.go(resolve(node, fal), 4))
        raise TranslateError("internal: aux kind")


class LoopCall(Node):
    def __init__(self, call, pat, body, aux):
        self.call = call; self.pat = pat; self.body = body; self.aux = aux


def paren_ty(t):
    return t if re.fullmatch(r"[\w.]+|\(.*\)", t) else f"({t})"


def children(n):
    if isinstance(n, (Let, Guard, Bind)):
        return [n.body]
    if isinstance(n, If):
        return [n.a, n.b]
    if isinstance(n, LoopCall):
        return [n.body]
    return []


def fallible_deep(n):
    if isinstance(n, (Guard, Bind, Fail)):
        return True
    return any(fallible_deep(c) for c in children(n))


def aux_fallible(a):
    if a[0] == "join":
        return fallible_deep(a[3])
    if a[0] == "while":
        return True              # fuel exhaustion is a failure
    return fallible_deep(a[3][-1])


def resolve(n, fal):
    """LoopCall -> Bind (fallible function) or Let (pure function)"""
    if isinstance(n, LoopCall):
        body = resolve(n.body, fal)
        return Bind(n.pat, n.call, body) if fal else Let(n.pat, n.call, body)
    if isinstance(n, Let):
        return Let(n.pat, n.text, resolve(n.body, fal))
    if isinstance(n, Guard):
        return Guard(n.cond, n.kind, resolve(n.body, fal), n.neg)
    if isinstance(n, Bind):
        return Bind(n.pat, n.text, resolve(n.body, fal), n.src, n.kind)
    if isinstance(n, If):
        return If(n.cond, resolve(n.a, fal), resolve(n.b, fal))
    return n


def translate_struct(spec: Fn):
    """kernel kind "struct": a Lean structure generated from the Rust declaration"""
    tr = Tr(spec)
    ty = tr.struct_ty(spec.fn)
    lines = [f"/-- GENERATED from `struct {spec.fn}` in {spec.mod.file} -/", f"structure {spec.lean_name} where"]
    for f, fty in ty.fields:
        lines.append(f"  {lean_id(f)} : {fty.lean}")
    return "\n".join(lines) + "\n"


def check_struct(spec: Fn):
    """kernel kind "check_struct": the Rust declaration still has exactly the fields (names, order, types) of the hand-written
    Lean structure it is mapped to; emits a comment (the mapping itself is used by every function of the module)"""
    tr = Tr(spec)
    ty = tr.struct_ty(spec.fn)
    got = [(f, t.lean) for f, t in ty.fields]
    if got != list(spec.glue):
        raise TranslateError(f"struct {spec.fn}: declaration {got} differs from the mapped Lean structure {list(spec.glue)}")
    return (f"/-- `struct {spec.fn}` of {spec.mod.file} has the fields of `{ty.lean}`: "
            + ", ".join(f"{f} : {t}" for f, t in got) + " -/\n" + f"def {spec.lean_name} : Unit := ()\n")


def translate(spec: Fn):
    REGISTRY.pop((spec.owner, spec.fn), None)      # a failed translation must not leave a stale signature behind
    if spec.kind == "struct":
        return translate_struct(spec)
    if spec.kind == "check_struct":
        return check_struct(spec)
    return Tr(spec).translate()
