#!/usr/bin/env python3
"""ktx_glue_curve — source-level translator for the CURVE LAYER of /repo/src above the (already tied) fe64 / scalar64 limb
kernels: src/curve25519/ge.rs, src/curve25519/mod.rs, src/x25519.rs, src/ed25519.rs, the compositions of
src/curve25519/fe/mod.rs + fe/fe64/mod.rs and src/curve25519/scalar/{mod,scalar64}.rs.
Kernel spec module: tools/kernels/glue_curve.py (`TRANSLATE = ktx_glue_curve.translate`); output:
lean/CxVerif/Extracted/GlueCurve.lean, regenerated from the CURRENT source by tools/extract_tables.py on every run; tie theorems
`<f>_src_eq_model`: lean/CxVerif/Props/C15/GlueTieCurve.lean (helpers lean/CxVerif/Proofs/GlueCurve.lean).
It reuses the lexer of tools/kernel_translate.py and the parser `P2` of tools/ktx_misc.py (class `PC` below adds `loop`, `break`,
`return` statements/expressions, `<T>::f` qualified paths, turbofish method calls, reference/generic types).

What a translation is
---------------------
One Rust `fn` (or associated `const`) -> one Lean `def <Owner>.<fn>_src` (+ auxiliary defs for loops / join points), in the SHAPE of
the hand models of lean/CxVerif/Impl/{Ge,Ed25519,X25519,Fe64,Scalar64}.lean: a `do` block in the `Option` monad, three-address code
in Rust's evaluation order (operands left to right, arguments before the call, the right-hand side of an assignment before the
indexing of its place).  `none` = a Rust panic.  A function without any panic site is emitted as a pure definition.

  callees     every function / method / operator impl / constant the code uses must be named by the spec (`EXT`, `OPS`, `CONSTS`
              of tools/kernels/glue_curve.py; per function: `local_ext`, `local_consts`) with its Lean rendering: these are the
              MODEL's functions (the limb kernels tied by Props/C15/KernelTie*.lean, the SHA-512 context, the constant-time helpers
              tied by Props/C18KernelTie, and the model functions of this layer, each of which is itself tied to ITS translation by
              a theorem of GlueTieCurve).  Overloaded operators are resolved by the inferred operand types (`&Ge + &GeCached` ≠
              `&Ge + &GePrecomp` ≠ `&Fe + &Fe`).  The signature of a translated function is CHECKED against its own `EXT` entry
              (arity, types, `&mut` parameters).  A call with `&mut` effects nested inside another expression is refused.
  types       `Fe`, `Scalar`, the six point structs = the Lean structures of the models (field lists CHECKED against the Rust
              `struct` declarations; `Fe([u64; 5])` / `Scalar([u64; 5])`: `.0` is the identity, `.0[k]` = `.l<k>`, `Fe([a, …])` = `⟨a, …⟩`;
              `arrays={("u64", 5): "Scalar"}` lets the bare `[u64; 5]` of scalar64.rs be that record as in the model);
              `[u8; N]`, `&[u8]` = `Bytes` (static length N tracked; an `[u8; N]` PARAMETER is tested on entry: another length is not
              expressible in Rust = `none`); erased newtypes (`SecretKey([u8; 32])`); `[i8; N]` = `List Int`, `[u64; 4]` = `List Nat`,
              `[T; N]` of structs = `List T`; `u8` = `UInt8`; `usize`/`u64` = `Nat`; `i8` = `Int`; `bool` = `Bool`;
              `Choice` = `CT.Choice`; `Option<T>` = `Option T`; tuples.  Untyped literals (`let mut d = 0;`, `[0; 64]`) take their type
              from the context or from the spec's `hints`.
  integers    `i8`: `+ - unary-` are CHECKED (`← ckI8 (a + b)`) unless the interval analysis excludes overflow, `<< k` wraps
              (`shlI8 a k`), `>> k` = floor division by `2^k`, `/ lit` = `Int.tdiv`, `&` = two's complement and (`i8And`),
              `as u8` = `i8AsU8`, `u8 as i8` = `u8AsI8`, `as usize` = `.toNat` only when the operand is known non-negative from the
              path condition (`match x.cmp(&0)`);
              `usize`: an interval analysis (literals, `for` variables with known bounds, `+ * / % & >>`, `min`, refinement by
              `if x == 0 { return }` and by a passed bounds check of a static array) must show that `+ *` cannot overflow and `-`
              cannot underflow, then they are the mathematical operations; otherwise `-` is emitted with its underflow check and
              `+ *` are refused;
              `u64` (limbs): `+ - *` are ALWAYS the models' checked `add64` / `sub64` / `mul64` binds; `& | ^ >>`, `<<` with the
              truncation written (`(a <<< k) % 2 ^ 64`, omitted only when the operand's own range — a widened byte — excludes it);
              `u8`: `& | ^`, `>>`/`<<` by a literal or by a usize amount whose interval is below 8, comparisons, `as u64` = `.toNat`.
              Comparisons: `== !=` are `Bool`s, `< <= > >=` decidable `Prop`s.
  places      variables, struct fields (`self.x`, written back as `{ self with x := … }`), `a[i]` (read: `← a[i]?`, i.e. the bounds
              check is a failure site; the same element of an unassigned array read twice is read once; write: `set` guarded by the
              bounds check unless the index interval is inside a static array, or `modify` for `a[lit] op= e` on a static array),
              sub-slices `a[lo..hi]` of static arrays with constant bounds, `copy_from_slice` into such sub-slices
              (`take ++ new ++ drop`), `<&[u8; N]>::try_from(x).unwrap()`.
  statements  `let [mut] x [: T] [= e];` `let (a, b) = e;` `let [a, b, c, d] = e;` `x = e;` `x op= e;` `a[i] op= e;` expression
              statements with `&mut` effects (written back), `assert!/debug_assert!` (failure guard; `debug_assert!` is active in the
              overflow-checked build the models describe), nested blocks (their `let`s end with them), `return e`, trailing
              expressions; `macro_rules!` items inside a function body are expanded textually (each invocation in its own block);
              `if`/`match` statements whose branches all fall through = ONE monadic value `let (assigned…) ← if c then … else …`;
              as the function's trailing value every branch ends in its own result; with a diverging branch (`return`, `break`) the
              continuation goes to the other branch; when two branches reach a non-trivial continuation it becomes a JOIN POINT def
              `<f>_k<n>_src` over the live variables;
              `match` on `Option` (`Some(x) => …, None => …`, also as the initialiser of a `let` with a `return` arm) and on
              `a.cmp(&b)` (`Ordering::{Greater,Less,Equal}` -> `if a > b … else if a < b … else …`); `||`/`&&` whose right operand can
              fail = nested `if`s (Rust's short circuit); `opt.map(f)`.
  loops       `for j in lo..hi` -> aux def `<f>_loop<n>_src captured… : (cnt) → (j) → carried… → M carried` by structural recursion
              on the count (`break` = leave with the current values); `for p in (lo..hi).rev()` -> recursion on the count, `p = lo +
              cnt`; `for x in A.iter()` / `for x in A[a..b].iter_mut()` -> recursion on the list (iter_mut returns the new list and
              the other carried variables); `for e in x.0.iter_mut()` over limbs -> unrolled; `loop { … }` -> aux def on FUEL given
              by the spec (`fuel=[…]`; running out of fuel is `none`, so a tie theorem to a fuel-free model is also the proof that
              the fuel is adequate), `break` = the call of the continuation def `<f>_k<n>_src`, `return e` = the function's result.
              Loop-carried = assigned in the body (found by a trial translation) and initialised at the loop head; a `let` inside a
              loop body that shadows a variable the recursion still needs gets a fresh Lean name; `let mut r: T;` without initialiser
              is supported.  kind "limb_loop": `for _ in 0..n { <limb kernel> }` over the five registers (skeleton checked here, the
              body tied by tools/kernel_translate.py).  An aux def without any failure site is a pure definition.
  consts      kind "const": an associated `const NAME: T = <struct literal>`.
Anything else raises TranslateError -> reported as a broken extraction (the generated placeholder makes the tie theorem fail);
nothing is skipped silently.
After audit 3 (tools/ktx_glue_guard.py): lookups see only COMPILED items (item `#[cfg]` evaluated with the guard's table) and must be
unique; statement attributes, nested items other than the kernels the spec maps (`local_ext`), `let x = &mut …` aliases, re-bound
`&mut` parameters and changed imports of a used name are refused; `debug_assert!(c)` is translated as the guard
`if Glue.debugAssert (c) then … else none` (lean/CxVerif/Util/GlueDebug.lean: a wrapper that is not definitionally `c`), so that
`assert!` <-> `debug_assert!` in the source changes the generated text and breaks the tie.
"""
import os
import re

import kernel_translate as KT
from kernel_translate import TranslateError, lex, strip_comments
import ktx_misc
from ktx_misc import P2
import ktx_glue_guard as GUARD

LEAN_KEYWORDS = ktx_misc.LEAN_KEYWORDS | {"cnt", "fuel"}


def REPO():
    return os.environ.get("CX_REPO", KT.REPO)


def read_src(rel):
    return open(os.path.join(REPO(), rel)).read()


# ===================================================================================================== parser

class PC(P2):
    """P2 + `loop`, `break`, `return` (statement and match-arm expression), `<T>::f`, `.m::<N>()`, reference / generic types"""

    def ty(self):
        if self.at("&", "&&"):
            self.eat()
            mut = False
            if self.atid("mut"):
                self.eat(); mut = True
            return ("ref", mut, self.ty())
        if self.at("["):
            self.eat(); e = self.ty(); n = None
            if self.at(";"):
                self.eat(); n = self.expr()
            self.eat("]")
            return ("arr", e, n)
        if self.at("("):
            self.eat(); items = []
            while not self.at(")"):
                items.append(self.ty())
                if self.at(","):
                    self.eat()
            self.eat(")")
            return ("tuplety", items)
        t = self.eat()
        if t[0] != "id":
            raise TranslateError(f"type expected, got {t[1]!r}")
        name = t[1]
        while self.at("::"):
            self.eat(); name = self.eat()[1]
        if self.at("<") and not getattr(self, "no_generics", False):
            self.eat(); args = []
            while not self.at(">"):
                args.append(self.ty())
                if self.at(","):
                    self.eat()
            self.eat(">")
            return ("gen", name, args)
        return name

    def cast(self):
        e = self.unary()
        while self.atid("as"):
            self.eat()
            self.no_generics = True
            try:
                e = ("cast", e, self.ty())
            finally:
                self.no_generics = False
        return e

    def stmt(self):
        if self.atid("loop"):
            self.eat()
            return ("loop", self.block_in_braces())
        if self.atid("while") or self.atid("continue"):
            raise TranslateError(f"`{self.peek()[1]}` is outside the translated subset")
        if self.atid("break"):
            self.eat()
            if self.at(";"):
                self.eat()
            return ("break",)
        if self.atid("return"):
            self.eat()
            e = None
            if not (self.at(";") or self.at("}")):
                e = self.expr()
            if self.at(";"):
                self.eat()
            return ("return", e)
        return super().stmt()

    def atom(self):
        if self.at("<"):                       # `<&[u8; 32]>::try_from`
            self.eat(); t = self.ty(); self.eat(">"); self.eat("::")
            return ("qpath", t, self.eat()[1])
        if self.atid("match"):
            self.eat(); scrut = self.expr_nostruct(); self.eat("{")
            arms = []
            while not self.at("}"):
                if self.atid("_"):
                    self.eat(); pat = None
                else:
                    pat = self.expr_nostruct()
                self.eat("="); self.eat(">")
                if self.at("{"):
                    body = self.block_in_braces()
                else:
                    saved, self.nostruct = self.nostruct, 0
                    e = self.expr()
                    if self.at("=", "+=", "-=", "*=", "&=", "|=", "^=", "<<=", ">>="):      # `Greater => t = …,`
                        op = self.eat()[1]; rhs = self.expr()
                        body = [("assign", e, op, rhs)]
                    else:
                        body = [("ret", e)]
                    self.nostruct = saved
                if self.at(","):
                    self.eat()
                arms.append((pat, body))
            self.eat("}")
            return ("match", scrut, arms)
        if self.atid("return"):                # `None => return false,`
            self.eat()
            e = None
            if not (self.at(",") or self.at("}") or self.at(";")):
                e = self.expr()
            return ("return_expr", e)
        return super().atom()

    def postfix(self):
        e = self.atom()
        while True:
            if self.at("("):
                self.eat(); args = []
                while not self.at(")"):
                    args.append(self.expr())
                    if self.at(","):
                        self.eat()
                self.eat(")")
                e = ("call", e, args)
            elif self.at("["):
                self.eat()
                saved, self.nostruct = self.nostruct, 0
                ix = self.expr()
                self.nostruct = saved
                self.eat("]")
                e = ("index", e, ix)
            elif self.at("."):
                self.eat(); name = self.eat()
                if name[0] == "int":
                    e = ("field", e, str(name[1]))
                    continue
                generics = None
                if self.at("::"):
                    self.eat(); self.eat("<"); generics = []
                    while not self.at(">"):
                        generics.append(self.cast())
                        if self.at(","):
                            self.eat()
                    self.eat(">")
                if self.at("("):
                    self.eat(); args = []
                    while not self.at(")"):
                        args.append(self.expr())
                        if self.at(","):
                            self.eat()
                    self.eat(")")
                    e = ("method", e, name[1], args, generics)
                elif generics is not None:
                    raise TranslateError("turbofish without a call")
                else:
                    e = ("field", e, name[1])
            else:
                return e

    def expr(self, lvl=0):
        if lvl == 0 and self.at("..") and self.peek(1)[0] == "op" and self.peek(1)[1] in ("]", ")"):
            self.eat()
            return ("range", None, None)
        return super().expr(lvl)


def balanced_end(text, i):
    depth = 1
    while i < len(text) and depth:
        depth += {"{": 1, "}": -1}.get(text[i], 0)
        i += 1
    if depth:
        raise TranslateError("unbalanced braces")
    return i


def scope_block(text, scope):
    """text of the `{ … }` opened by THE match of regex `scope` among the compiled items (a cfg-disabled `impl` is not a place to look in)"""
    masked = GUARD.mask_literals(text)
    live = []
    for m in re.finditer(scope, text):
        hs = max(masked.rfind(";", 0, m.start()), masked.rfind("}", 0, m.start()), masked.rfind("{", 0, m.start())) + 1
        kw = re.search(r"\b(?:unsafe\s+)?(?:impl|trait|mod)\b", masked[hs:m.end()])
        if GUARD.attrs_live(GUARD.attrs_before(text, hs + kw.start() if kw else m.start()), f"scope {scope!r}"):
            live.append(m)
    if not live:
        raise TranslateError(f"scope {scope!r} not found (among the compiled items)")
    if len(live) > 1:
        raise TranslateError(f"scope {scope!r} is ambiguous")
    j = masked.index("{", live[0].end() - 1)
    return text[j + 1:GUARD.close_of(masked, j) - 1]


def find_fn_unique(src, fn, scope=None):
    """(header, body) of THE `fn <fn>` directly inside the block opened by regex `scope` (or at top level of the file);
    nested fns and a second definition of the same name in the scope are refused"""
    text = strip_comments(src)
    if scope:
        block = scope_block(text, scope)
    else:
        block = text
    found = []
    masked = GUARD.mask_literals(block)
    for m in re.finditer(r"\bfn\s+" + re.escape(fn) + r"\b", masked):
        pre = masked[:m.start()]
        if pre.count("{") != pre.count("}"):
            continue
        if not GUARD.attrs_live(GUARD.attrs_before(block, m.start()), f"fn {fn}"):
            continue                      # not compiled: item #[cfg] evaluated with the table of tools/ktx_glue_guard.py
        depth, j = 0, m.end()
        while j < len(block):
            c = block[j]
            if c in "([":
                depth += 1
            elif c in ")]":
                depth -= 1
            elif c == "{" and depth == 0:
                end = balanced_end(block, j + 1)
                found.append((block[m.start():j], block[j + 1:end - 1]))
                break
            elif c == ";" and depth == 0:
                break
            j += 1
    if not found:
        raise TranslateError(f"fn {fn} not found")
    if len(found) > 1:
        raise TranslateError(f"fn {fn} is defined {len(found)} times in its scope")
    return found[0]


def expand_local_macros(body):
    """`macro_rules! m { (params) => { … } }` items inside a function body are removed and every `m!(args);` is replaced by the
    block `{ <body with the parameters substituted> }` (a block: the macro's own `let`s are hygienic)"""
    while True:
        m = re.search(r"macro_rules!\s+(\w+)\s*\{", body)
        if not m:
            return body
        name = m.group(1)
        params, mbody = ktx_misc.find_macro(body, name)
        end = balanced_end(body, m.end())
        body = body[:m.start()] + body[end:]
        pat = re.compile(r"\b" + re.escape(name) + r"!\s*\(([^()]*)\)\s*;")
        def rep(mm):
            args = [a.strip() for a in mm.group(1).split(",")]
            return "{ " + ktx_misc.macro_subst(mbody, params, args) + " }"
        body, n = pat.subn(rep, body)
        if re.search(r"\b" + re.escape(name) + r"!", body):
            raise TranslateError(f"macro {name}: an invocation of unsupported form")


def find_const_item(src, name, scope=None):
    """(type text, initialiser text) of `const <name>: T = e;` (inside the impl block opened by `scope`)"""
    text = strip_comments(src)
    block = text
    if scope:
        block = scope_block(text, scope)
    found = []
    for m in re.finditer(r"\bconst\s+" + re.escape(name) + r"\s*:", block):
        pre = block[:m.start()]
        if pre.count("{") != pre.count("}"):
            continue
        if not GUARD.attrs_live(GUARD.attrs_before(block, m.start()), f"const {name}"):
            continue
        depth, j = 0, m.end()
        eq = None
        while j < len(block):
            c = block[j]
            if c in "([{":
                depth += 1
            elif c in ")]}":
                depth -= 1
            elif c == "=" and depth == 0 and eq is None:
                eq = j
            elif c == ";" and depth == 0:
                break
            j += 1
        if eq is None:
            raise TranslateError(f"const {name} without initialiser")
        found.append((block[m.end():eq], block[eq + 1:j]))
    if len(found) != 1:
        raise TranslateError(f"const {name} found {len(found)} times")
    return found[0]


def find_struct_fields(src, name):
    """[(field name, type ast)] of `struct <name> { … }`; tuple structs `struct N(T);` -> [("0", T)]"""
    text = strip_comments(src)
    ms = [m for m in re.finditer(r"\bstruct\s+" + re.escape(name) + r"\b\s*([({])", text)
          if GUARD.attrs_live(GUARD.attrs_before(text, m.start()), f"struct {name}")]
    if len(ms) != 1:
        raise TranslateError(f"struct {name}: {len(ms)} live declarations; exactly one is required")
    m = ms[0]
    if m.group(1) == "(":
        depth, j = 1, m.end()
        while j < len(text) and depth:
            depth += {"(": 1, ")": -1}.get(text[j], 0)
            j += 1
        p = PC(lex(text[m.end():j - 1]))
        while p.atid("pub"):
            p.eat()
            if p.at("("):
                while not p.at(")") and p.peek()[0] != "eof":
                    p.eat()
                p.eat(")")
        return [("0", p.ty())]
    end = balanced_end(text, m.end())
    p = PC(lex(text[m.end():end - 1]))
    fields = []
    while p.peek()[0] != "eof":
        if p.at("#"):
            p.eat(); p.eat("["); d = 1
            while d:
                t = p.eat()[1]; d += (t == "[") - (t == "]")
            continue
        if p.atid("pub"):
            p.eat()
            if p.at("("):
                while not p.at(")") and p.peek()[0] != "eof":
                    p.eat()
                p.eat(")")
        fname = p.eat()[1]
        p.eat(":")
        fields.append((fname, p.ty()))
        if p.at(","):
            p.eat()
    return fields


def parse_sig(hdr):
    """`fn name(params) -> T` -> (name, [(param name, type ast, mode)], ret ast|None); mode: "val" | "mut" (`&mut`)"""
    p = PC(lex(hdr))
    p.eat("fn")
    name = p.eat()[1]
    if p.at("<"):
        raise TranslateError("generic functions are outside the translated subset")
    p.eat("(")
    params = []
    while not p.at(")"):
        if p.at("&") and (p.peek(1)[1] == "self" or (p.peek(1)[1] == "mut" and p.peek(2)[1] == "self")):
            p.eat(); mut = False
            if p.atid("mut"):
                p.eat(); mut = True
            p.eat("self")
            params.append(("self", "Self", "mut" if mut else "val"))
        elif p.atid("self"):
            p.eat(); params.append(("self", "Self", "val"))
        elif p.atid("mut") and p.peek(1)[1] == "self":
            p.eat(); p.eat(); params.append(("self", "Self", "val"))
        else:
            if p.atid("mut"):
                p.eat()
            pname = p.eat()
            if pname[0] != "id" or not p.at(":"):
                raise TranslateError("parameter patterns are outside the translated subset")
            p.eat(":")
            t = p.ty()
            mode = "mut" if isinstance(t, tuple) and t[0] == "ref" and t[1] else "val"
            params.append((pname[1], t, mode))
        if p.at(","):
            p.eat()
    p.eat(")")
    ret = None
    if p.at("->"):
        p.eat(); ret = p.ty()
    if p.peek()[0] != "eof":
        raise TranslateError(f"unsupported signature tail near {p.peek()[1]!r}")
    return name, params, ret


# ===================================================================================================== types

U64MAX = 2 ** 64 - 1
INT_RANGE = {"u8": (0, 255), "usize": (0, U64MAX), "u64": (0, U64MAX), "u32": (0, 2 ** 32 - 1), "i8": (-128, 127)}


class Ty:
    """kind: struct | bytes | list | int | bool | choice | option | tuple | unit | limbs"""

    def __init__(self, kind, lean, **kw):
        self.kind = kind; self.lean = lean
        self.__dict__.update(kw)

    def __repr__(self):
        return f"Ty({self.kind},{self.lean}" + (f",n={self.n}" if getattr(self, "n", None) is not None else "") + ")"

    def key(self):
        """dispatch key of the EXT / OPS tables"""
        if self.kind == "struct":
            return self.name
        if self.kind == "int":
            return self.rust
        if self.kind == "list":
            return "list:" + self.elem.key()
        if self.kind == "option":
            return "option"
        return self.kind

    def same(self, other):
        if self.kind != other.kind:
            return False
        if self.kind in ("struct", "limbs"):
            return self.name == other.name
        if self.kind == "int":
            return self.rust == other.rust
        if self.kind == "list":
            return self.elem.same(other.elem)
        if self.kind == "option":
            return self.inner.same(other.inner)
        if self.kind == "tuple":
            return len(self.items) == len(other.items) and all(a.same(b) for a, b in zip(self.items, other.items))
        return True


def TInt(rust):
    return Ty("int", {"u8": "UInt8", "i8": "Int"}.get(rust, "Nat"), rust=rust)


TBool = Ty("bool", "Bool")
TUnit = Ty("unit", "Unit")
TChoice = Ty("choice", "CT.Choice")


def TBytes(n=None):
    return Ty("bytes", "Bytes", n=n)


def TList(elem, n=None):
    return Ty("list", f"List {atomize(elem.lean)}", elem=elem, n=n)


def TOption(inner):
    return Ty("option", f"Option {atomize(inner.lean)}", inner=inner)


def TTuple(items):
    return Ty("tuple", "(" + " × ".join(t.lean for t in items) + ")", items=items)


def atomize(t):
    return t if re.fullmatch(r"[\w.']+|\(.*\)|⟨.*⟩|\[.*\]", t) and balanced(t) else f"({t})"


def balanced(t):
    """the outer brackets of `t` match each other (so `(a) b (c)` is NOT atomic)"""
    if not t or t[0] not in "(⟨[":
        return True
    close = {"(": ")", "⟨": "⟩", "[": "]"}[t[0]]
    depth = 0
    for i, c in enumerate(t):
        if c == t[0]:
            depth += 1
        elif c == close:
            depth -= 1
            if depth == 0 and i != len(t) - 1:
                return False
    return depth == 0


def lean_id(name):
    return name + "_" if (name in LEAN_KEYWORDS or re.fullmatch(r"tmp\d+", name)) else name


# ===================================================================================================== specs

class StructSpec:
    """rust struct -> the Lean structure `lean` of the model; `fields`: [(rust field, lean field, rust type text)] — CHECKED
    against the Rust declaration (names, order, types)"""

    def __init__(self, file, lean, fields=None, newtype=None, opaque=False):
        self.file = file; self.lean = lean; self.fields = fields; self.newtype = newtype; self.opaque = opaque


class Ext:
    """a callee the translator does not look into (a model function).

    lean      template: {self} receiver, {0} {1} … arguments, {g0} … const generic arguments
    params    rust type texts of the non-receiver parameters (checked against the inferred argument types)
    ret       rust type text of the result, or None
    fails     the Lean function returns `Option`
    outs      which `&mut` places the callee writes, in the order of the Lean result tuple: "self" | argument index; the return
              value (if any) comes last
    recv      rust type text of the receiver (methods), used for the signature check of translated functions
    """

    def __init__(self, lean, params=(), ret=None, fails=False, outs=(), recv=None):
        self.lean = lean; self.params = list(params); self.ret = ret; self.fails = fails; self.outs = list(outs); self.recv = recv


class Program:
    def __init__(self, structs, ext, ops, consts, usize_consts=None, prims=None):
        self.structs = structs        # rust name -> StructSpec
        self.ext = ext                # (owner key | None, fn name) -> Ext
        self.ops = ops                # (op, left key, right key | None) -> Ext
        self.consts = consts          # rust path -> (lean text, rust type text)
        self.usize_consts = usize_consts or {}   # file -> names of `const N: usize` usable in array types


class Fn:
    """one item to translate (kernel_translate.generate_all() needs .lean_name and .params)"""

    def __init__(self, prog, file, fn, scope=None, owner=None, name=None, kind="fn", fuel=(), doc="", ext_key="auto"):
        self.prog = prog; self.file = file; self.fn = fn; self.scope = scope; self.owner = owner
        self.lean_name = name or ((owner + "." if owner else "") + fn + "_src")
        self.params = ""
        self.kind = kind; self.fuel = list(fuel); self.doc = doc
        self.ext_key = (owner, fn) if ext_key == "auto" else ext_key


# ===================================================================================================== output tree

class Node:
    pass


class Let(Node):
    def __init__(self, pat, text, body):
        self.pat = pat; self.text = text; self.body = body


class Bind(Node):
    """`let pat ← text` (text: an Option-valued expression)"""

    def __init__(self, pat, text, body):
        self.pat = pat; self.text = text; self.body = body


class BindBlock(Node):
    """`let pat ← <nested block>`: the value of an `if`/`match` statement whose branches fall through"""

    def __init__(self, pat, node, body):
        self.pat = pat; self.node = node; self.body = body


class AuxBind(Node):
    """the call of a loop def of the same function: Bind in a fallible function, Let in a pure one"""

    def __init__(self, pat, text, body):
        self.pat = pat; self.text = text; self.body = body


class If(Node):
    def __init__(self, cond, a, b):
        self.cond = cond; self.a = a; self.b = b


class MatchOpt(Node):
    """`match text with | none => a | some pat => b`"""

    def __init__(self, text, a, pat, b):
        self.text = text; self.a = a; self.pat = pat; self.b = b


class MatchList(Node):
    """`match text with | [a, b, …] => body | _ => none` (array pattern of a static-length array)"""

    def __init__(self, text, names, body):
        self.text = text; self.names = names; self.body = body


class Ret(Node):
    def __init__(self, text):
        self.text = text


class Tail(Node):
    """a monadic expression in tail position (a fallible callee)"""

    def __init__(self, text):
        self.text = text


class AuxTail(Node):
    """the call of a join point / loop def of the same function in tail position"""

    def __init__(self, text):
        self.text = text


class Fail(Node):
    pass


def children(n):
    if isinstance(n, (Let, Bind, AuxBind, MatchList)):
        return [n.body]
    if isinstance(n, BindBlock):
        return [n.node, n.body]
    if isinstance(n, (If, MatchOpt)):
        return [n.a, n.b]
    return []


def fallible(n):
    if isinstance(n, (Bind, Fail, Tail, MatchList)):
        return True
    return any(fallible(c) for c in children(n))


def peephole(n):
    """`let x ← e; pure x` -> `e`"""
    if isinstance(n, Bind):
        body = peephole(n.body)
        if isinstance(body, Ret) and body.text == n.pat:
            return Tail(n.text)
        return Bind(n.pat, n.text, body)
    if isinstance(n, AuxBind):
        body = peephole(n.body)
        if isinstance(body, Ret) and body.text == n.pat:
            return AuxTail(n.text)
        return AuxBind(n.pat, n.text, body)
    if isinstance(n, Let):
        body = peephole(n.body)
        if isinstance(body, Ret) and body.text == n.pat and re.fullmatch(r"[\w.']+", n.pat):
            return Ret(n.text)
        return Let(n.pat, n.text, body)
    if isinstance(n, BindBlock):
        body = peephole(n.body)
        inner = peephole(n.node)
        if isinstance(body, Ret) and body.text == n.pat:
            return inner
        return BindBlock(n.pat, inner, body)
    if isinstance(n, If):
        return If(n.cond, peephole(n.a), peephole(n.b))
    if isinstance(n, MatchList):
        return MatchList(n.text, n.names, peephole(n.body))
    if isinstance(n, MatchOpt):
        return MatchOpt(n.text, peephole(n.a), n.pat, peephole(n.b))
    return n


def aux_refs(n, acc):
    """names of the aux defs a tree calls"""
    if isinstance(n, (AuxBind, AuxTail)):
        acc.add(n.text.split(" ")[0])
    for c in children(n):
        aux_refs(c, acc)
    return acc


class Render:
    def __init__(self, pure, pure_aux=()):
        self.pure = pure; self.pure_aux = set(pure_aux)    # pure_aux: aux defs rendered as pure definitions

    def aux_is_pure(self, text):
        return text.split(" ")[0] in self.pure_aux

    def ok(self, text):
        return text if self.pure else f"pure {atomize(text)}"

    def simple(self, n):
        """one-line rendering of a leaf, or None"""
        if isinstance(n, Ret):
            return self.ok(n.text)
        if isinstance(n, AuxTail):
            return n.text if (self.pure or not self.aux_is_pure(n.text)) else f"pure ({n.text})"
        if isinstance(n, Tail):
            return n.text
        if isinstance(n, Fail):
            return "none"
        return None

    def go(self, n, ind):
        s = " " * ind
        if isinstance(n, Let):
            return f"{s}let {n.pat} := {n.text}\n" + self.go(n.body, ind)
        if isinstance(n, (Bind, AuxBind)):
            if self.pure or (isinstance(n, AuxBind) and self.aux_is_pure(n.text)):
                if isinstance(n, Bind):
                    raise TranslateError("internal: bind in a pure function")
                return f"{s}let {n.pat} := {n.text}\n" + self.go(n.body, ind)
            return f"{s}let {n.pat} ← {n.text}\n" + self.go(n.body, ind)
        if isinstance(n, BindBlock):
            arrow = ":=" if self.pure else "←"
            return f"{s}let {n.pat} {arrow}\n" + self.expr(n.node, ind + 2) + self.go(n.body, ind)
        if isinstance(n, If):
            out = f"{s}if {n.cond} then\n" + self.go(n.a, ind + 2)
            b = n.b
            while isinstance(b, If):
                out += f"{s}else if {b.cond} then\n" + self.go(b.a, ind + 2)
                b = b.b
            sb = self.simple(b)
            if sb is not None:
                return out + f"{s}else {sb}\n"
            return out + f"{s}else\n" + self.go(b, ind + 2)
        if isinstance(n, MatchList):
            return f"{s}match {n.text} with\n{s}| [" + ", ".join(n.names) + f"] =>\n" + self.go(n.body, ind + 2) + f"{s}| _ => none\n"
        if isinstance(n, MatchOpt):
            out = f"{s}match {n.text} with\n"
            sa = self.simple(n.a)
            out += f"{s}| none => {sa}\n" if sa is not None else f"{s}| none =>\n" + self.go(n.a, ind + 2)
            sb = self.simple(n.b)
            out += f"{s}| some {n.pat} => {sb}\n" if sb is not None else f"{s}| some {n.pat} =>\n" + self.go(n.b, ind + 2)
            return out
        sn = self.simple(n)
        if sn is not None:
            return f"{s}{sn}\n"
        raise TranslateError("internal: unknown node")

    def blk(self, n, ind):
        """a branch of an expression-level `if`: text after `then`/`else` (starts on the same line)"""
        sn = self.simple(n)
        if sn is not None:
            return sn + "\n"
        if self.pure:
            return "\n" + self.go(n, ind + 2)
        return "do\n" + self.go(n, ind + 2)

    def expr(self, n, ind):
        """a block as a TERM (right-hand side of `let pat ←`)"""
        s = " " * ind
        if isinstance(n, If):
            out = f"{s}if {n.cond} then " + self.blk(n.a, ind)
            b = n.b
            while isinstance(b, If):
                out += f"{s}else if {b.cond} then " + self.blk(b.a, ind)
                b = b.b
            return out + f"{s}else " + self.blk(b, ind)
        sn = self.simple(n)
        if sn is not None:
            return f"{s}{sn}\n"
        if self.pure:
            return f"{s}(\n" + self.go(n, ind + 2) + f"{s})\n"
        return f"{s}(do\n" + self.go(n, ind + 2) + f"{s})\n"


# ===================================================================================================== values, places, state

class Val:
    def __init__(self, t, ty, at=False, iv=None, lit=None):
        self.t = t; self.ty = ty; self.at = at; self.iv = iv; self.lit = lit

    def p(self):
        return self.t if self.at else atomize(self.t)

    def rng(self):
        if self.iv is not None:
            return self.iv
        if self.ty.kind == "int":
            return INT_RANGE[self.ty.rust]
        raise TranslateError("internal: interval of a non-integer")


class Var:
    def __init__(self, ty, lean, iv=None, init=True, dead=None):
        self.ty = ty; self.lean = lean; self.iv = iv; self.init = init; self.dead = dead


class State:
    """env: rust variable -> Var (insertion ordered); memo: (array lean name, index text) -> Val of an element already read"""

    def __init__(self, env=None, memo=None, decls=None):
        self.env = env if env is not None else {}
        self.memo = memo if memo is not None else {}
        self.decls = decls if decls is not None else []     # rust names `let`-declared in the innermost open block

    def copy(self):
        return State(dict(self.env), dict(self.memo), list(self.decls))

    def with_var(self, name, var):
        st = self.copy()
        st.env[name] = var
        return st

    def invalidate(self, lean_name):
        pat = re.compile(r"(?<![\w.'])" + re.escape(lean_name) + r"(?![\w'])")
        self.memo = {k: v for k, v in self.memo.items() if not (k[0] == lean_name or pat.search(k[1]))}

    def refine(self, text, lo, hi):
        """the value named `text` is known to lie in [lo, hi] (intersection with what is known)"""
        def meet(iv, rust):
            a, b = iv if iv is not None else INT_RANGE[rust]
            return (max(a, lo) if lo is not None else a, min(b, hi) if hi is not None else b)
        for k, v in list(self.memo.items()):
            if v.t == text and v.ty.kind == "int":
                self.memo[k] = Val(v.t, v.ty, v.at, meet(v.iv, v.ty.rust))
        for n, var in list(self.env.items()):
            if var.lean == text and var.ty.kind == "int" and var.init:
                self.env[n] = Var(var.ty, var.lean, meet(var.iv, var.ty.rust), True)


class Place:
    """root variable + path of ("field", rust name) | ("limb", k) | ("elem", index ast) | ("slice", lo ast|None, hi ast|None)"""

    def __init__(self, root, path=()):
        self.root = root; self.path = list(path)


class Ctx:
    """how `return e`, `break` and falling off the end continue"""

    def __init__(self, ret, brk=None):
        self.ret = ret; self.brk = brk


# ===================================================================================================== translation

def names_in(x, acc):
    """identifiers (first path segments) occurring in an AST fragment"""
    if isinstance(x, tuple):
        if len(x) >= 2 and x[0] == "path" and isinstance(x[1], str):
            acc.add(x[1].split("::")[0])
        elif len(x) >= 2 and x[0] == "macro":
            for arg in x[2]:
                for t in arg:
                    if t[0] == "id":
                        acc.add(t[1])
        elif len(x) >= 2 and x[0] == "struct":
            for _, v in x[2]:
                names_in(v, acc)
        else:
            for y in x:
                names_in(y, acc)
    elif isinstance(x, list):
        for y in x:
            names_in(y, acc)
    return acc


def strip(e):
    while e[0] in ("paren", "deref"):
        e = e[1]
    return e


def ends_diverging(blk):
    if not blk:
        return False
    s = blk[-1]
    if s[0] in ("return", "break"):
        return True
    if s[0] in ("ret", "expr") and s[1][0] == "return_expr":
        return True
    if s[0] in ("ret", "expr") and s[1][0] == "macro" and s[1][1] in ("panic", "unreachable"):
        return True
    if s[0] in ("ret", "expr") and s[1][0] == "if" and s[1][3] is not None:
        return ends_diverging(s[1][2]) and ends_diverging(s[1][3])
    if s[0] in ("ret", "expr") and s[1][0] == "match":
        return all(ends_diverging(b) for _, b in s[1][2])
    if s[0] in ("ret", "expr") and s[1][0] == "blockexpr":
        return ends_diverging(s[1][1])
    if s[0] == "loop":
        return not escapes(s[1], brk_only=True)
    return False


def escapes(x, brk_only=False, in_loop=False):
    """does the fragment contain a `return` (unless brk_only) or a `break` that leaves it?"""
    if isinstance(x, list):
        return any(escapes(y, brk_only, in_loop) for y in x)
    if not isinstance(x, tuple) or not x:
        return False
    if x[0] in ("return", "return_expr"):
        return not brk_only
    if x[0] == "break":
        return not in_loop
    if x[0] in ("for", "loop"):
        return any(escapes(y, brk_only, True) for y in x[1:])
    return any(escapes(y, brk_only, in_loop) for y in x[1:] if isinstance(y, (tuple, list)))


class Tr:
    def __init__(self, spec: Fn):
        self.spec = spec; self.prog = spec.prog
        self.src = read_src(spec.file)
        self.aux = []                 # rendered-later aux defs: (kind, name, data…)
        self.ntmp = 0; self.njoin = 0; self.nloop = 0; self.nfuel = 0
        self.depth = 0                # expression nesting (effects only at depth 0)
        self.loop_stack = []          # per enclosing loop body: set of rust names its recursion needs (captured + carried)
        self.struct_cache = {}
        self.idents = set()
        self.spec_math = False

    # ------------------------------------------------------------------------------------------- types
    def const_usize(self, e):
        k = e[0]
        if k == "lit":
            return e[1]
        if k == "paren":
            return self.const_usize(e[1])
        if k == "bin" and e[1] in ("+", "-", "*"):
            a, b = self.const_usize(e[2]), self.const_usize(e[3])
            return {"+": a + b, "-": a - b, "*": a * b}[e[1]]
        if k == "path" and "::" not in e[1]:
            ty, init = find_const_item(self.src, e[1])
            if ty.strip() != "usize":
                raise TranslateError(f"const {e[1]} is not a usize")
            return self.const_usize(PC(lex(init)).expr())
        raise TranslateError("array length / slice bound is not a constant")

    def conv(self, t):
        if isinstance(t, tuple):
            if t[0] == "ref":
                return self.conv(t[2])
            if t[0] == "arr":
                n = self.const_usize(t[2]) if t[2] is not None else None
                alias = getattr(self.spec, "arrays", {}).get((t[1], n)) if not getattr(self, "no_alias", False) else None
                if alias is not None:
                    return self.struct_ty(alias)       # `[u64; 5]` of scalar64.rs IS the limb record
                if t[1] == "u8":
                    return TBytes(n)
                return TList(self.conv(t[1]), n)
            if t[0] == "gen" and t[1] == "Option" and len(t[2]) == 1:
                return TOption(self.conv(t[2][0]))
            if t[0] == "tuplety":
                return TTuple([self.conv(x) for x in t[1]])
            raise TranslateError(f"unsupported type {t}")
        if t in INT_RANGE:
            return TInt(t)
        if t == "bool":
            return TBool
        if t == "Choice":
            return TChoice
        if t == "Self":
            if not self.spec.owner:
                raise TranslateError("Self outside an impl")
            return self.struct_ty(self.spec.owner)
        return self.struct_ty(t)

    def conv_text(self, text):
        return self.conv(PC(lex(text)).ty())

    def struct_ty(self, name):
        if name in self.struct_cache:
            return self.struct_cache[name]
        sp = self.prog.structs.get(name)
        if sp is None:
            raise TranslateError(f"unknown type {name}")
        if sp.opaque:                                # a type of another unit (its model is named by the spec)
            ty = Ty("struct", sp.lean, name=name, fields=[], limbs=None)
            self.struct_cache[name] = ty
            return ty
        decl = find_struct_fields(read_src(sp.file), name)
        if sp.newtype is not None:
            if len(decl) != 1 or decl[0][0] != "0":
                raise TranslateError(f"struct {name} is no longer a one-field tuple struct")
            self.no_alias = True
            try:
                inner = self.conv(decl[0][1])
                want = self.conv_text(sp.newtype)
            finally:
                self.no_alias = False
            if not inner.same(want) or getattr(inner, "n", None) != getattr(want, "n", None):
                raise TranslateError(f"struct {name}: declaration differs from the spec")
            if sp.lean is None:                       # erased newtype
                self.struct_cache[name] = inner
                return inner
            ty = Ty("struct", sp.lean, name=name, fields=[], limbs=[f"l{i}" for i in range(inner.n)], elem=inner.elem)
            self.struct_cache[name] = ty
            return ty
        got = [(f, self.conv(t)) for f, t in decl]
        exp = [(f, self.conv_text(t)) for f, _, t in sp.fields]
        if [f for f, _ in got] != [f for f, _ in exp] or not all(a.same(b) for (_, a), (_, b) in zip(got, exp)):
            raise TranslateError(f"struct {name}: declaration {[(f, t.lean) for f, t in got]} differs from the mapped Lean structure")
        ty = Ty("struct", sp.lean, name=name, fields=[(f, lf, t) for (f, lf, _), (_, t) in zip(sp.fields, got)], limbs=None)
        self.struct_cache[name] = ty
        return ty

    # ------------------------------------------------------------------------------------------- helpers
    def tmp(self):
        while True:
            self.ntmp += 1
            n = f"tmp{self.ntmp}"
            if n not in self.idents:
                return n

    @staticmethod
    def wrap(pre, body):
        for w in reversed(pre):
            body = w(body)
        return body

    def lit_text(self, n, ty):
        if ty.kind != "int":
            raise TranslateError("integer literal where a non-integer is expected")
        lo, hi = INT_RANGE[ty.rust]
        if not (lo <= n <= hi):
            raise TranslateError("integer literal out of range")
        if ty.rust == "u8":
            return f"({n} : UInt8)"
        if ty.rust == "i8":
            return f"({n} : Int)" if n >= 0 else f"(-{-n} : Int)"
        return str(n)

    def probe(self, e, st, want=None):
        """type (and interval) of an expression without emitting anything"""
        saved = (self.ntmp, self.depth)
        try:
            return self.ex(e, st.copy(), [], want)
        finally:
            self.ntmp, self.depth = saved

    # ------------------------------------------------------------------------------------------- places
    def place(self, e, st):
        k = e[0]
        if k in ("paren", "deref"):
            return self.place(e[1], st)
        if k == "path":
            return Place(e[1]) if e[1] in st.env else None
        if k == "field":
            p = self.place(e[1], st)
            return None if p is None else Place(p.root, p.path + [("field", e[2])])
        if k == "index":
            p = self.place(e[1], st)
            if p is None:
                return None
            if e[2][0] == "range":
                if len(e[2]) == 4 and e[2][3] == "..=":
                    raise TranslateError("inclusive range")
                return Place(p.root, p.path + [("slice", e[2][1], e[2][2])])
            return Place(p.root, p.path + [("elem", e[2])])
        return None

    def var_val(self, name, st):
        v = st.env[name]
        if v.dead:
            raise TranslateError(f"variable {name}: {v.dead}")
        if not v.init:
            raise TranslateError(f"variable {name} is read before it is initialised")
        return Val(v.lean, v.ty, True, v.iv)

    def read_place(self, pl, st, pre, upto=None):
        v = self.var_val(pl.root, st)
        for step in (pl.path if upto is None else pl.path[:upto]):
            v = self.read_step(v, step, st, pre)
        return v

    def read_step(self, v, step, st, pre):
        ty = v.ty
        if step[0] == "field":
            if ty.kind == "struct" and ty.limbs is not None and step[1] == "0":
                return v                               # `Fe(pub [u64; 5])`: the limbs ARE the structure
            if ty.kind == "bytes" and step[1] == "0":
                return v                               # the field of an erased newtype (`SecretKey([u8; 32])`)
            if ty.kind != "struct":
                raise TranslateError(f"field {step[1]} of a non-struct value")
            for f, lf, fty in ty.fields:
                if f == step[1]:
                    return Val(f"{v.p()}.{lf}", fty, True)
            raise TranslateError(f"no field {step[1]} in {ty.name}")
        if step[0] == "elem":
            if ty.kind == "struct" and ty.limbs is not None:
                n = self.lit_index(step[1])
                if n is None or not (0 <= n < len(ty.limbs)):
                    raise TranslateError("limb arrays need a literal index in range")
                return Val(f"{v.p()}.{ty.limbs[n]}", ty.elem, True)
            if ty.kind in ("bytes", "list"):
                self.depth += 1
                try:
                    ix = self.ex(step[1], st, pre, TInt("usize"))
                finally:
                    self.depth -= 1
                if ix.ty.kind != "int" or ix.ty.rust != "usize":
                    raise TranslateError("index is not a usize")
                ety = TInt("u8") if ty.kind == "bytes" else ty.elem
                key = (v.t, ix.t)
                if key in st.memo:
                    return st.memo[key]
                t = self.tmp()
                pre.append(lambda body, t=t, s=f"{v.p()}[{ix.t}]?": Bind(t, s, body))
                r = Val(t, ety, True)
                if v.at:
                    st.memo[key] = r
                if ty.n is not None and ix.at and ix.lit is None:
                    st.refine(ix.t, None, ty.n - 1)      # the bounds check of a static array passed
                return r
            raise TranslateError("indexing a non-array value")
        if step[0] == "slice":
            lo, hi, text, n = self.slice_parts(v, step)
            return Val(text, TBytes(n) if ty.kind == "bytes" else TList(ty.elem, n), False)
        raise TranslateError("internal: place step")

    def lit_index(self, e):
        try:
            return self.const_usize(e)
        except TranslateError:
            return None

    def slice_parts(self, v, step):
        """`v[lo..hi]` of a STATIC array with constant bounds: (lo, hi, value text, length)"""
        ty = v.ty
        if ty.kind not in ("bytes", "list") or ty.n is None:
            raise TranslateError("sub-slices are only translated for arrays of static length")
        lo = self.const_usize(step[1]) if step[1] is not None else 0
        hi = self.const_usize(step[2]) if step[2] is not None else ty.n
        if not (0 <= lo <= hi <= ty.n):
            raise TranslateError("slice bounds outside the array (the code would always panic)")
        if lo == 0 and hi == ty.n:
            text = v.t
        elif lo == 0:
            text = f"{v.p()}.take {hi}"
        elif hi == ty.n:
            text = f"{v.p()}.drop {lo}"
        else:
            text = f"({v.p()}.drop {lo}).take {hi - lo}"
        return lo, hi, text, hi - lo

    def assign_var(self, name, text, st, pre, ty=None, iv=None, bind=False):
        var = st.env[name]
        lean = var.lean
        pre.append((lambda body: Bind(lean, text, body)) if bind else (lambda body: Let(lean, text, body)))
        st.invalidate(lean)
        st.env[name] = Var(ty or var.ty, lean, iv, True)

    def write_place(self, pl, new, st, pre, mode="set", fn=None, bind=False):
        """`place = new`.  mode (last step an element): "set" | "modify" (new = function text)"""
        if not pl.path:
            self.assign_var(pl.root, new, st, pre, bind=bind)
            return
        if bind:
            t = self.tmp()
            pre.append(lambda body: Bind(t, new, body))
            new = t
        parent = self.read_place(pl, st, [], upto=len(pl.path) - 1)
        step = pl.path[-1]
        pty = parent.ty
        if step[0] == "field" and step[1] == "0" and pty.kind == "struct" and pty.limbs is not None:
            text = new
        elif step[0] == "field":
            if pty.kind != "struct" or step[1] not in [f for f, _, _ in pty.fields]:
                raise TranslateError(f"no field {step[1]}")
            lf = [lf for f, lf, _ in pty.fields if f == step[1]][0]
            text = f"{{ {parent.t} with {lf} := {new} }}"
        elif step[0] == "elem":
            if pty.kind == "struct" and pty.limbs is not None:
                n = self.lit_index(step[1])
                text = f"{{ {parent.t} with {pty.limbs[n]} := {new} }}"
            else:
                text = f"{parent.p()}.{mode} {fn} {atomize(new)}"
        elif step[0] == "slice":
            lo, hi, _, n = self.slice_parts(parent, step)
            parts = []
            if lo != 0:
                parts.append(f"{parent.p()}.take {lo}")
            parts.append(new)
            if hi != pty.n:
                parts.append(f"{parent.p()}.drop {hi}")
            text = " ++ ".join(parts)
        else:
            raise TranslateError("internal: write step")
        up = pl.path[:-1]
        self.write_place(Place(pl.root, up), text, st, pre)

    # ------------------------------------------------------------------------------------------- expressions
    def ex(self, e, st, pre, want=None, hint=None):
        k = e[0]
        if k == "lit":
            ty = want
            if e[2]:
                ty = TInt(e[2])
            if ty is None or ty.kind != "int":
                raise TranslateError("cannot type an integer literal (add a `hints` entry to the kernel spec)")
            return Val(self.lit_text(e[1], ty), ty, True, (e[1], e[1]), lit=e[1])
        if k in ("paren", "deref"):
            v = self.ex(e[1], st, pre, want, hint)
            return Val(v.t, v.ty, v.at or k == "paren" and False, v.iv, v.lit)
        if k == "path":
            name = e[1]
            if name in st.env:
                return self.var_val(name, st)
            if name in ("true", "false"):
                return Val(name, TBool, True)
            if name == "None":
                if want is None or want.kind != "option":
                    raise TranslateError("cannot type `None`")
                return Val("none", want, True)
            lc = getattr(self.spec, "local_consts", {})
            if name in lc:
                lean, rty = lc[name]
                return Val(lean, self.conv_text(rty), True)
            key = name if name in self.prog.consts else ((self.spec.owner + name[4:]) if name.startswith("Self::") else None)
            if key in self.prog.consts:
                lean, rty = self.prog.consts[key]
                return Val(lean, self.conv_text(rty), True)
            try:
                n = self.const_usize(e)
                return Val(str(n), TInt("usize"), True, (n, n), lit=n)
            except TranslateError:
                pass
            raise TranslateError(f"unknown identifier {name}")
        if k in ("field", "index"):
            pl = self.place(e, st)
            if pl is not None:
                return self.read_place(pl, st, pre)
            # a field / element of a computed value
            self.depth += 1
            try:
                base = self.ex(e[1], st, pre)
            finally:
                self.depth -= 1
            if k == "field":
                return self.read_step(base, ("field", e[2]), st, pre)
            if e[2][0] == "range":
                return self.read_step(base, ("slice", e[2][1], e[2][2]), st, pre)
            if not base.at:
                t = self.tmp()
                pre.append(lambda body, t=t, s=base.t: Let(t, s, body))
                base = Val(t, base.ty, True)
            return self.read_step(base, ("elem", e[2]), st, pre)
        if k == "neg":
            if e[1][0] == "lit":
                ty = want if want is not None else None
                if ty is None or ty.kind != "int":
                    raise TranslateError("cannot type a negative literal")
                return Val(self.lit_text(-e[1][1], ty), ty, True, (-e[1][1], -e[1][1]), lit=-e[1][1])
            self.depth += 1
            try:
                v = self.ex(e[1], st, pre, want)
            finally:
                self.depth -= 1
            if v.ty.kind == "int" and v.ty.rust == "i8":
                lo, hi = v.rng()
                if lo > -128:
                    return Val(f"-{v.p()}", v.ty, False, (-hi, -lo))
                t = hint or self.tmp()
                pre.append(lambda body: Bind(t, f"ckI8 (-{v.p()})", body))
                return Val(t, v.ty, True, (-hi, 127))
            op = self.prog.ops.get(("neg", v.ty.key(), None))
            if op is None:
                raise TranslateError(f"unary `-` on {v.ty}")
            return self.apply_ext(op, None, [v], [], st, pre, hint)
        if k == "not":
            v = self.ex(e[1], st, pre, want)
            if v.ty.kind == "bool":
                return Val(f"!{v.p()}", TBool, False)
            if v.ty.kind == "prop":
                return Val(f"¬ {v.p()}", v.ty, False)
            raise TranslateError("`!` on a non-boolean")
        if k == "bin":
            return self.binop(e, st, pre, want, hint)
        if k == "cast":
            return self.cast(e, st, pre)
        if k == "if":
            return self.value_if(e, st, pre, want)
        if k == "call":
            return self.call(e, st, pre, want, hint)
        if k == "method":
            v = self.method(e, st, pre, want, hint)
            if v is None:
                raise TranslateError("unit method call used as a value")
            return v
        if k == "struct":
            return self.struct_lit(e, st, pre)
        if k == "array":
            self.depth += 1
            try:
                ety = want.elem if want is not None and want.kind == "list" else (TInt("u8") if want is not None and want.kind == "bytes" else None)
                vals = [self.ex(x, st, pre, ety) for x in e[1]]
            finally:
                self.depth -= 1
            if not vals:
                raise TranslateError("empty array literal")
            for v in vals[1:]:
                if not v.ty.same(vals[0].ty):
                    raise TranslateError("array literal of mixed types")
            text = "[" + ", ".join(v.t for v in vals) + "]"
            if vals[0].ty.kind == "int" and vals[0].ty.rust == "u8":
                return Val(text, TBytes(len(vals)), True)
            return Val(text, TList(vals[0].ty, len(vals)), True)
        if k == "repeat":
            n = self.const_usize(e[2])
            z = e[1]
            if want is not None and want.kind == "struct" and want.limbs is not None and z[0] == "lit" and n == len(want.limbs):
                return Val("⟨" + ", ".join([self.lit_text(z[1], want.elem)] * n) + "⟩", want, True)
            if z[0] == "lit" and z[1] == 0:
                ety = TInt(z[2]) if z[2] else (TInt("u8") if want is not None and want.kind == "bytes" else (want.elem if want is not None and want.kind == "list" else None))
                if ety is None:
                    raise TranslateError("cannot type `[0; n]` (add a `hints` entry to the kernel spec)")
                if ety.rust == "u8":
                    return Val(f"zeros {n}", TBytes(n), False)
                return Val(f"List.replicate {n} {self.lit_text(0, ety)}", TList(ety, n), False)
            raise TranslateError("unsupported repeat literal")
        if k == "tuple":
            self.depth += 1
            try:
                vals = [self.ex(x, st, pre) for x in e[1]]
            finally:
                self.depth -= 1
            return Val("(" + ", ".join(v.t for v in vals) + ")", TTuple([v.ty for v in vals]), True)
        raise TranslateError(f"unsupported expression {k}")

    def struct_lit(self, e, st, pre):
        name = self.spec.owner if e[1] == "Self" else e[1]
        sty = self.struct_ty(name)
        if sty.kind != "struct" or sty.limbs is not None:
            raise TranslateError(f"struct literal of {name}")
        given = dict(e[2])
        if len(given) != len(e[2]) or set(given) != {f for f, _, _ in sty.fields}:
            raise TranslateError(f"struct literal of {name}: field set differs from the declaration")
        # Rust evaluates the field initialisers in SOURCE order
        vals = {}
        self.depth += 1
        try:
            for f, init in e[2]:
                fty = [t for g, _, t in sty.fields if g == f][0]
                v = self.ex(init, st, pre, fty)
                if not v.ty.same(fty):
                    raise TranslateError(f"field {f}: type mismatch")
                vals[f] = v
        finally:
            self.depth -= 1
        return Val("⟨" + ", ".join(vals[f].t for f, _, _ in sty.fields) + "⟩", sty, True)

    def value_if(self, e, st, pre, want):
        c = self.cond(e[1], st, pre)

        def val(blk):
            if blk is None or len(blk) != 1 or blk[0][0] != "ret":
                raise TranslateError("value-`if` with a non-trivial branch")
            sub = []
            v = self.ex(blk[0][1], st.copy(), sub, want)
            if sub:
                raise TranslateError("value-`if` with a fallible branch")
            return v
        a, b = val(e[2]), val(e[3])
        if not a.ty.same(b.ty):
            raise TranslateError("value-`if` branches of different types")
        iv = None
        if a.ty.kind == "int":
            (al, ah), (bl, bh) = a.rng(), b.rng()
            iv = (min(al, bl), max(ah, bh))
        return Val(f"if {c.t} then {a.t} else {b.t}", a.ty, False, iv)

    def cond(self, e, st, pre):
        v = self.ex(e, st, pre, TBool)
        if v.ty.kind not in ("bool", "prop"):
            raise TranslateError("condition is not boolean")
        return v

    CMP = {"==": "==", "!=": "!=", "<": "<", "<=": "≤", ">": ">", ">=": "≥"}

    def binop(self, e, st, pre, want, hint=None):
        op = e[1]
        self.depth += 1
        try:
            return self.binop1(e, op, st, pre, want, hint)
        finally:
            self.depth -= 1

    def binop1(self, e, op, st, pre, want, hint):
        if op in self.CMP:
            lw = None
            if e[2][0] in ("lit", "neg"):
                lw = self.probe(e[3], st).ty
            a = self.ex(e[2], st, pre, lw)
            b = self.ex(e[3], st, pre, a.ty)
            if not a.ty.same(b.ty) or a.ty.kind not in ("int", "bool"):
                raise TranslateError(f"comparison of unsupported operands {a.ty} {b.ty}")
            ty = TBool if op in ("==", "!=") else Ty("prop", "Prop")
            return Val(f"{a.p()} {self.CMP[op]} {b.p()}", ty, False)
        if op in ("&&", "||"):
            a = self.ex(e[2], st, pre)
            sub = []
            b = self.ex(e[3], st, sub)
            if sub:
                raise TranslateError("short-circuit operator with a fallible right operand in value position")
            if a.ty.kind == "bool" and b.ty.kind == "bool":
                return Val(f"{a.p()} {op} {b.p()}", TBool, False)
            return Val(f"{a.p()} {'∧' if op == '&&' else '∨'} {b.p()}", Ty("prop", "Prop"), False)
        lw = want if want is not None and want.kind == "int" else None
        if e[2][0] in ("lit",) and lw is None and op not in ("<<", ">>"):
            lw = self.probe(e[3], st).ty
        a = self.ex(e[2], st, pre, lw)
        b = self.ex(e[3], st, pre, TInt("usize") if (op in ("<<", ">>") and e[3][0] == "lit") else (None if op in ("<<", ">>") else a.ty))
        if a.ty.kind != "int":
            ext = self.prog.ops.get((op, a.ty.key(), b.ty.key()))
            if ext is None:
                raise TranslateError(f"operator {op} on {a.ty} and {b.ty}")
            return self.apply_ext(ext, None, [a, b], [], st, pre, hint)
        rust = a.ty.rust
        if op in ("<<", ">>"):
            if b.ty.kind != "int" or b.ty.rust not in ("usize", "u32", "u64", "u8", "i32"):
                raise TranslateError("shift amount type")
            width = KT.INT_TYPES[rust]
            if b.rng()[1] >= width or b.rng()[0] < 0:
                raise TranslateError(f"shift amount not known to be below {width} (the code could panic)")
            return self.shift(op, a, b)
        if not a.ty.same(b.ty):
            raise TranslateError(f"operator {op} on {a.ty} and {b.ty}")
        (al, ah), (bl, bh) = a.rng(), b.rng()
        if rust == "u8":
            sym = {"&": "&&&", "|": "|||", "^": "^^^"}.get(op)
            if sym is None:
                raise TranslateError(f"operator {op} on u8 (checked arithmetic on bytes is outside the subset)")
            iv = (0, min(ah, bh)) if op == "&" else None
            return Val(f"{a.p()} {sym} {b.p()}", a.ty, False, iv)
        if rust == "i8":
            if op in ("+", "-"):
                lo, hi = (al + bl, ah + bh) if op == "+" else (al - bh, ah - bl)
                if -128 <= lo and hi <= 127:
                    return Val(f"{a.p()} {op} {b.p()}", a.ty, False, (lo, hi))
                t = hint or self.tmp()
                pre.append(lambda body: Bind(t, f"ckI8 ({a.p()} {op} {b.p()})", body))
                return Val(t, a.ty, True, (max(lo, -128), min(hi, 127)))
            if op == "/" and b.lit is not None and b.lit > 0:
                q = lambda x: -((-x) // b.lit) if x < 0 else x // b.lit
                return Val(f"Int.tdiv {a.p()} {b.lit}", a.ty, False, (q(al), q(ah)))
            if op == "&":
                return Val(f"i8And {a.p()} {b.p()}", a.ty, False)
            raise TranslateError(f"operator {op} on i8")
        # usize / u64 / u32 as Nat
        hi_ty = INT_RANGE[rust][1]
        if rust == "u64" and op in ("+", "-", "*"):
            if not (a.lit is not None and b.lit is not None):                               # CHECKED limb arithmetic: the models' `add64` / `sub64` / `mul64`
                t = hint or self.tmp()
                fn = {"+": "add64", "-": "sub64", "*": "mul64"}[op]
                pre.append(lambda body: Bind(t, f"{fn} {a.p()} {b.p()}", body))
                iv = {"+": (al + bl, min(ah + bh, hi_ty)), "*": (al * bl, min(ah * bh, hi_ty)), "-": (max(al - bh, 0), ah - bl)}[op]
                return Val(t, a.ty, True, iv)
        if op == "+":
            if ah + bh > hi_ty and not self.spec_math:
                raise TranslateError(f"`+` on {rust}: the interval analysis cannot exclude overflow")
            return Val(f"{a.p()} + {b.p()}", a.ty, False, (al + bl, ah + bh), lit=(a.lit + b.lit if a.lit is not None and b.lit is not None else None))
        if op == "*":
            if ah * bh > hi_ty:
                raise TranslateError(f"`*` on {rust}: the interval analysis cannot exclude overflow")
            return Val(f"{a.p()} * {b.p()}", a.ty, False, (al * bl, ah * bh), lit=(a.lit * b.lit if a.lit is not None and b.lit is not None else None))
        if op == "-":
            if al < bh:
                pre.append(lambda body, c=f"{a.p()} < {b.p()}": If(c, Fail(), body))
            return Val(f"{a.p()} - {b.p()}", a.ty, False, (max(al - bh, 0), max(ah - bl, 0)),
                       lit=(a.lit - b.lit if a.lit is not None and b.lit is not None and a.lit >= b.lit else None))
        if op == "/":
            if bl < 1:
                raise TranslateError("division by a value not known to be non-zero")
            return Val(f"{a.p()} / {b.p()}", a.ty, False, (al // bh, ah // bl))
        if op == "%":
            if bl < 1:
                raise TranslateError("remainder by a value not known to be non-zero")
            return Val(f"{a.p()} % {b.p()}", a.ty, False, (0, min(ah, bh - 1)))
        if op in ("&", "|", "^"):
            sym = {"&": "&&&", "|": "|||", "^": "^^^"}[op]
            iv = (0, min(ah, bh)) if op == "&" else (0, (1 << max(ah.bit_length(), bh.bit_length())) - 1)
            return Val(f"{a.p()} {sym} {b.p()}", a.ty, False, iv)
        raise TranslateError(f"operator {op}")

    def shift(self, op, a, b):
        rust = a.ty.rust
        al, ah = a.rng()
        if rust == "u8":
            amt = f"({b.lit} : UInt8)" if b.lit is not None else f"UInt8.ofNat {b.p()}"
            sym = ">>>" if op == ">>" else "<<<"
            iv = (al >> b.rng()[1], ah >> b.rng()[0]) if op == ">>" else None
            return Val(f"{a.p()} {sym} {amt}", a.ty, False, iv)
        if rust == "i8":
            if op == "<<":
                return Val(f"shlI8 {a.p()} {b.p()}", a.ty, False)
            if b.lit is None:
                raise TranslateError("`>>` on i8 by a non-literal amount")
            return Val(f"{a.p()} / {2 ** b.lit}", a.ty, False, (al >> b.lit, ah >> b.lit))
        if op == ">>":
            return Val(f"{a.p()} >>> {b.p()}", a.ty, False, (al >> b.rng()[1], ah >> b.rng()[0]))
        width = KT.INT_TYPES[rust]
        if (ah << b.rng()[1]) <= INT_RANGE[rust][1]:
            return Val(f"{a.p()} <<< {b.p()}", a.ty, False, (al << b.rng()[0], ah << b.rng()[1]))
        return Val(f"({a.p()} <<< {b.p()}) % 2 ^ {width}", a.ty, False)

    def cast(self, e, st, pre):
        to = e[2]
        if to not in INT_RANGE:
            raise TranslateError(f"cast to {to}")
        tty = TInt(to)
        if e[1][0] == "lit":
            return self.ex(e[1], st, pre, tty)
        v = self.ex(e[1], st, pre)
        if v.ty.kind != "int":
            raise TranslateError("cast of a non-integer")
        fr = v.ty.rust
        lo, hi = v.rng()
        tlo, thi = INT_RANGE[to]
        if fr == to:
            return v
        nat = ("usize", "u64", "u32")
        if fr in nat and to in nat:
            if hi <= thi:
                return Val(v.t, tty, v.at, (lo, hi), v.lit)
            return Val(f"{v.p()} % 2 ^ {KT.INT_TYPES[to]}", tty, False)
        if fr == "u8" and to in nat:
            return Val(f"{v.p()}.toNat", tty, True, (lo, hi))
        if fr == "i8" and to == "u8":
            return Val(f"i8AsU8 {v.p()}", tty, False)
        if fr == "u8" and to == "i8":
            iv = (lo, hi) if hi <= 127 else None
            return Val(f"u8AsI8 {v.p()}", tty, False, iv)
        if fr == "i8" and to in nat:
            if lo < 0:
                raise TranslateError("`as usize` of an i8 not known to be non-negative")
            return Val(f"{v.p()}.toNat", tty, True, (lo, hi))
        if fr in nat and to == "i8":
            if hi <= 127:
                return Val(f"({v.t} : Nat)", Ty("int", "Int", rust="i8"), True, (lo, hi)) if False else Val(f"Int.ofNat {v.p()}", tty, False, (lo, hi))
            raise TranslateError("narrowing cast to i8 of a value not known to fit")
        if fr in nat and to == "u8":
            return Val(f"UInt8.ofNat {v.p()}", tty, False)
        raise TranslateError(f"cast {fr} as {to}")

    # ------------------------------------------------------------------------------------------- calls
    def check_arg(self, v, pty, what, pre):
        if not v.ty.same(pty):
            raise TranslateError(f"{what}: type mismatch {v.ty} vs {pty}")
        if pty.kind in ("bytes", "list") and pty.n is not None and v.ty.n != pty.n:
            if v.ty.n is not None:
                raise TranslateError(f"{what}: array of {v.ty.n} elements where {pty.n} are required")
            raise TranslateError(f"{what}: array length not statically known")

    def call_ext(self, ext, recv_e, arg_es, st, pre, hint=None, generics=None, recv_val=None):
        if len(arg_es) != len(ext.params):
            raise TranslateError("callee arity")
        vals, places = [], []
        self.depth += 1
        try:
            if recv_e is not None:
                places.append(self.place(recv_e, st))
                rv = recv_val if recv_val is not None else self.ex(recv_e, st, pre)
                if ext.recv is not None:
                    self.check_arg(rv, self.conv_text(ext.recv), "receiver", pre)
                vals.append(rv)
            for a, pt in zip(arg_es, ext.params):
                pty = self.conv_text(pt)
                places.append(self.place(a, st))
                v = self.ex(a, st, pre, pty)
                self.check_arg(v, pty, "argument", pre)
                vals.append(v)
        finally:
            self.depth -= 1
        gvals = []
        for g in generics or []:
            n = self.const_usize(g)
            gvals.append(str(n))
        return self.apply_ext(ext, vals[0] if recv_e is not None else None, vals[1:] if recv_e is not None else vals,
                              places, st, pre, hint, gvals)

    def apply_ext(self, ext, recv, args, places, st, pre, hint=None, gvals=()):
        fmt = {}
        if recv is not None:
            fmt["self"] = recv.p()
        for i, a in enumerate(args):
            fmt[str(i)] = a.p()
        for i, g in enumerate(gvals):
            fmt[f"g{i}"] = g
        if len(re.findall(r"\{g\d+\}", ext.lean)) != len(gvals):
            raise TranslateError("const generic arguments of a callee")
        text = re.sub(r"\{(\w+)\}", lambda m: fmt[m.group(1)], ext.lean)
        ret = self.conv_text(ext.ret) if ext.ret is not None else None
        if not ext.outs:
            if ret is None:
                if ext.fails:
                    pre.append(lambda body: Bind("_", text, body))
                    return None
                raise TranslateError("call without effect")
            if not ext.fails:
                return Val(text, ret, False)
            t = hint or self.tmp()
            pre.append(lambda body: Bind(t, text, body))
            return Val(t, ret, True)
        if self.depth > 0:
            raise TranslateError("a call with `&mut` effects nested inside an expression")
        pats, post = [], []
        off = 1 if recv is not None else 0
        for o in ext.outs:
            pl = places[0] if o == "self" else places[off + o]
            if pl is None:
                raise TranslateError("`&mut` argument is not a place")
            if not pl.path:
                var = st.env[pl.root]
                pats.append(var.lean)
                post.append(("var", pl.root))
            else:
                t = self.tmp()
                pats.append(t)
                post.append(("place", pl, t))
        rv = None
        if ret is not None:
            t = hint or self.tmp()
            pats.append(t); rv = Val(t, ret, True)
        pat = pats[0] if len(pats) == 1 else "(" + ", ".join(pats) + ")"
        pre.append((lambda body: Bind(pat, text, body)) if ext.fails else (lambda body: Let(pat, text, body)))
        for p_ in post:
            if p_[0] == "var":
                var = st.env[p_[1]]
                st.invalidate(var.lean)
                st.env[p_[1]] = Var(var.ty, var.lean, None, True)
            else:
                self.write_place(p_[1], p_[2], st, pre)
        return rv

    def resolve_owner(self, seg):
        return self.spec.owner if seg == "Self" else seg

    def call(self, e, st, pre, want, hint=None):
        f = e[1]
        args = e[2]
        if f[0] == "qpath":
            raise TranslateError("qualified-path call outside `<&[u8; N]>::try_from(x).unwrap()`")
        if f[0] != "path":
            raise TranslateError("call of a non-path")
        path = f[1]
        segs = path.split("::")
        if path == "Some" and len(args) == 1:
            self.depth += 1
            try:
                v = self.ex(args[0], st, pre, want.inner if want is not None and want.kind == "option" else None)
            finally:
                self.depth -= 1
            return Val(f"some {v.p()}", TOption(v.ty), False)
        if segs[-1] == "min" and len(args) == 2 and (len(segs) == 1 or segs[-2] == "cmp"):
            self.depth += 1
            try:
                a = self.ex(args[0], st, pre, TInt("usize")); b = self.ex(args[1], st, pre, a.ty)
            finally:
                self.depth -= 1
            (al, ah), (bl, bh) = a.rng(), b.rng()
            return Val(f"min {a.p()} {b.p()}", a.ty, False, (min(al, bl), min(ah, bh)))
        if len(segs) == 2 and segs[0] == "CtEqual" and len(args) == 2:
            return self.method(("method", args[0], segs[1], [args[1]], None), st, pre, want, hint)
        # `Fe([a, b, c, d, e])` / `Scalar(x)`
        if len(segs) == 1 and len(args) == 1 and self.resolve_owner(path) in self.prog.structs \
                and self.prog.structs[self.resolve_owner(path)].newtype is not None and self.prog.structs[self.resolve_owner(path)].lean is not None:
            sty = self.struct_ty(self.resolve_owner(path))
            a0 = strip(args[0])
            if a0[0] == "array":
                if len(a0[1]) != len(sty.limbs):
                    raise TranslateError("limb constructor arity")
                self.depth += 1
                try:
                    vals = [self.ex(x, st, pre, sty.elem) for x in a0[1]]
                finally:
                    self.depth -= 1
                for v in vals:
                    if not v.ty.same(sty.elem):
                        raise TranslateError("limb constructor: element type")
                return Val("⟨" + ", ".join(v.t for v in vals) + "⟩", sty, True)
            v = self.ex(args[0], st, pre, sty, hint)
            if not v.ty.same(sty):
                raise TranslateError("limb constructor of a value that is not the limb array")
            return v
        # newtype constructors `PublicKey(x)`
        if len(segs) == 1 and path in self.prog.structs and self.prog.structs[path].newtype is not None \
                and self.prog.structs[path].lean is None and len(args) == 1:
            inner = self.struct_ty(path)
            v = self.ex(args[0], st, pre, inner, hint)
            self.check_arg(v, inner, f"{path}(…)", pre)
            return v
        owner = None
        if len(segs) >= 2 and (segs[-2][:1].isupper()):
            owner = self.resolve_owner(segs[-2])
        ext = getattr(self.spec, "local_ext", {}).get((owner, segs[-1])) or self.prog.ext.get((owner, segs[-1]))
        if ext is None:
            raise TranslateError(f"unknown function {path}")
        v = self.call_ext(ext, None, args, st, pre, hint)
        if v is None and want is not None:
            raise TranslateError("unit call used as a value")
        return v

    def method(self, e, st, pre, want, hint=None):
        recv, name, args = e[1], e[2], e[3]
        generics = e[4] if len(e) > 4 else None
        # `<&[u8; N]>::try_from(x).unwrap()`
        if name == "unwrap" and not args and recv[0] == "call" and recv[1][0] == "qpath" and recv[1][2] == "try_from" and len(recv[2]) == 1:
            target = self.conv(recv[1][1])
            v = self.ex(recv[2][0], st, pre, None, hint)
            if target.kind != "bytes" or target.n is None or v.ty.kind != "bytes":
                raise TranslateError("unsupported try_from")
            if v.ty.n is None:
                pre.append(lambda body, c=f"{v.p()}.length = {target.n}": If(c, body, Fail()))
            elif v.ty.n != target.n:
                raise TranslateError("try_from(..).unwrap() of an array of another length (the code would always panic)")
            return Val(v.t, target, v.at)
        if name == "clone" and not args:
            return self.ex(recv, st, pre, want, hint)
        self.depth += 1
        try:
            rpre = []
            rv = self.ex(recv, st, rpre)
        finally:
            self.depth -= 1
        kind = rv.ty.kind
        if name == "len" and not args and kind in ("bytes", "list"):
            pre.extend(rpre)
            if rv.ty.n is not None:
                return Val(str(rv.ty.n), TInt("usize"), True, (rv.ty.n, rv.ty.n), lit=rv.ty.n)
            return Val(f"{rv.p()}.length", TInt("usize"), True)
        if name == "into" and not args and kind == "choice":
            pre.extend(rpre)
            return Val(f"{rv.p()}.isTrue", TBool, True)
        if name == "map" and len(args) == 1 and kind == "option" and args[0][0] == "path":
            pre.extend(rpre)
            segs = args[0][1].split("::")
            owner = self.resolve_owner(segs[-2]) if len(segs) >= 2 else None
            ext = self.prog.ext.get((owner, segs[-1]))
            if ext is None or len(ext.params) != 1 or ext.outs:
                raise TranslateError("Option::map with an unknown function")
            x = self.tmp()
            sub = []
            r = self.apply_ext(ext, None, [Val(x, rv.ty.inner, True)], [None], st, sub)
            t = hint or self.tmp()
            inner = self.wrap(sub, Ret(f"some {r.p()}"))
            pre.append(lambda body: BindBlock(t, MatchOpt(rv.t, Ret("none"), x, inner), body))
            return Val(t, TOption(r.ty), True)
        if name == "neg" and not args:
            op = self.prog.ops.get(("neg", rv.ty.key(), None))
            if op is not None:
                pre.extend(rpre)
                return self.apply_ext(op, None, [rv], [None], st, pre, hint)
        ext = self.prog.ext.get((rv.ty.key(), name))
        if ext is None:
            raise TranslateError(f"unknown method {name} on {rv.ty}")
        pre.extend(rpre)
        return self.call_ext(ext, recv, args, st, pre, hint, generics, recv_val=rv)

    # ------------------------------------------------------------------------------------------- statements
    def declare(self, name, ty, st, iv=None, init=True):
        """a new Rust variable; its Lean name avoids capturing a variable the enclosing loop's recursion still needs"""
        lean = lean_id(name)
        taken = {v.lean for n, v in st.env.items() if n != name}
        needed = set().union(*self.loop_stack) if self.loop_stack else set()
        if lean in taken or (name in st.env and name in needed):
            k = 1
            while f"{lean}_{k}" in taken or f"{lean}_{k}" in self.idents:
                k += 1
            lean = f"{lean}_{k}"
        st.invalidate(lean)
        st.env[name] = Var(ty, lean, iv, init)
        st.decls.append(name)
        return lean

    def seq(self, stmts, i, st, ctx, k, kv):
        if i >= len(stmts):
            return k(st)
        s = stmts[i]
        kind = s[0]
        rest = lambda st2: self.seq(stmts, i + 1, st2, ctx, k, kv)
        if kind == "let":
            return self.do_let(s, stmts, i, st, ctx, rest, k, kv)
        if kind == "assign":
            return self.do_assign(s, st, rest)
        if kind == "return":
            return self.do_return(s[1], st, ctx)
        if kind == "break":
            if ctx.brk is None:
                raise TranslateError("`break` outside a loop")
            return ctx.brk(st)
        if kind == "for":
            return self.do_for(s, st, ctx, rest)
        if kind == "loop":
            return self.do_loop(s, stmts, i, st, ctx, k, kv)
        if kind in ("expr", "ret"):
            e = s[1]
            last = i == len(stmts) - 1
            if e[0] == "return_expr":
                return self.do_return(e[1], st, ctx)
            if e[0] == "if":
                if kind == "ret" and last and self.is_value_block(e):
                    pre = []
                    v = self.ex(e, st, pre, None)
                    return self.wrap(pre, kv(st, v))
                return self.do_branch(self.if_arms(e, st), stmts, i, st, ctx, k, kv, value_pos=(kind == "ret" and last))
            if e[0] == "match":
                return self.do_branch(self.match_arms(e, st), stmts, i, st, ctx, k, kv, value_pos=(kind == "ret" and last))
            if e[0] == "blockexpr":
                return self.do_block(e[1], st, ctx, rest if not (kind == "ret" and last) else k, kv if last else self.no_value)
            if e[0] == "macro":
                return self.do_macro(e, st, rest)
            pre = []
            if kind == "ret" and last:
                v = self.ex(e, st, pre, self.ret_ty, None) if e[0] not in ("call", "method") else \
                    (self.call(e, st, pre, None) if e[0] == "call" else self.method_stmt(e, st, pre))
                if v is None:
                    return self.wrap(pre, k(st))
                return self.wrap(pre, kv(st, v))
            if e[0] == "call":
                self.call(e, st, pre, None)
            elif e[0] == "method":
                r = self.method_stmt(e, st, pre)
            else:
                raise TranslateError(f"unsupported expression statement {e[0]}")
            return self.wrap(pre, rest(st))
        raise TranslateError(f"unsupported statement {kind}")

    def method_stmt(self, e, st, pre):
        """expression statement `x.m(..);` — incl. `dst[a..b].copy_from_slice(src)`"""
        recv, name, args = e[1], e[2], e[3]
        if name == "copy_from_slice" and len(args) == 1:
            pl = self.place(recv, st)
            if pl is None:
                raise TranslateError("copy_from_slice into a non-place")
            if not pl.path or pl.path[-1][0] != "slice":
                pl = Place(pl.root, pl.path + [("slice", None, None)])
            parent = self.read_place(pl, st, pre, upto=len(pl.path) - 1)
            lo, hi, _, n = self.slice_parts(parent, pl.path[-1])
            self.depth += 1
            try:
                src = self.ex(args[0], st, pre, TBytes(n) if parent.ty.kind == "bytes" else None)
            finally:
                self.depth -= 1
            if not src.ty.same(TBytes(n) if parent.ty.kind == "bytes" else parent.ty):
                raise TranslateError("copy_from_slice from a value of another type")
            if src.ty.n is None:
                pre.append(lambda body, c=f"{src.p()}.length = {n}": If(c, body, Fail()))
            elif src.ty.n != n:
                raise TranslateError("copy_from_slice between different static lengths (the code would always panic)")
            if not src.at:
                t = self.tmp()
                pre.append(lambda body, s=src.t: Let(t, s, body))
                src = Val(t, src.ty, True)
            self.write_place(pl, src.t, st, pre)
            return None
        return self.method(e, st, pre, None)

    def no_value(self, st, v):
        raise TranslateError("value expression in statement position")

    def do_return(self, e, st, ctx):
        pre = []
        v = self.ex(e, st, pre, self.ret_ty) if e is not None else None
        return self.wrap(pre, ctx.ret(st, v))

    def do_block(self, blk, st, ctx, k, kv):
        """a nested `{ … }`: its `let`s end with it"""
        outer = dict(st.env)
        outer_decls = list(st.decls)
        st.decls = []

        def leave(st2):
            for n in st2.decls:
                if n in outer:
                    var = outer[n]
                    if st2.env[n].lean == var.lean:
                        # alive again in Rust, but its Lean name stays captured by the inner `let`
                        st2.env[n] = Var(var.ty, var.lean, var.iv, var.init, dead="shadowed by a `let` of a nested block")
                    else:
                        st2.env[n] = var
                elif n in st2.env:
                    del st2.env[n]
            st2.decls = list(outer_decls)
            return st2
        return self.seq(blk, 0, st, ctx, lambda st2: k(leave(st2)), lambda st2, v: kv(leave(st2), v))

    def do_macro(self, e, st, rest):
        name, args = e[1], e[2]
        if name in ("assert", "debug_assert") and len(args) >= 1:
            pa = PC(list(args[0])); c_ast = pa.expr()
            if pa.peek()[0] != "eof":
                raise TranslateError(f"{name}!: condition not understood")
            pre = []
            c = self.cond(c_ast, st, pre)
            if name == "debug_assert":
                # NOT the same text as `assert!` (audit 3, F3): the marker `Glue.debugAssert` (lean/CxVerif/Util/GlueDebug.lean) is a
                # wrapper that is not definitionally its argument; assert! <-> debug_assert! in the source breaks the tie
                return self.wrap(pre, If(f"Glue.debugAssert ({c.t})", rest(st), Fail()))
            return self.wrap(pre, If(c.t, rest(st), Fail()))
        raise TranslateError(f"unsupported macro {name}!")

    def is_value_block(self, e):
        a, b = e[2], e[3]
        return b is not None and len(a) == 1 and len(b) == 1 and a[0][0] == "ret" and b[0][0] == "ret" \
            and a[0][1][0] in ("lit", "path", "bin", "paren", "neg") and b[0][1][0] in ("lit", "path", "bin", "paren", "neg")

    def do_let(self, s, stmts, i, st, ctx, rest, k, kv):
        pat, ty, init = s[1], s[2], s[3]
        want = self.conv(ty) if ty is not None else None
        if pat[0] == "var" and pat[1] in self.spec_hints:
            hty = self.conv_text(self.spec_hints[pat[1]])
            if want is not None and not want.same(hty):
                raise TranslateError(f"hint for {pat[1]} contradicts its annotation")
            want = hty
        if init is None:
            if pat[0] != "var" or want is None:
                raise TranslateError("`let` without initialiser needs a type")
            self.declare(pat[1], want, st, init=False)
            return rest(st)
        if init[0] in ("match", "if") and not (init[0] == "if" and self.is_value_block(init)):
            arms = self.match_arms(init, st) if init[0] == "match" else self.if_arms(init, st)
            return self.do_branch(arms, stmts, i, st, ctx, k, kv, let=(pat, want))
        pre = []
        if pat[0] == "tuple":
            v = self.ex(init, st, pre, want)
            if v.ty.kind == "list" and v.ty.n == len(pat[1]) and all(p_[0] == "var" for p_ in pat[1]):
                # `let [a, b, c, d] = e;` (irrefutable in Rust: the type has exactly that length)
                names = [self.declare(p_[1], v.ty.elem, st) for p_ in pat[1]]
                pre.append(lambda body: MatchList(v.t, names, body))
                return self.wrap(pre, rest(st))
            if v.ty.kind != "tuple" or len(v.ty.items) != len(pat[1]):
                raise TranslateError("tuple pattern arity")
            names = []
            for p_, t_ in zip(pat[1], v.ty.items):
                if p_[0] != "var":
                    raise TranslateError("nested pattern")
                names.append(self.declare(p_[1], t_, st))
            pre.append(lambda body: Let("(" + ", ".join(names) + ")", v.t, body))
            return self.wrap(pre, rest(st))
        if pat[0] != "var":
            raise TranslateError("unsupported pattern")
        name = pat[1]
        lean_guess = lean_id(name)
        v = self.ex(init, st, pre, want, hint=None)
        if want is not None:
            self.check_arg(v, want, f"let {name}", pre)
        vty = v.ty if not (want is not None and want.kind in ("bytes", "list")) else want
        # a fallible call bound to a temporary as its LAST step: bind the variable directly
        lean = self.declare(name, vty, st, iv=v.iv)
        if pre and v.at and re.fullmatch(r"tmp\d+", v.t):
            last = pre[-1](Ret("?"))
            if isinstance(last, Bind) and last.pat == v.t and isinstance(last.body, Ret):
                pre[-1] = lambda body, text=last.text: Bind(lean, text, body)
                st.memo = {k_: (Val(lean, m.ty, m.at, m.iv) if m.t == v.t else m) for k_, m in st.memo.items()}
                return self.wrap(pre, rest(st))
        if v.at and v.t == lean:
            return self.wrap(pre, rest(st))
        lhs = lean
        if v.t.startswith("⟨") or v.t.startswith("["):
            lhs += f" : {vty.lean}"
        return self.wrap(pre, Let(lhs, v.t, rest(st)))

    def do_assign(self, s, st, rest):
        lhs, op, rhs = s[1], s[2], s[3]
        pl = self.place(lhs, st)
        if pl is None:
            raise TranslateError("assignment to a non-place")
        pre = []
        root = st.env[pl.root]
        if not pl.path:
            # plain variable (possibly declared without initialiser)
            if op != "=":
                rhs = ("bin", op[:-1], lhs, rhs)
            v = self.ex(rhs, st, pre, root.ty)
            self.check_arg(v, root.ty, f"assignment to {pl.root}", pre)
            if pre and v.at and re.fullmatch(r"tmp\d+", v.t):
                last = pre[-1](Ret("?"))
                if isinstance(last, Bind) and last.pat == v.t and isinstance(last.body, Ret):
                    pre.pop()
                    self.assign_var(pl.root, last.text, st, pre, iv=v.iv, bind=True)
                    return self.wrap(pre, rest(st))
            if not (v.at and v.t == root.lean):
                self.assign_var(pl.root, v.t, st, pre, iv=v.iv)
            return self.wrap(pre, rest(st))
        # element / field / limb
        last = pl.path[-1]
        tyl = self.place_type(pl, st)
        if last[0] == "elem":
            parent = self.read_place(pl, st, [], upto=len(pl.path) - 1)
            if parent.ty.kind in ("bytes", "list"):
                k = self.lit_index(last[1])
                static = k is not None and parent.ty.n is not None and k < parent.ty.n
                if op != "=":
                    # Rust: the right-hand side first, then the element
                    rv = self.ex(rhs, st, pre, tyl)
                    if not rv.at:
                        t = self.tmp()
                        pre.append(lambda body, t=t, s_=rv.t: Let(t, s_, body))
                        rv = Val(t, rv.ty, True, rv.iv)
                    if static:
                        x = self.tmp()
                        st3 = st.with_var("$cur", Var(tyl, x)).with_var("$rhs", Var(rv.ty, rv.t, rv.iv))
                        sub = []
                        saved = self.ntmp
                        v = self.ex(("bin", op[:-1], ("path", "$cur"), ("path", "$rhs")), st3, sub, tyl)
                        if not sub:
                            self.write_place(pl, f"(fun {x} => {v.t})", st, pre, mode="modify", fn=str(k))
                            return self.wrap(pre, rest(st))
                        self.ntmp = saved              # a CHECKED operation: read the element, compute, store
                    cur = self.read_place(pl, st, pre)
                    st3 = st.with_var("$cur", Var(tyl, cur.t, cur.iv)).with_var("$rhs", Var(rv.ty, rv.t, rv.iv))
                    v = self.ex(("bin", op[:-1], ("path", "$cur"), ("path", "$rhs")), st3, pre, tyl)
                    ix = self.ex(last[1], st, [], TInt("usize"))
                    self.write_place(pl, v.t, st, pre, mode="set", fn=ix.p())
                    return self.wrap(pre, rest(st))
                v = self.ex(rhs, st, pre, tyl)
                self.check_arg(v, tyl, "element assignment", pre)
                if static:
                    self.write_place(pl, v.t, st, pre, mode="set", fn=str(k))
                else:
                    ix = self.ex(last[1], st, pre, TInt("usize"))
                    length = str(parent.ty.n) if parent.ty.n is not None else f"{parent.p()}.length"
                    if not (parent.ty.n is not None and ix.rng()[1] < parent.ty.n):
                        pre.append(lambda body, c=f"{ix.p()} < {parent.p()}.length": If(c, body, Fail()))
                    self.write_place(pl, v.t, st, pre, mode="set", fn=ix.p())
                return self.wrap(pre, rest(st))
        if last[0] == "slice":
            raise TranslateError("assignment to a slice")
        if op != "=":
            rhs = ("bin", op[:-1], lhs, rhs)
        v = self.ex(rhs, st, pre, tyl)
        self.check_arg(v, tyl, "assignment", pre)
        self.write_place(pl, v.t, st, pre)
        return self.wrap(pre, rest(st))

    def place_type(self, pl, st):
        return self.probe_place(pl, st).ty

    def probe_place(self, pl, st):
        saved = self.ntmp
        try:
            return self.read_place(pl, st.copy(), [])
        finally:
            self.ntmp = saved

    # ------------------------------------------------------------------------------------------- branching
    def scratch(self, fn):
        """run a translation step for analysis only (no lasting effect on counters / aux defs)"""
        saved = (self.ntmp, self.njoin, self.nloop, self.nfuel, self.depth, len(self.aux), list(self.loop_stack))
        try:
            return fn()
        finally:
            self.ntmp, self.njoin, self.nloop, self.nfuel, self.depth, n, self.loop_stack = saved
            del self.aux[n:]

    def assigned_in(self, blk, st, extra_decl=None):
        """outer variables a block assigns (found by translating it once for analysis)"""
        exits = []

        def rec(st2, *a):
            exits.append(st2)
            return Ret("?")
        base = st.copy()
        if extra_decl:
            extra_decl(base)
        entry = dict(base.env)
        ctx = Ctx(lambda st2, v: rec(st2), lambda st2: rec(st2))
        self.scratch(lambda: self.do_block(blk, base, ctx, rec, rec))
        out = []
        for n, var in st.env.items():
            for x in exits:
                cur = x.env.get(n)
                if cur is not None and cur is not entry.get(n) and not cur.dead:
                    out.append(n); break
        return out

    def refine_cond(self, c_ast, st, truth):
        """refine the intervals of the state by a comparison with a literal that is known to be `truth`"""
        c = strip(c_ast)
        if c[0] != "bin" or c[1] not in self.CMP:
            return
        a, b, op = strip(c[2]), strip(c[3]), c[1]
        if a[0] == "lit" and b[0] != "lit":
            a, b = b, a
            op = {"<": ">", ">": "<", "<=": ">=", ">=": "<="}.get(op, op)
        if b[0] == "neg" and b[1][0] == "lit":
            n = -b[1][1]
        elif b[0] == "lit":
            n = b[1]
        else:
            return
        try:
            v = self.probe(a, st)
        except TranslateError:
            return
        if v.ty.kind != "int" or not v.at:
            return
        if not truth:
            op = {"==": "!=", "!=": "==", "<": ">=", ">=": "<", ">": "<=", "<=": ">"}[op]
        lo, hi = v.rng()
        if op == "==":
            st.refine(v.t, n, n)
        elif op == "!=":
            if lo == n:
                st.refine(v.t, n + 1, None)
            elif hi == n:
                st.refine(v.t, None, n - 1)
        elif op == "<":
            st.refine(v.t, None, n - 1)
        elif op == "<=":
            st.refine(v.t, None, n)
        elif op == ">":
            st.refine(v.t, n + 1, None)
        elif op == ">=":
            st.refine(v.t, n, None)

    def branch_on(self, c_ast, st, then_fn, else_fn):
        c = strip(c_ast)
        if c[0] == "bin" and c[1] in ("||", "&&"):
            sub = []
            self.scratch(lambda: self.ex(c[3], st.copy(), sub))
            if sub:                            # the right operand can fail: Rust's short circuit, written out
                if c[1] == "||":
                    return self.branch_on(c[2], st, then_fn, lambda st2: self.branch_on(c[3], st2, then_fn, else_fn))
                return self.branch_on(c[2], st, lambda st2: self.branch_on(c[3], st2, then_fn, else_fn), else_fn)
        pre = []
        v = self.cond(c_ast, st, pre)
        sa, sb = st.copy(), st.copy()
        self.refine_cond(c_ast, sa, True)
        self.refine_cond(c_ast, sb, False)
        return self.wrap(pre, If(v.t, then_fn(sa), else_fn(sb)))

    def if_arms(self, e, st):
        arms = []
        while True:
            c_ast, a, b = e[1], e[2], e[3]
            arms.append((lambda st2, t, f, c_ast=c_ast: self.branch_on(c_ast, st2, t, f), a))
            if b is not None and len(b) == 1 and b[0][0] in ("ret", "expr") and b[0][1][0] == "if":
                e = b[0][1]
                continue
            arms.append((None, b if b is not None else []))
            return [], arms

    def match_arms(self, e, st):
        scrut, arms = e[1], e[2]
        pats = []
        for pat, body in arms:
            if pat is None:
                pats.append(("_", None, body))
            elif pat[0] == "path":
                pats.append((pat[1].split("::")[-1], None, body))
            elif pat[0] == "call" and pat[1][0] == "path" and len(pat[2]) == 1 and pat[2][0][0] == "path":
                pats.append((pat[1][1].split("::")[-1], pat[2][0][1], body))
            else:
                raise TranslateError("unsupported match pattern")
        names = [p_[0] for p_ in pats]
        pre = []
        s = strip(scrut)
        if sorted(names) == ["None", "Some"]:
            v = self.ex(scrut, st, pre)
            if v.ty.kind != "option":
                raise TranslateError("`Some/None` match on a non-Option")
            if not v.at:
                t = self.tmp()
                pre.append(lambda body, s_=v.t: Let(t, s_, body))
                v = Val(t, v.ty, True)
            some = [p_ for p_ in pats if p_[0] == "Some"][0]
            none = [p_ for p_ in pats if p_[0] == "None"][0]
            if some[1] is None:
                raise TranslateError("`Some` pattern without a binder")

            def split(st2, t, f, v=v, x=some[1]):
                sa = st2.copy()
                lean = self.declare(x, v.ty.inner, sa)
                return MatchOpt(v.t, f(st2.copy()), lean, t(sa))
            return pre, [(split, some[2]), (None, none[2])]
        if s[0] == "method" and s[2] == "cmp" and len(s[3]) == 1 and sorted(names) == ["Equal", "Greater", "Less"]:
            a = self.ex(s[1], st, pre)
            b = self.ex(s[3][0], st, pre, a.ty)
            if a.ty.kind != "int" or not a.ty.same(b.ty):
                raise TranslateError("`cmp` on unsupported operands")
            body = {p_[0]: p_[2] for p_ in pats}

            def mk(sym, lo_hi):
                def split(st2, t, f):
                    sa, sb = st2.copy(), st2.copy()
                    if b.lit is not None and a.at:
                        sa.refine(a.t, *lo_hi(b.lit))
                    return If(f"{a.p()} {sym} {b.p()}", t(sa), f(sb))
                return split
            return pre, [(mk(">", lambda n: (n + 1, None)), body["Greater"]), (mk("<", lambda n: (None, n - 1)), body["Less"]),
                         (None, body["Equal"])]
        raise TranslateError("unsupported `match`")

    def do_branch(self, desc, stmts, i, st, ctx, k, kv, let=None, value_pos=False):
        pre, arms = desc
        more = i + 1 < len(stmts)
        blocks = [b for _, b in arms]
        esc = any(escapes(b) for b in blocks)
        if let is not None:
            pat, want = let
            if pat[0] != "var":
                raise TranslateError("pattern of a branching `let`")

        def rest_from(st2):
            return self.seq(stmts, i + 1, st2, ctx, k, kv)

        def chain(j, st2, arm_node):
            sp, blk = arms[j]
            if sp is None:
                return arm_node(blk, st2)
            return sp(st2, lambda s3: arm_node(blk, s3), lambda s3: chain(j + 1, s3, arm_node))

        if value_pos and not esc and let is None and self.ret_ty is not None and self.ret_ty.kind != "unit" and not self.loop_stack:
            # the trailing VALUE of the function: every arm ends in its own result
            def arm_node(blk, s3):
                return self.do_block(blk, s3, ctx, k, kv)
            return self.wrap(pre, chain(0, st.copy(), arm_node))
        if not esc:
            # ONE monadic value: the tuple of the outer variables the arms assign (+ the value of a branching `let`)
            found = set()

            def probe_arm(blk, s3):
                entry = dict(s3.env)

                def rec(s4, *a):
                    for n in st.env:
                        cur = s4.env.get(n)
                        if cur is not None and cur is not entry.get(n) and not cur.dead:
                            found.add(n)
                    return Ret("?")
                return self.do_block(blk, s3, Ctx(lambda s4, v: rec(s4), lambda s4: rec(s4)), rec, rec)
            self.scratch(lambda: chain(0, st.copy(), probe_arm))
            names = [n for n in st.env if n in found]
            uninit = [n for n in names if not st.env[n].init]
            if uninit:
                raise TranslateError(f"variable {uninit[0]} initialised in a branch")
            if not names and let is None:
                raise TranslateError("branch without effect")
            vty = {}

            def arm_node(blk, s3):
                def fin(s4, v=None):
                    outs = [s4.env[n].lean for n in names]
                    if let is not None:
                        if v is None:
                            raise TranslateError("branch of a `let` without a value")
                        if want is not None:
                            self.check_arg(v, want, "let", [])
                        vty.setdefault("ty", v.ty)
                        if not v.ty.same(vty["ty"]):
                            raise TranslateError("branches of a `let` of different types")
                        outs.append(v.t)
                    elif v is not None:
                        raise TranslateError("value expression in statement position")
                    return Ret(outs[0] if len(outs) == 1 else "(" + ", ".join(outs) + ")")
                return self.do_block(blk, s3, ctx, fin, fin)
            node = chain(0, st.copy(), arm_node)
            pats = [st.env[n].lean for n in names]
            for n in names:
                var = st.env[n]
                st.invalidate(var.lean)
                st.env[n] = Var(var.ty, var.lean, None, True)
            if let is not None:
                ty = want if want is not None else vty["ty"]
                pats.append(self.declare(pat[1], ty, st))
            p_ = pats[0] if len(pats) == 1 else "(" + ", ".join(pats) + ")"
            return self.wrap(pre, BindBlock(p_, node, rest_from(st)))
        falling = [b for b in blocks if not ends_diverging(b)]
        if let is not None:
            if len(falling) > 1:
                raise TranslateError("branching `let` with an escaping arm and more than one continuing arm")

            def arm_node(blk, s3):
                def fin_v(s4, v):
                    if want is not None:
                        self.check_arg(v, want, "let", [])
                    lean = self.declare(pat[1], want if want is not None else v.ty, s4, iv=v.iv)
                    if v.at and v.t == lean:
                        return rest_from(s4)
                    return Let(lean, v.t, rest_from(s4))

                def fin(s4):
                    raise TranslateError("branch of a `let` without a value")
                return self.seq_let_arm(blk, s3, ctx, fin, fin_v, pat[1], want, rest_from)
            return self.wrap(pre, chain(0, st.copy(), arm_node))
        if not more or len(falling) <= 1:
            def arm_node(blk, s3):
                return self.do_block(blk, s3, ctx, rest_from if more else k, self.no_value if more else kv)
            return self.wrap(pre, chain(0, st.copy(), arm_node))
        if self.loop_stack:
            raise TranslateError("`if` with an escaping branch and a continuation inside a loop body")
        call = self.make_join(stmts, i + 1, st, ctx, k, kv)

        def arm_node(blk, s3):
            return self.do_block(blk, s3, ctx, call, self.no_value)
        return self.wrap(pre, chain(0, st.copy(), arm_node))

    def seq_let_arm(self, blk, st, ctx, fin, fin_v, name, want, rest_from):
        """an arm of a branching `let` with escaping arms: a fallible call as the arm's value is bound to the variable directly"""
        if len(blk) == 1 and blk[0][0] == "ret" and blk[0][1][0] in ("call", "method"):
            pre = []
            v = self.ex(blk[0][1], st, pre, want)
            if pre and v.at and re.fullmatch(r"tmp\d+", v.t):
                last = pre[-1](Ret("?"))
                if isinstance(last, Bind) and last.pat == v.t and isinstance(last.body, Ret):
                    lean = self.declare(name, want if want is not None else v.ty, st, iv=v.iv)
                    pre[-1] = lambda body, text=last.text: Bind(lean, text, body)
                    return self.wrap(pre, rest_from(st))
            return self.wrap(pre, fin_v(st, v))
        return self.do_block(blk, st, ctx, fin, fin_v)

    def live_names(self, stmts, i, st):
        used = names_in(stmts[i:], set())
        return [n for n, v in st.env.items() if n in used and v.init and not v.dead and not n.startswith("$")]

    def params_text(self, names, st):
        return " ".join(f"({st.env[n].lean} : {st.env[n].ty.lean})" for n in names)

    def make_join(self, stmts, i, st, ctx, k, kv):
        """a join point def for stmts[i:] over the live variables; returns State -> Node (the call)"""
        live = self.live_names(stmts, i, st)
        self.njoin += 1
        jname = f"{self.base}_k{self.njoin}_src"
        jst = State({n: Var(st.env[n].ty, st.env[n].lean, st.env[n].iv if False else None, True) for n in live})
        ptext = self.params_text(live, jst)
        body = self.seq(stmts, i, jst, ctx, k, kv)
        self.aux.append(("join", jname, ptext, body))
        return lambda st2: AuxTail((jname + " " + " ".join(st2.env[n].lean for n in live)).rstrip())

    # ------------------------------------------------------------------------------------------- loops
    def loop_sets(self, body, st, exclude=(), extra_decl=None):
        """(carried, captured) rust names of a loop body"""
        assigned = self.assigned_in(body, st, extra_decl)
        carried = [n for n in st.env if n in assigned and st.env[n].init and n not in exclude]
        late = [n for n in assigned if not st.env[n].init]
        used = names_in(body, set())
        captured = [n for n, v in st.env.items() if n in used and n not in carried and n not in exclude and v.init and not v.dead
                    and not n.startswith("$")]
        return carried, captured, late

    def tuple_text(self, names, st):
        ts = [st.env[n].lean for n in names]
        return ts[0] if len(ts) == 1 else "(" + ", ".join(ts) + ")"

    def tuple_ty(self, names, st):
        ts = [st.env[n].ty.lean for n in names]
        return ts[0] if len(ts) == 1 else "(" + " × ".join(ts) + ")"

    def after_loop(self, st, carried, late):
        for n in carried:
            var = st.env[n]
            st.invalidate(var.lean)
            st.env[n] = Var(var.ty, var.lean, None, True)
        for n in late:
            var = st.env[n]
            st.env[n] = Var(var.ty, var.lean, None, False)

    def do_for(self, s, st, ctx, rest):
        pat, it, body = s[1], s[2], s[3]
        if pat[0] != "var":
            raise TranslateError("for pattern")
        var = pat[1]
        if escapes(body, in_loop=True):
            raise TranslateError("`return` inside a `for` body")
        it0 = strip(it)
        rev = False
        if it0[0] == "method" and it0[2] == "rev" and not it0[3]:
            rev = True
            it0 = strip(it0[1])
        if it0[0] == "range":
            return self.do_for_range(var, it0, rev, body, st, ctx, rest)
        if rev:
            raise TranslateError("`.rev()` of a non-range iterator")
        if it0[0] == "method" and it0[2] in ("iter", "iter_mut") and not it0[3]:
            pl = self.place(it0[1], st)
            if pl is not None:
                tv = self.probe_place(pl, st)
                if tv.ty.kind == "struct" and tv.ty.limbs is not None:
                    return self.do_for_limbs(var, pl, tv.ty, it0[2] == "iter_mut", body, st, ctx, rest)
            return self.do_for_list(var, it0[1], it0[2] == "iter_mut", body, st, ctx, rest)
        raise TranslateError("unsupported `for` iterator")

    def do_for_range(self, var, it, rev, body, st, ctx, rest):
        if len(it) == 4 and it[3] == "..=":
            raise TranslateError("inclusive range")
        if it[1] is None or it[2] is None:
            raise TranslateError("unbounded range")
        pre = []
        lo = self.ex(it[1], st, pre, TInt("usize"))
        hi = self.ex(it[2], st, pre, lo.ty)
        if lo.ty.kind != "int" or lo.ty.rust != "usize" or not hi.ty.same(lo.ty):
            raise TranslateError("range of a non-usize type")
        iv = (lo.rng()[0], max(hi.rng()[1] - 1, lo.rng()[0]))
        decl = lambda s_: self.declare(var, TInt("usize"), s_, iv=iv)
        carried, captured, late = self.loop_sets(body, st, exclude=(var,), extra_decl=decl)
        if not carried:
            raise TranslateError("loop without effect")
        self.nloop += 1
        lname = f"{self.base}_loop{self.nloop}_src"
        bst = State({n: Var(st.env[n].ty, st.env[n].lean, st.env[n].iv if n in captured else None, st.env[n].init) for n in st.env
                     if n in captured or n in carried or n in late})
        ptext = self.params_text(captured, bst)
        cap_args = "".join(bst.env[n].lean + " " for n in captured)
        ivar = self.declare(var, TInt("usize"), bst, iv=iv)
        bst.decls = []
        head_names = [bst.env[n].lean for n in carried]
        cnt = "cnt"
        while cnt in {v.lean for v in bst.env.values()}:
            cnt += "_"
        if rev and lo.lit == 0:
            cnt = ivar                      # `for p in (0..hi).rev()`: the iterations still to do ARE the loop variable

        def again(s2):
            if rev:
                return AuxTail(f"{lname} {cap_args}{cnt} " + " ".join(s2.env[n].lean for n in carried))
            return AuxTail(f"{lname} {cap_args}{cnt} ({ivar} + 1) " + " ".join(s2.env[n].lean for n in carried))
        self.loop_stack.append(set(captured) | set(carried))
        try:
            lctx = Ctx(ctx.ret, lambda s2: Ret(self.tuple_text(carried, s2)))
            bnode = self.do_block(body, bst, lctx, again, self.no_value)
        finally:
            self.loop_stack.pop()
        if rev and not (lo.lit == 0):
            bnode = Let(ivar, f"{lo.p()} + {cnt}", bnode)
        ctys = [st.env[n].ty.lean for n in carried]
        self.aux.append(("for", lname, ptext, dict(cnt=cnt, var=ivar, rev=rev, heads=head_names, ctys=ctys,
                                                    rty=self.tuple_ty(carried, st), ctuple=self.tuple_text(carried, st), body=bnode)))
        if lo.lit is not None and hi.lit is not None:
            if hi.lit < lo.lit:
                raise TranslateError("empty range")
            count = str(hi.lit - lo.lit)
        elif lo.lit == 0:
            count = hi.p()
        else:
            count = f"({hi.p()} - {lo.p()})"
        args = " ".join(st.env[n].lean for n in carried)
        call = f"{lname} {cap_args}{count} {args}" if rev else f"{lname} {cap_args}{count} {lo.p()} {args}"
        ctuple = self.tuple_text(carried, st)
        self.after_loop(st, carried, late)
        return self.wrap(pre, AuxBind(ctuple, call, rest(st)))

    def do_for_limbs(self, var, pl, sty, mutating, body, st, ctx, rest):
        """`for e in x.0.iter_mut() { … }` over the five limbs of a field element / scalar: unrolled"""
        if escapes(body):
            raise TranslateError("`break`/`return` in a loop over limbs")

        def step(k, s2):
            if k == len(sty.limbs):
                return rest(s2)
            cur = self.read_place(pl, s2, [])
            saved = s2.env.get(var)
            lean = self.declare(var, sty.elem, s2)

            def after(s3):
                pre = []
                if mutating:
                    self.write_place(Place(pl.root, pl.path + [("elem", ("lit", k, None))]), s3.env[var].lean, s3, pre)
                if saved is None:
                    del s3.env[var]
                else:
                    s3.env[var] = saved
                return self.wrap(pre, step(k + 1, s3))
            return Let(lean, f"{cur.p()}.{sty.limbs[k]}", self.seq(body, 0, s2, Ctx(ctx.ret, None), after, self.no_value))
        return step(0, st)

    def do_for_list(self, var, target, mutating, body, st, ctx, rest):
        pre = []
        pl = self.place(target, st)
        tv = self.ex(target, st, pre)
        if tv.ty.kind not in ("bytes", "list"):
            raise TranslateError("iteration over a non-array value")
        if mutating and pl is None:
            raise TranslateError("iter_mut on a non-place")
        ety = TInt("u8") if tv.ty.kind == "bytes" else tv.ty.elem
        decl = lambda s_: self.declare(var, ety, s_)
        carried, captured, late = self.loop_sets(body, st, exclude=(var,), extra_decl=decl)
        if pl is not None and pl.root in carried:
            raise TranslateError("the loop body assigns the array it iterates over")
        if not carried and not mutating:
            raise TranslateError("loop without effect")
        self.nloop += 1
        lname = f"{self.base}_loop{self.nloop}_src"
        bst = State({n: Var(st.env[n].ty, st.env[n].lean, st.env[n].iv if n in captured else None, st.env[n].init) for n in st.env
                     if n in captured or n in carried or n in late})
        ptext = self.params_text(captured, bst)
        cap_args = "".join(bst.env[n].lean + " " for n in captured)
        xvar = self.declare(var, ety, bst)
        bst.decls = []
        head_names = [bst.env[n].lean for n in carried]
        taken = {v.lean for v in bst.env.values()} | self.idents
        restn = "rest"
        while restn in taken:
            restn += "_"
        rty_items = ([tv.ty.lean] if mutating else []) + [st.env[n].ty.lean for n in carried]
        rty = rty_items[0] if len(rty_items) == 1 else "(" + " × ".join(rty_items) + ")"

        def again(s2):
            call = f"{lname} {cap_args}{restn} " + " ".join(s2.env[n].lean for n in carried)
            if not mutating:
                return AuxTail(call.rstrip())
            outs = [f"{restn}'"] + [f"{s2.env[n].lean}'" for n in carried]
            pat = outs[0] if len(outs) == 1 else "(" + ", ".join(outs) + ")"
            res = [f"{s2.env[var].lean} :: {restn}'"] + outs[1:]
            return AuxBind(pat, call.rstrip(), Ret(res[0] if len(res) == 1 else "(" + ", ".join(res) + ")"))

        def brk(s2):
            if mutating:
                res = [f"{s2.env[var].lean} :: {restn}"] + [s2.env[n].lean for n in carried]
                return Ret(res[0] if len(res) == 1 else "(" + ", ".join(res) + ")")
            return Ret(self.tuple_text(carried, s2))
        self.loop_stack.append(set(captured) | set(carried) | ({var} if mutating else set()))
        try:
            bnode = self.do_block(body, bst, Ctx(ctx.ret, brk), again, self.no_value)
        finally:
            self.loop_stack.pop()
        ctys = [st.env[n].ty.lean for n in carried]
        nil = (["[]"] if mutating else []) + head_names
        self.aux.append(("list", lname, ptext, dict(x=xvar, rest=restn, heads=head_names, ctys=ctys, lty=tv.ty.lean, rty=rty,
                                                     nil=nil[0] if len(nil) == 1 else "(" + ", ".join(nil) + ")", body=bnode)))
        args = " ".join(st.env[n].lean for n in carried)
        call = f"{lname} {cap_args}{tv.p()} {args}".rstrip()
        if mutating:
            t = self.tmp()
            pats = [t] + [st.env[n].lean for n in carried]
            self.after_loop(st, carried, late)
            post = []
            if pl.path and pl.path[-1][0] == "field" and pl.path[-1][1] == "0":
                raise TranslateError("iter_mut over limbs is handled by the kernel translators")
            self.write_place(pl, t, st, post)
            return self.wrap(pre, AuxBind(pats[0] if len(pats) == 1 else "(" + ", ".join(pats) + ")", call, self.wrap(post, rest(st))))
        ctuple = self.tuple_text(carried, st)
        self.after_loop(st, carried, late)
        return self.wrap(pre, AuxBind(ctuple, call, rest(st)))

    def do_loop(self, s, stmts, i, st, ctx, k, kv):
        body = s[1]
        if self.loop_stack:
            raise TranslateError("`loop` nested in another loop")
        if self.nfuel >= len(self.spec.fuel):
            raise TranslateError("`loop` without a fuel annotation in the kernel spec")
        fuel_src = self.spec.fuel[self.nfuel]
        self.nfuel += 1
        carried, captured, late = self.loop_sets(body, st)
        if late:
            raise TranslateError("variable initialised inside a `loop`")
        has_break = escapes(body, brk_only=True)
        more = i + 1 < len(stmts)
        if more and not has_break:
            raise TranslateError("statements after a `loop` without `break` (dead code)")
        # the fuel expression is Rust syntax over the variables at the loop head
        fpre = []
        self.spec_math = True                  # the fuel is a mathematical (spec-level) expression, not Rust arithmetic
        try:
            fv = self.ex(PC(lex(fuel_src)).expr(), st, fpre, TInt("usize"))
        finally:
            self.spec_math = False
        if fpre:
            raise TranslateError("fuel expression with a check")
        after = st.copy()
        self.after_loop(after, carried, [])
        brk = None
        if has_break:
            if more:
                brk = self.make_join(stmts, i + 1, after, ctx, k, kv)
                rest_names = names_in(stmts[i + 1:], set())
            else:
                brk = k
                rest_names = set()
        self.nloop += 1
        lname = f"{self.base}_loop{self.nloop}_src"
        # variables the continuation needs but the body does not mention are captured as well
        need = [n for n in st.env if st.env[n].init and not st.env[n].dead and not n.startswith("$")
                and (n in captured or (has_break and more and n in rest_names and n not in carried))]
        bst = State({n: Var(st.env[n].ty, st.env[n].lean, st.env[n].iv if n not in carried else None, True) for n in st.env
                     if n in need or n in carried})
        ptext = self.params_text(need, bst)
        cap_args = "".join(bst.env[n].lean + " " for n in need)
        head_names = [bst.env[n].lean for n in carried]
        if not carried:
            raise TranslateError("loop without effect")

        def again(s2):
            return AuxTail(f"{lname} {cap_args}fuel " + " ".join(s2.env[n].lean for n in carried))
        self.loop_stack.append(set(need) | set(carried))
        try:
            bnode = self.do_block(body, bst, Ctx(ctx.ret, brk), again, self.no_value)
        finally:
            self.loop_stack.pop()
        self.aux.append(("fuel", lname, ptext, dict(heads=head_names, ctys=[st.env[n].ty.lean for n in carried], body=bnode)))
        args = " ".join(st.env[n].lean for n in carried)
        return AuxTail(f"{lname} {cap_args}{fv.p()} {args}")

    # ------------------------------------------------------------------------------------------- function
    def final(self, st, v):
        if self.ret_ty is not None and self.ret_ty.kind != "unit":
            if v is None:
                raise TranslateError("missing return value")
            self.check_arg(v, self.ret_ty, "return value", [])
        elif v is not None:
            raise TranslateError("value returned from a unit function")
        outs = [st.env[n].lean for n in self.out_vars]
        if v is not None:
            outs.append(v.t)
        if not outs:
            raise TranslateError("function without result")
        return Ret(outs[0] if len(outs) == 1 else "(" + ", ".join(outs) + ")")

    def translate(self):
        sp = self.spec
        hdr, body = find_fn_unique(self.src, sp.fn, sp.scope)
        # statement attributes, nested items (local `macro_rules!` are expanded below), inner-block shadowing, `let x = &mut …` aliases,
        # re-bound `&mut` parameters and changed imports are refused (tools/ktx_glue_guard.py)
        # (block scoping of shadowed names is translated here: do_block marks a shadowed outer variable `dead`; nested `fn` items are
        # accepted only when the spec maps the local call to the kernel generated from that very item: `local_ext`)
        nested_ok = tuple(n for (o, n) in (getattr(sp, "local_ext", None) or {}) if o is None)
        GUARD.lint_fn(hdr + " {", body, what=f"fn {sp.fn}", macro_rules_ok=True, shadow_ok=True, nested_ok=nested_ok)
        GUARD.check_fn_uses(sp.file, strip_comments(self.src), hdr, body, what=f"fn {sp.fn}")
        body = expand_local_macros(body)
        self.idents = {t[1] for t in lex(body) if t[0] == "id"} | {t[1] for t in lex(hdr) if t[0] == "id"}
        self.spec_hints = dict(getattr(sp, "hints", {}) or {})
        name, params, ret = parse_sig(hdr)
        st = State()
        plist, self.out_vars, guards = [], [], []
        for pn, pt, mode in params:
            ty = self.conv(pt)
            lean = self.declare(pn, ty, st)
            plist.append((pn, ty, mode))
            if mode == "mut":
                self.out_vars.append(pn)
            if ty.kind in ("bytes", "list") and ty.n is not None:
                guards.append(f"{lean}.length = {ty.n}")
        st.decls = []
        self.ret_ty = self.conv(ret) if ret is not None else None
        self.base = sp.lean_name[:-4] if sp.lean_name.endswith("_src") else sp.lean_name
        stmts = PC(lex(body)).block()
        ctx = Ctx(lambda st2, v: self.final(st2, v))
        node = self.seq(stmts, 0, st, ctx, lambda st2: self.final(st2, None), lambda st2, v: self.final(st2, v))
        if guards:
            node = If(" ∧ ".join(guards), node, Fail())
        node = peephole(node)
        auxs = [(a[0], a[1], a[2], (peephole(a[3]) if a[0] == "join" else dict(a[3], body=peephole(a[3]["body"])))) for a in self.aux]
        body_of = lambda a: a[3] if a[0] == "join" else a[3]["body"]
        fal_aux = {a[1] for a in auxs if fallible(body_of(a)) or a[0] == "fuel"}
        changed = True
        while changed:
            changed = False
            for a in auxs:
                if a[1] not in fal_aux and (aux_refs(body_of(a), set()) & fal_aux):
                    fal_aux.add(a[1]); changed = True
        # join points and `loop`s return the function's result: they share its mode
        fal = fallible(node) or bool(aux_refs(node, set()) & fal_aux)
        if fal:
            fal_aux |= {a[1] for a in auxs if a[0] in ("join", "fuel")}
        pure_aux = {a[1] for a in auxs} - fal_aux
        out_tys = [ty.lean for pn, ty, mode in plist if mode == "mut"]
        if self.ret_ty is not None and self.ret_ty.kind != "unit":
            out_tys.append(self.ret_ty.lean)
        rty = out_tys[0] if len(out_tys) == 1 else "(" + " × ".join(out_tys) + ")"
        mty = f"Option {atomize(rty)}" if fal else rty
        R = Render(not fal, pure_aux)
        parts = [self.render_aux(a, Render(a[1] in pure_aux, pure_aux), mty, a[1] not in pure_aux) for a in auxs]
        ptext = " ".join(f"({lean_id(pn)} : {ty.lean})" for pn, ty, mode in plist)
        doc = f"/-- {sp.doc + ' — ' if sp.doc else ''}GENERATED from `fn {sp.fn}` in {sp.file} -/\n"
        head = f"def {sp.lean_name} {ptext} : {mty} :=" + ("" if not fal else " do") + "\n"
        parts.append(doc + head + R.go(node, 2))
        self.check_ext(plist, fal)
        return "\n".join(parts)

    def check_ext(self, plist, fal):
        """the function's own EXT entry (how its callers see it) must describe this very signature"""
        sp = self.spec
        if sp.ext_key is None:
            return
        ext = self.prog.ext.get(sp.ext_key)
        if ext is None:
            ext = self.prog.ops.get(sp.ext_key)
        if ext is None:
            raise TranslateError(f"no EXT entry for {sp.ext_key}")
        ptys = [ty for pn, ty, mode in plist]
        exp = ([self.conv_text(ext.recv)] if ext.recv is not None else []) + [self.conv_text(t) for t in ext.params]
        if len(ptys) != len(exp) or not all(a.same(b) and getattr(a, "n", None) == getattr(b, "n", None) for a, b in zip(ptys, exp)):
            raise TranslateError(f"signature of fn {sp.fn} differs from its EXT entry")
        eret = self.conv_text(ext.ret) if ext.ret is not None else None
        if (eret is None) != (self.ret_ty is None or self.ret_ty.kind == "unit") or (eret is not None and not eret.same(self.ret_ty)):
            raise TranslateError(f"return type of fn {sp.fn} differs from its EXT entry")
        muts = [("self" if pn == "self" else i - (1 if ext.recv is not None else 0)) for i, (pn, ty, mode) in enumerate(plist) if mode == "mut"]
        if muts != list(ext.outs):
            raise TranslateError(f"`&mut` parameters of fn {sp.fn} differ from its EXT entry")

    def render_aux(self, a, R, mty, fal):
        kind, name, ptext, d = a
        ptext = (ptext + " ") if ptext else ""
        m = lambda rty: (f"Option {atomize(rty)}" if fal else rty)
        if kind == "join":
            return (f"/-- join point of `fn {self.spec.fn}` (the statements after a branching statement) -/\n"
                    f"def {name} {ptext}: {mty} :=" + (" do" if fal else "") + "\n" + R.go(d, 2))
        if kind == "for":
            cp = ", ".join(d["heads"])
            if d["rev"]:
                sig = " → ".join(["Nat"] + d["ctys"] + [m(d["rty"])])
                return (f"/-- `for {d['var']} in (lo..hi).rev()` of `fn {self.spec.fn}`: the iterations still to do -/\n"
                        f"def {name} {ptext}: {sig}\n"
                        f"  | 0, {cp} => {R.ok(d['ctuple'])}\n"
                        f"  | {d['cnt']} + 1, {cp} =>" + (" do" if fal else "") + "\n" + R.go(d["body"], 4))
            sig = " → ".join(["Nat", "Nat"] + d["ctys"] + [m(d["rty"])])
            return (f"/-- `for {d['var']} in lo..hi` of `fn {self.spec.fn}`: `cnt` iterations from `{d['var']}` -/\n"
                    f"def {name} {ptext}: {sig}\n"
                    f"  | 0, _, {cp} => {R.ok(d['ctuple'])}\n"
                    f"  | {d['cnt']} + 1, {d['var']}, {cp} =>" + (" do" if fal else "") + "\n" + R.go(d["body"], 4))
        if kind == "list":
            cp = "".join(", " + h for h in d["heads"])
            sig = " → ".join([d["lty"]] + d["ctys"] + [m(d["rty"])])
            return (f"/-- `for {d['x']} in …` of `fn {self.spec.fn}` over the remaining elements -/\n"
                    f"def {name} {ptext}: {sig}\n"
                    f"  | []{cp} => {R.ok(d['nil'])}\n"
                    f"  | {d['x']} :: {d['rest']}{cp} =>" + (" do" if fal else "") + "\n" + R.go(d["body"], 4))
        if kind == "fuel":
            cp = ", ".join(d["heads"])
            sig = " → ".join(["Nat"] + d["ctys"] + [mty])
            return (f"/-- `loop` of `fn {self.spec.fn}` on fuel (running out of fuel is `none`) -/\n"
                    f"def {name} {ptext}: {sig}\n"
                    f"  | 0, {', '.join('_' for _ in d['heads'])} => none\n"
                    f"  | fuel + 1, {cp} => do\n" + R.go(d["body"], 4))
        raise TranslateError("internal: aux kind")


def translate_const(spec: Fn):
    """kind "const": an associated `const NAME: T = <struct literal>;`"""
    tr = Tr(spec)
    ty_text, init = find_const_item(tr.src, spec.fn, spec.scope)
    ty = tr.conv(PC(lex(ty_text)).ty())
    e = PC(lex(init)).expr()
    pre = []
    v = tr.ex(e, State(), pre, ty)
    if pre or not v.ty.same(ty):
        raise TranslateError("unsupported constant initialiser")
    return (f"/-- {spec.doc + ' — ' if spec.doc else ''}GENERATED from `const {spec.fn}` in {spec.file} -/\n"
            f"def {spec.lean_name} : {ty.lean} := {v.t}\n")


def translate_limb_loop(spec: Fn):
    """kind "limb_loop": `let Fe([mut r0, …, mut r4]) = *self; for _ in 0..n { BODY } Fe([r0, …, r4])` where BODY is limb
    arithmetic tied by an existing kernel (`spec.body_kernel`: one iteration, Fe -> Option Fe, translated from the SAME loop body by
    tools/kernel_translate.py).  Here the SKELETON is checked and translated: the destructuring, the loop bounds, that the body
    assigns nothing but the five registers and its own `let`s, the result expression."""
    tr = Tr(spec)
    hdr, body = find_fn_unique(tr.src, spec.fn, spec.scope)
    name, params, ret = parse_sig(hdr)
    if [p[0] for p in params] != ["self", "n"] or params[0][2] != "val" or tr.conv(params[1][1]).key() != "usize":
        raise TranslateError("limb_loop: unexpected signature")
    sty = tr.conv("Self")
    if ret is None or not tr.conv(ret).same(sty) or sty.limbs is None:
        raise TranslateError("limb_loop: unexpected return type")
    stmts = PC(lex(body)).block()
    if len(stmts) != 3 or stmts[0][0] != "let" or stmts[1][0] != "for" or stmts[2][0] != "ret":
        raise TranslateError("limb_loop: the body is not `let …; for … { … } result`")
    pat, init = stmts[0][1], stmts[0][3]
    flat = pat[1] if pat[0] == "tuple" else None
    while flat is not None and len(flat) == 1 and flat[0][0] == "tuple":
        flat = flat[0][1]
    if flat is None or len(flat) != len(sty.limbs) or any(x[0] != "var" for x in flat) or strip(init) != ("path", "self"):
        raise TranslateError("limb_loop: the registers are not the limbs of `*self`")
    regs = [x[1] for x in flat]
    fpat, it, fbody = stmts[1][1], strip(stmts[1][2]), stmts[1][3]
    if fpat != ("var", "_") or it[0] != "range" or it[1] != ("lit", 0, None) or it[2] != ("path", "n") or (len(it) == 4 and it[3] != ".."):
        raise TranslateError("limb_loop: the loop is not `for _ in 0..n`")
    local = set()
    for st_ in fbody:
        if st_[0] == "let" and st_[1][0] == "var":
            local.add(st_[1][1])
        elif st_[0] == "assign" and st_[1][0] == "path" and (st_[1][1] in regs or st_[1][1] in local):
            pass
        else:
            raise TranslateError("limb_loop: the loop body has a statement that is not register arithmetic")
    r = strip(stmts[2][1])
    ok = r[0] == "call" and r[1][0] == "path" and r[1][1] in (spec.owner, "Self") and len(r[2]) == 1 and r[2][0][0] == "array" \
        and [x for x in r[2][0][1]] == [("path", g) for g in regs]
    if not ok:
        raise TranslateError("limb_loop: the result is not the registers in order")
    base = spec.lean_name[:-4]
    return (f"/-- `for _ in 0..n` of `fn {spec.fn}`: `cnt` iterations (one iteration = the limb kernel `{spec.body_kernel}`) -/\n"
            f"def {base}_loop1_src : Nat → {sty.lean} → Option {sty.lean}\n"
            f"  | 0, f => pure f\n"
            f"  | cnt + 1, f => do\n"
            f"    let f ← {spec.body_kernel} f\n"
            f"    {base}_loop1_src cnt f\n\n"
            f"/-- {spec.doc + ' — ' if spec.doc else ''}GENERATED from `fn {spec.fn}` in {spec.file} -/\n"
            f"def {spec.lean_name} (self : {sty.lean}) (n : Nat) : Option {sty.lean} := do\n"
            f"  {base}_loop1_src n self\n")


def translate(spec: Fn):
    if spec.kind == "const":
        return translate_const(spec)
    if spec.kind == "limb_loop":
        return translate_limb_loop(spec)
    return Tr(spec).translate()
