#!/usr/bin/env python3
r"""ktx_glue_simd — source-level translator for the VECTORISED code paths of /repo/src written with `core::arch::x86_64`
intrinsics (chacha/sse2.rs, hashing/sha2/impl256/{sse41,avx}.rs, hashing/blake2/{avx,avx2}.rs): imperative Rust + intrinsics ->
Lean functions over `Cx.Intrinsics` (lean/CxVerif/Util/Intrinsics.lean: one lane-level definition per intrinsic, Intel's
pseudo-code, tested against the real instructions).  Used by tools/kernels/glue_simd.py through `TRANSLATE = ktx_glue_simd.translate`
(see kernel_translate.generate_all()); the output lean/CxVerif/Extracted/GlueSimd.lean is regenerated from the CURRENT source on
every run and the tie theorems (Props/C16/GlueTieSimd*.lean) prove every generated `<fn>_src` equal to the hand lane model.
Lexer / parser: kernel_translate.py (`lex`, `P`) and ktx_misc.py (`P2`), extended here (`P3`: `while`, local items).

SUPPORTED RUST SUBSET AND ITS MEANING
  values      `__m128i`/`__m128` = `M128i`, `__m256i` = `M256i`; `u8/u32/u64` = `UInt8/UInt32/UInt64`; `i8/i32/i64` = the SAME Lean
              types holding the two's-complement bit pattern (the only operations on them here are literals, unary minus on
              literals and `as` casts: same-width casts are the identity, unsigned widening `.toUIntN`, signed widening the
              sign extension `sext32to64`/`sext8to32`, narrowing `.toUIntN`); `usize` = `Nat` (exact `+ * /`, comparisons;
              `-` only between compile-time constants); `bool` = `Bool`;  `[u32; 8]` = the structure named by the spec
              (`W8 UInt32`, fields by literal index) or `List`; other arrays / `&[T]` / `&mut [T]` = `List T` (`Bytes` for u8);
              tuple structs with one field (`Align128([u32; 4])`) = that field; structs = Lean structures emitted from the Rust
              declaration (kind="struct"); tuples = Lean tuples.  Compile-time constants (literals, `const fn` calls such as
              `_MM_SHUFFLE(..)` evaluated by the translator, arithmetic on them) are folded; an intrinsic IMMEDIATE must be
              such a constant and must fit the bit count rustc's `static_assert_uimm_bits!` demands (else TranslateError).
  intrinsics  every `_mm*` call is the function of the same name of `Cx.Intrinsics` (table `INTR`; an intrinsic that is not in
              the table is refused).  Loads / stores take (buffer, byte offset): see "pointers".
  pointers    `x.as_ptr()`, `x.as_mut_ptr()`, `p as *const T`, `p.add(k)` are tracked symbolically as (buffer variable, kind of
              buffer: bytes / u32 array / u64 array, byte offset, pointee type); `p.add(k)` advances by `k * size_of(pointee)`.
              A pointer PARAMETER `p: *const T` is the pair `(p : buffer) (p_off : Nat)` (buffer kind from the spec, checked at
              every call site).  `read(p)` for `*const i32` = `read_i32`; loads/stores = `_mm_loadu_si128[_u32|_u64]` … on the
              buffer; an access outside the buffer is `.error "UB"`, a misaligned `_mm_load_si128`/`_mm_store_si128` offset
              `.error "FAULT"` (base objects are assumed aligned as their `#[repr(align(N))]` says; for types declared in a
              translated file the attribute is checked on the source: kind="struct", `align=`).  A store rebinds the buffer.
              `p.align_offset(N) == 0` (in `debug_assert!`) = `p_off % N = 0`.
  failure     a function that can fail returns `Except String`: `"PANIC"` exactly where Rust panics (`b[lo..hi]`, `a[i]`,
              `a[i] = v` on lists, `unreachable!()`, `assert!`/`debug_assert!`, `try_into().unwrap()` with the wrong length),
              `"UB"` for out-of-buffer raw accesses and `get_unchecked(i)` out of range, `"DIVERGE"` when a `while` loop
              outlives its fuel.  A function in which nothing can fail is a pure Lean function.
  state       `&mut self`, `&mut` parameters and `*mut` pointer parameters: the new values are RETURNED, in the order
              (self, `&mut`/`*mut` parameters in declaration order, return value).  Every binding/assignment is one Lean `let`
              with a fresh SSA name (`x`, `x_1`, …).
  macros      `macro_rules!` (single arm; file level or local to a function body) become Lean FUNCTIONS `<macro>_src`:
              parameters bound to places/expressions are value parameters (the ones the body assigns are returned, in
              parameter order), parameters bound to LITERALS or to NAMES OF FUNCTIONS are compile-time: the function is
              specialised (`add_rotate_xor_16_src`, `G_rotate32_epi64_rotate24_epi64_src`), unused parameters are dropped;
              variables of the enclosing function that the body uses are extra parameters (after the macro's own, in the
              declaration order of the enclosing function), those it assigns are returned after the assigned parameters,
              a value (macros in expression position: `load0!()`, `blend!(a, b)`) last.  Expression arguments are evaluated
              at the call site (they must not mention a variable the macro assigns; a place argument the macro only reads must not
              be assigned by it under another name).  Local macros are prefixed by the function name.  `assert!`, `unreachable!`,
              `panic!` are checks; `debug_assert!(c)` is the check `debugAssert (c)` (Util/DebugAssert.lean: the DEBUG-build meaning,
              textually distinct from `assert!`; release builds are not modelled).
  control     `if c {..} else {..}` (statement or value; the variables assigned in a branch are joined through a tuple),
              `match <usize expr> { lit => e, …, _ => e }` as an `if` chain; `for _ in 0..n { body }` = structural recursion
              on the count (`<fn>_loop<k>_src` over the tuple of assigned variables, read-only ones as parameters);
              `while c { body }` = recursion on FUEL named by the spec (`fuel=["<rust expr>", …]`, one per loop in source
              order, macro expansions included); `a && b` / `a || b` only with a right operand that cannot fail (both operands are
              evaluated); `return` (own AST node; accepted only as the last statement of the function), `break`, `continue` are refused.
  slices      `b[lo..hi]`, `b[lo..]` = `Glue.slice` (PANIC), `.len()`, `.try_into().unwrap()` to `[u8; 4]` (length check),
              `u32::from_le_bytes` = `leU32`; `[c; n]` = `Glue.fill`; `a.get_unchecked(i)` (UB outside), `*x`, `&x`, `&mut x`.
  words       `wrapping_add` = `+`, `overflowing_add` = `(a + b, decide (2^w ≤ a.toNat + b.toNat))`, `^ & | !`, `<< >>` by
              constants; checked `+ - *` on words are refused.
  calls       other kernels of the same spec (translated first) and `Extern`s named by the spec (model functions tied
              elsewhere: `reference::digest_block`, `e0`, `e1`, tables `K32`, `b::IV`, `s::IV`).  These names are resolved by
              SPELLING; what gives a spelling its meaning is checked on the source: an aliasing `const X: T = path;` against the
              spec's `const_path`, and every compiled `use` of the translated file against the expected imports (`Program(uses=…)`,
              default table DEFAULT_USES below: name -> path; renaming imports, globs other than `core::arch::x86*::*` and an
              unexpected import of a name the function mentions are refused).  Item lookups (fn / struct / const / mod) demand ONE
              compiled definition in the bounded scope (`#[cfg]` evaluated with kernel_translate.cfg_atom).
Anything else raises TranslateError (-> broken extraction); skipped are only attributes other than `cfg`/`cfg_attr` (those two are
refused inside bodies) and visibility; refused in particular: nested `fn` items in a body, `let x = &mut <place>` / `&mut *p` aliases,
an object passed twice to a call that writes it, paths with generic arguments, match guards.  NOT modelled (trusted / observed by the C16 correspondence): what the machine instruction does beyond
Util/Intrinsics.lean (tested against hardware), alignment of base objects, `ptr::read` through an unaligned `*const i32`,
that `usize` arithmetic does not overflow.
"""
import os
import re

import kernel_translate as KT
from kernel_translate import TranslateError, strip_comments, find_fn
import ktx_misc as KM
from ktx_misc import P2, lex, untok

LEAN_KEYWORDS = KM.LEAN_KEYWORDS | {"some", "none", "true", "false", "rec", "self"} - {"self"}
SIZES = {"u8": 1, "i8": 1, "u16": 2, "i16": 2, "u32": 4, "i32": 4, "u64": 8, "i64": 8, "__m128i": 16, "__m128": 16, "__m256i": 32}
BITS = {"u8": 8, "i8": 8, "u32": 32, "i32": 32, "u64": 64, "i64": 64}
SIGNED = {"i8", "i32", "i64"}
LEAN_TY = {"u8": "UInt8", "i8": "UInt8", "u32": "UInt32", "i32": "UInt32", "u64": "UInt64", "i64": "UInt64", "usize": "Nat",
           "bool": "Bool", "__m128i": "M128i", "__m128": "M128i", "__m256i": "M256i", "unit": "Unit"}


def REPO():
    return os.environ.get("CX_REPO", KT.REPO)


# ------------------------------------------------------------------------------------------------------ source

_SRC_CACHE = {}


def read_src(rel):
    key = (REPO(), rel)
    if key not in _SRC_CACHE:
        _SRC_CACHE[key] = strip_comments(open(os.path.join(REPO(), rel)).read())
    return _SRC_CACHE[key]


def match_brace(text, i, open_="{", close="}"):
    """text[i] == open_; index just after the matching close"""
    d, j = 0, i
    while j < len(text):
        if text[j] == open_:
            d += 1
        elif text[j] == close:
            d -= 1
            if d == 0:
                return j + 1
        j += 1
    raise TranslateError("unbalanced braces")


MACRO_RE = re.compile(r"macro_rules!\s+(\w+)\s*\{")


def split_macros(text):
    """remove every `macro_rules! name { (params) => { body }; }` item; returns (text without them, {name: (params, body)})"""
    macros = {}
    out, pos = [], 0
    while True:
        m = MACRO_RE.search(text, pos)
        if not m:
            out.append(text[pos:])
            break
        if re.search(r"#\s*\[\s*cfg", KT.item_header(text, m.start())):
            raise TranslateError(f"macro {m.group(1)}: `#[cfg]` on a macro definition is not translated")
        out.append(text[pos:m.start()])
        end = match_brace(text, m.end() - 1)
        arm = text[m.end():end - 1]
        pm = re.match(r"\s*\(([^)]*)\)\s*=>\s*\{", arm)
        if not pm:
            raise TranslateError(f"macro {m.group(1)}: unsupported matcher")
        params = []
        for p in [x.strip() for x in pm.group(1).split(",") if x.strip()]:
            q = re.fullmatch(r"\$(\w+)\s*:\s*(ident|expr|literal)", p)
            if not q:
                raise TranslateError(f"macro {m.group(1)}: unsupported parameter {p!r}")
            params.append((q.group(1), q.group(2)))
        bend = match_brace(arm, pm.end() - 1)
        if arm[bend:].strip().rstrip(";").strip():
            raise TranslateError(f"macro {m.group(1)}: more than one arm")
        if m.group(1) in macros:
            raise TranslateError(f"macro {m.group(1)} defined twice in one scope")
        macros[m.group(1)] = (params, arm[pm.end():bend - 1])
        pos = end
        while pos < len(text) and text[pos] in " \t":
            pos += 1
        if pos < len(text) and text[pos] == ";":
            pos += 1
    return "".join(out), macros


def strip_uses(text):
    """remove the `use` items of a body (they are CHECKED by check_uses before; a renaming import never reaches this point)"""
    if re.search(r"\buse\s[^;]*\bas\b", text):
        raise TranslateError("renaming import (`use … as …`) inside a translated body")
    return re.sub(r"\buse\s+[\w:{}, *]+;", "", text)


# Names are resolved by SPELLING (externs `e0`, `reference::digest_block`, tables `K32`, `b::IV`, intrinsics `_mm_*`, `read`): the
# imports that give these spellings their meaning are therefore part of what is translated.  Expected imports per source file
# (bound name -> path it must be imported from); `Program(uses={file: {...}})` overrides the entry of a file.
DEFAULT_USES = {
    "src/chacha/sse2.rs": {"TryInto": "core::convert::TryInto"},
    "src/hashing/sha2/impl256/sse41.rs": {"reference": "super::reference", "read": "core::ptr::read",
                                          "e0": "super::reference::e0", "e1": "super::reference::e1"},
    "src/hashing/sha2/impl256/avx.rs": {"reference": "super::reference", "sse41": "super::sse41", "read": "core::ptr::read",
                                        "e0": "super::reference::e0", "e1": "super::reference::e1"},
    "src/hashing/blake2/avx.rs": {"b": "super::common::b", "s": "super::common::s", "LastBlock": "super::common::LastBlock"},
    "src/hashing/blake2/avx2.rs": {"b": "super::common::b", "LastBlock": "super::common::LastBlock"},
}
ARCH_GLOBS = ("core::arch::x86_64::*", "core::arch::x86::*", "std::arch::x86_64::*", "std::arch::x86::*")


def check_uses(k, src):
    """every compiled `use` of the translated file: globs only of core::arch, no renaming, a name in the expected list only from
    its expected path, and no other import may bind a name the translated function (or a macro of the file) mentions"""
    expected = dict(getattr(k.prog, "uses", {}).get(k.file, DEFAULT_USES.get(k.file, {})))
    KT.check_expected_uses(src, expected, k.file, ARCH_GLOBS)
    try:
        _, body = find_fn(src, k.fn, k.scope)
    except TranslateError:
        return
    mentioned = set(re.findall(r"[A-Za-z_]\w*", body))
    for mm in MACRO_RE.finditer(src):
        mentioned |= set(re.findall(r"[A-Za-z_]\w*", src[mm.end():match_brace(src, mm.end() - 1)]))
    for pos, path, name, renamed in KT.use_decls(src):
        if name is not None and name not in expected and name in mentioned:
            raise TranslateError(f"{k.file}: `use {path};` binds `{name}`, which the translated code mentions, and is not in the list of expected imports")


def top_level_text(src):
    """the file with all brace bodies of fn / impl items blanked (for file-level macro lookup we keep everything)"""
    return src


class P3(P2):
    """ktx_misc.P2 + `while`"""

    def stmt(self):
        if self.atid("while"):
            self.eat()
            c = self.expr_nostruct()
            body = self.block_in_braces()
            return ("while", c, body)
        return super().stmt()

    def block(self):
        stmts = KT.P.block(self)
        out = []
        for i, s in enumerate(stmts):
            if s[0] == "ret" and i != len(stmts) - 1:
                if s[1][0] in ("if", "match", "blockexpr", "macro"):
                    out.append(("expr", s[1]))
                else:
                    raise TranslateError("value expression in statement position")
            else:
                out.append(s)
        return out


def parse_block(text):
    p = P3(lex(text))
    p.fnitems = True                   # nested `fn` items become ("fnitem", …) statements: refused by Ex.stmt, never skipped
    b = p.block()
    if p.dropped_generics:
        raise TranslateError(f"generic arguments in a type (`{p.dropped_generics[0][0]}{p.dropped_generics[0][1]}`) are not translated")
    if p.peek()[0] != "eof":
        raise TranslateError(f"trailing tokens after block: {p.peek()}")
    return b


def parse_expr_toks(toks):
    p = P3(list(toks))
    e = p.expr()
    if p.peek()[0] != "eof":
        raise TranslateError("trailing tokens in macro argument")
    return e


def parse_sig(header):
    """`fn name<..>(params) -> ret {`  ->  ([(name, type ast, mut-binding)], ret type ast or None)"""
    m = re.search(r"\bfn\s+\w+\s*(<[^>]*>)?\s*\(", header)
    if not m:
        raise TranslateError("cannot parse fn header")
    end = match_brace(header, m.end() - 1, "(", ")")
    ptxt = header[m.end():end - 1]
    rest = header[end:]
    params = []
    depth, cur, parts = 0, "", []
    for ch in ptxt:
        if ch in "([<":
            depth += 1
        elif ch in ")]>":
            depth -= 1
        if ch == "," and depth == 0:
            parts.append(cur); cur = ""
        else:
            cur += ch
    if cur.strip():
        parts.append(cur)
    for p in parts:
        p = p.strip()
        if p in ("self", "&self", "&mut self", "mut self"):
            params.append(("self", ("selfty", p), False))
            continue
        nm, ty = p.split(":", 1)
        nm = nm.strip()
        if nm.startswith("mut "):
            nm = nm[4:].strip()
        params.append((nm, parse_type(ty.strip()), False))
    ret = None
    rm = re.match(r"\s*->\s*(.*?)\s*(where\b.*)?\{\s*$", rest, re.S)
    if rm:
        ret = parse_type(rm.group(1).strip())
    return params, ret


def parse_type(txt):
    """Rust type text -> type: 'u32' | ('ref', mut, T) | ('ptr', mut, T) | ('arr', T, n-text) | ('slice', T) | ('tuple', [T]) | ('named', name)"""
    txt = txt.strip()
    if txt.startswith("&"):
        t = txt[1:].strip()
        mut = False
        if t.startswith("mut "):
            mut, t = True, t[4:]
        return ("ref", mut, parse_type(t))
    if txt.startswith("*"):
        m = re.match(r"\*\s*(mut|const)\s+(.*)", txt, re.S)
        return ("ptr", m.group(1) == "mut", parse_type(m.group(2)))
    if txt.startswith("["):
        inner = txt[1:-1]
        if ";" in inner:
            e, n = inner.rsplit(";", 1)
            return ("arr", parse_type(e), n.strip())
        return ("slice", parse_type(inner))
    if txt.startswith("("):
        inner = txt[1:-1].strip()
        if not inner:
            return "unit"
        depth, cur, parts = 0, "", []
        for ch in inner:
            if ch in "([<":
                depth += 1
            elif ch in ")]>":
                depth -= 1
            if ch == "," and depth == 0:
                parts.append(cur); cur = ""
            else:
                cur += ch
        if cur.strip():
            parts.append(cur)
        return ("tuple", [parse_type(p) for p in parts])
    txt = re.sub(r"<.*>$", "", txt).strip()
    if txt in LEAN_TY or txt in ("usize", "bool"):
        return txt
    return ("named", txt)


# ------------------------------------------------------------------------------------------------------ types / values

def lty(ty, prog=None):
    """Lean type text of an internal type"""
    if isinstance(ty, str):
        if ty == "v128":
            return "M128i"
        if ty == "v256":
            return "M256i"
        return LEAN_TY[ty]
    k = ty[0]
    if k == "list":
        return "Bytes" if ty[1] in ("u8",) else f"List {lty_atom(ty[1], prog)}"
    if k == "sarr":
        return ty[1]
    if k == "tuple":
        return " × ".join(lty_atom(t, prog) if (isinstance(t, tuple) and t[0] == "tuple") else lty(t, prog) for t in ty[1])
    if k == "struct":
        return ty[1]
    if k == "enum":
        return ty[2]
    raise TranslateError(f"no Lean type for {ty}")


def lty_atom(ty, prog=None):
    t = lty(ty, prog)
    return f"({t})" if " " in t else t


def is_word(ty):
    return ty in BITS


def atomic(t):
    return bool(re.fullmatch(r"[\w.'·]+|\(.*\)|⟨.*⟩|\[.*\]", t)) and not (t.startswith("(") and not balanced_outer(t))


def balanced_outer(t):
    """t starts with an opening bracket that closes at the very end"""
    pairs = {"(": ")", "⟨": "⟩", "[": "]"}
    if t[0] not in pairs:
        return False
    d = 0
    for i, ch in enumerate(t):
        if ch in "(⟨[":
            d += 1
        elif ch in ")⟩]":
            d -= 1
            if d == 0:
                return i == len(t) - 1
    return False


def par(t):
    if re.fullmatch(r"[\w.'·]+", t):
        return t
    if t[0] in "(⟨[" and balanced_outer(t):
        return t
    return f"({t})"


class V:
    """a value: Lean text (a name, a literal or a small pure term), internal type, compile-time constant (python int/bool) if known,
    for pointers `ptr = (buffer place, buffer kind, byte-offset V)`, for tuples with known components `items`"""

    def __init__(self, t, ty, const=None, ptr=None, items=None, fn=None):
        self.t, self.ty, self.const, self.ptr, self.items, self.fn = t, ty, const, ptr, items, fn

    def p(self):
        return par(self.t)

    def __repr__(self):
        return f"V({self.t!r}:{self.ty})"


def lit(n, ty):
    if ty == "usize":
        return V(str(n), "usize", n)
    if ty == "bool":
        return V("true" if n else "false", "bool", bool(n))
    bits = BITS[ty]
    n &= (1 << bits) - 1
    txt = f"0x{n:x}" if n > 9 else str(n)
    return V(f"({txt} : {LEAN_TY[ty]})", ty, n)


# ------------------------------------------------------------------------------------------------------ intrinsics

V1, V2 = "v128", "v256"


def imm(b):
    return ("imm", b)


INTR = {
    "_mm_add_epi32": ([V1, V1], V1), "_mm_add_epi64": ([V1, V1], V1), "_mm_xor_si128": ([V1, V1], V1), "_mm_or_si128": ([V1, V1], V1),
    "_mm_slli_epi32": ([V1, imm(8)], V1), "_mm_srli_epi32": ([V1, imm(8)], V1), "_mm_slli_epi64": ([V1, imm(8)], V1),
    "_mm_srli_epi64": ([V1, imm(8)], V1), "_mm_shuffle_epi32": ([V1, imm(8)], V1), "_mm_shuffle_ps": ([V1, V1, imm(8)], V1),
    "_mm_castsi128_ps": ([V1], V1), "_mm_castps_si128": ([V1], V1), "_mm_shuffle_epi8": ([V1, V1], V1),
    "_mm_shufflehi_epi16": ([V1, imm(8)], V1), "_mm_blend_epi16": ([V1, V1, imm(8)], V1), "_mm_alignr_epi8": ([V1, V1, imm(8)], V1),
    "_mm_slli_si128": ([V1, imm(8)], V1), "_mm_srli_si128": ([V1, imm(8)], V1),
    "_mm_unpacklo_epi64": ([V1, V1], V1), "_mm_unpackhi_epi64": ([V1, V1], V1), "_mm_unpacklo_epi32": ([V1, V1], V1),
    "_mm_unpackhi_epi32": ([V1, V1], V1), "_mm_insert_epi32": ([V1, "i32", imm(2)], V1), "_mm_extract_epi32": ([V1, imm(2)], "i32"),
    "_mm_cvtsi32_si128": (["i32"], V1), "_mm_set_epi32": (["i32"] * 4, V1), "_mm_set1_epi32": (["i32"], V1),
    "_mm_set_epi64x": (["i64"] * 2, V1), "_mm_set1_epi64x": (["i64"], V1), "_mm_set_epi8": (["i8"] * 16, V1),
    "_mm_setr_epi8": (["i8"] * 16, V1),
    "_mm256_add_epi32": ([V2, V2], V2), "_mm256_add_epi64": ([V2, V2], V2), "_mm256_xor_si256": ([V2, V2], V2),
    "_mm256_or_si256": ([V2, V2], V2), "_mm256_slli_epi32": ([V2, imm(8)], V2), "_mm256_srli_epi32": ([V2, imm(8)], V2),
    "_mm256_slli_epi64": ([V2, imm(8)], V2), "_mm256_srli_epi64": ([V2, imm(8)], V2), "_mm256_shuffle_epi8": ([V2, V2], V2),
    "_mm256_shuffle_epi32": ([V2, imm(8)], V2), "_mm256_unpacklo_epi64": ([V2, V2], V2), "_mm256_unpackhi_epi64": ([V2, V2], V2),
    "_mm256_alignr_epi8": ([V2, V2, imm(8)], V2), "_mm256_blend_epi32": ([V2, V2, imm(8)], V2),
    "_mm256_permute4x64_epi64": ([V2, imm(8)], V2), "_mm256_broadcastsi128_si256": ([V1], V2),
    "_mm256_castsi128_si256": ([V1], V2), "_mm256_insert_epi32": ([V2, "i32", imm(3)], V2), "_mm256_extract_epi32": ([V2, imm(3)], "i32"),
    "_mm256_set1_epi32": (["i32"], V2), "_mm256_set_epi64x": (["i64"] * 4, V2), "_mm256_set_epi8": (["i8"] * 32, V2),
    "_mm256_setr_epi8": (["i8"] * 32, V2),
}
# memory intrinsics: name -> (load/store, vector type, pointee, Lean names by buffer kind)
MEM = {
    "_mm_loadu_si128": ("load", V1, {"bytes": "_mm_loadu_si128", "u32s": "_mm_loadu_si128_u32", "u64s": "_mm_loadu_si128_u64"}),
    "_mm_load_si128": ("load", V1, {"bytes": "_mm_load_si128", "u32s": "_mm_load_si128_u32", "u64s": "_mm_load_si128_u64"}),
    "_mm_storeu_si128": ("store", V1, {"bytes": "_mm_storeu_si128", "u32s": "_mm_storeu_si128_u32", "u64s": "_mm_storeu_si128_u64"}),
    "_mm_store_si128": ("store", V1, {"bytes": "_mm_store_si128", "u32s": "_mm_store_si128_u32", "u64s": "_mm_store_si128_u64"}),
    "_mm256_loadu_si256": ("load", V2, {"bytes": "_mm256_loadu_si256", "u64s": "_mm256_loadu_si256_u64"}),
    "_mm256_load_si256": ("load", V2, {"u64s": "_mm256_load_si256_u64"}),
    "_mm256_storeu_si256": ("store", V2, {"bytes": "_mm256_storeu_si256", "u64s": "_mm256_storeu_si256_u64"}),
}
KIND_OF_ELEM = {"u8": "bytes", "u32": "u32s", "u64": "u64s"}
ELEM_OF_KIND = {v: k for k, v in KIND_OF_ELEM.items()}


# ------------------------------------------------------------------------------------------------------ program / specs

class Ext:
    """an external (model) function: Lean template over {0},{1},…; argument types; result type; mode pure/option/except;
    `outs` = indices of `&mut` arguments whose new value the Lean function returns (before the return value)"""

    def __init__(self, lean, args, ret="unit", mode="pure", outs=(), err="PANIC"):
        self.lean, self.args, self.ret, self.mode, self.outs, self.err = lean, list(args), ret, mode, list(outs), err


class Program:
    """what the kernels of one spec module share: struct declarations, extern functions, module paths, emitted definitions"""

    def __init__(self, externs=None, modules=None, sarr=None, enums=None, aliases=None, uses=None):
        self.uses = dict(uses or {})                # file -> {bound name: expected import path}  (default: DEFAULT_USES)
        self.externs = dict(externs or {})
        self.modules = dict(modules or {})          # (file, rust module path prefix) -> file, e.g. ("…/sse41.rs", "reference") -> "…/reference.rs"
        self.sarr = dict(sarr or {})                # (elem, n) -> (lean type, [field names])
        self.enums = dict(enums or {})              # rust enum name -> (lean type, {variant: lean text})
        self.aliases = dict(aliases or {})
        self.structs = {}                           # rust struct name -> ("struct", lean name, [(field, ity)]) | ("newtype", ity)
        self.consts = {}                            # (ns, rust path) -> V
        self.fns = {}                               # (ns, rust fn path) -> FnInfo
        self.memo = {}                              # macro instantiations
        self.emitted = set()


class FnInfo:
    def __init__(self, lean, params, ret, outs, fallible, generics=()):
        self.lean, self.params, self.ret, self.outs, self.fallible, self.generics = lean, params, ret, outs, fallible, list(generics)


class SK:
    """spec of one kernel
    kind        "fn" | "struct" | "const"
    prog        the Program; file, fn (fn / struct / const name), scope (regex selecting the impl block)
    ns          Lean namespace inside Cx.Extracted.GlueSimd; lean_name (default `<fn>_src`); doc
    rust_paths  the paths under which other kernels call this one (default [fn, "Self::"+fn])
    ptr_kinds   pointer parameter -> "bytes" | "u32s" | "u64s"
    fuel        Rust expressions (text), one per `while` loop in source order
    self_ty     the struct `Self` stands for;  generics  {"ROUNDS": "usize"}
    align       kind="struct": the `#[repr(align(N))]` the declaration must carry
    const_path  kind="const": expected alias target when the declaration is `const X: T = path;`
    """

    def __init__(self, **kw):
        self.kind = kw.get("kind", "fn")
        self.prog = kw["prog"]; self.file = kw["file"]; self.fn = kw["fn"]; self.scope = kw.get("scope")
        self.ns = kw.get("ns", ""); self.doc = kw.get("doc", "")
        self.lean_name = kw.get("lean_name", self.fn + ("_src" if self.kind == "fn" else ""))
        self.rust_paths = kw.get("rust_paths")
        self.ptr_kinds = dict(kw.get("ptr_kinds", {}))
        self.fuel = list(kw.get("fuel", []))
        self.self_ty = kw.get("self_ty")
        self.generics = dict(kw.get("generics", {}))
        self.align = kw.get("align")
        self.const_path = kw.get("const_path")
        self.module = kw.get("module")             # kind="const": `pub mod b { … }` the const lives in
        self.method_of = kw.get("method_of")       # the struct this fn is a method of (for `x.f()` calls)
        # generate_all() formats failures with k.params
        self.params = ""


# ------------------------------------------------------------------------------------------------------ definition contexts

def sanitize(name):
    name = name.split(".")[-1]
    if name.startswith("__p_"):
        name = name[4:]
    name = re.sub(r"\W", "_", name)
    if name in LEAN_KEYWORDS or name[:1].isdigit() or name == "_":
        name = "v_" + name
    return name


class MacroInst:
    def __init__(self, lean, params, captures, outs, ret, fallible):
        self.lean, self.params, self.captures, self.outs, self.ret, self.fallible = lean, params, captures, outs, ret, fallible


class Ctx:
    """one Lean definition being built (a kernel function, a macro function or a loop function)"""

    def __init__(self, prog, k, name, parent=None, root=None):
        self.prog, self.k, self.name, self.parent = prog, k, name, parent
        self.root = root or (parent.root if parent else self)
        self.params = []            # [(lean name, lean type)]
        self.env = {}               # place -> V
        self.lines = []
        self.fallible = False       # something in the CURRENT buffer can fail
        self.any_fallible = False
        self.nfail = 0              # number of failure sites emitted so far (monotone)
        self.used = set()
        self.captures = {}          # place -> V (the parameter standing for the enclosing function's variable)
        self.param_places = {}      # place -> V for explicit (macro) parameters
        self.written = []           # captured / parameter places assigned, in order of first assignment
        self.locals = set()
        self.ind = "  "
        if parent is None:
            self.aux = []           # finished auxiliary definitions (texts), in dependency order
            self.macros = {}        # macro name -> (params, body text, prefix)
            self.loop_no = 0
            self.while_no = 0
            self.self_generics = {}

    # ---- names / lines
    def fresh(self, base):
        base = sanitize(base)
        n, cand = 0, base
        while cand in self.used:
            n += 1
            cand = f"{base}_{n}"
        self.used.add(cand)
        return cand

    def add_param(self, base, ty):
        nm = self.fresh(base)
        self.params.append((nm, lty(ty, self.prog)))
        return V(nm, ty)

    def emit(self, line):
        self.lines.append(self.ind + line)

    def let_(self, base, text, ty, const=None, force=False):
        if not force and re.fullmatch(r"[\w.'·]+|\(\S+ : \w+\)", text):
            return V(text, ty, const)
        nm = self.fresh(base)
        self.emit(f"let {nm} := {text}")
        return V(nm, ty, const)

    def fail(self):
        self.fallible = True
        self.any_fallible = True
        self.nfail += 1

    def bind(self, base, text, ty, mode="except", err="PANIC"):
        """`x ← text` written as a match"""
        nm = self.fresh(base)
        self.fail()
        self.emit(f"match {text} with")
        if mode == "except":
            self.emit("| .error err => .error err")
            self.emit(f"| .ok {nm} =>")
        else:
            self.emit(f"| none => .error \"{err}\"")
            self.emit(f"| some {nm} =>")
        return V(nm, ty)

    def guard(self, cond_text, err):
        """continue only if cond holds"""
        self.fail()
        self.emit(f"if ¬ ({cond_text}) then .error \"{err}\" else")

    def destructure(self, v, bases):
        """v : tuple -> component values"""
        if v.items is not None:
            return v.items
        tys = v.ty[1]
        if len(tys) == 1:
            return [v]
        names = [self.fresh(b) for b in bases]
        self.emit(f"match {v.t} with")
        self.emit("| (" + ", ".join(names) + ") =>")
        return [V(n, t) for n, t in zip(names, tys)]

    # ---- variables
    def lookup_opt(self, place):
        if place in self.env:
            return self.env[place]
        if "." in place:
            base, f = place.rsplit(".", 1)
            bv = self.lookup_opt(base)
            if bv is not None:
                if isinstance(bv.ty, tuple) and bv.ty[0] == "struct":
                    fields = dict(self.prog.structs[bv.ty[1]][2])
                    if f not in fields:
                        raise TranslateError(f"struct {bv.ty[1]} has no field {f}")
                    return V(f"{bv.t}.{f}", fields[f])
                if f == "0" and isinstance(bv.ty, tuple) and bv.ty[0] in ("list", "sarr"):
                    return bv
                if isinstance(bv.ty, tuple) and bv.ty[0] == "tuple" and f.isdigit() and bv.items:
                    return bv.items[int(f)]
            return None
        if self.parent is not None:
            pv = self.parent.lookup_opt(place)
            if pv is not None and pv.t is not None:
                return self.capture(place, pv)
        return None

    def capture(self, place, pv):
        if pv.ptr is not None:
            raise TranslateError(f"pointer variable {place} captured by a macro / loop body")
        if pv.ty == "fnname" or (isinstance(pv.ty, tuple) and pv.ty[0] == "fnname"):
            return pv
        v = V(self.fresh(place), pv.ty)
        self.captures[place] = v
        self.env[place] = v
        return v

    def sorted_captures(self):
        """captured variables in the declaration order of the enclosing function (generics first)"""
        order = {pl: i for i, pl in enumerate(self.root.env)}
        keys = list(self.captures)
        return sorted(keys, key=lambda pl: (0 if pl.startswith("#generic#") else 1, order.get(pl, 1 << 30), keys.index(pl)))

    def lookup(self, place):
        v = self.lookup_opt(place)
        if v is None:
            raise TranslateError(f"unknown variable {place}")
        if v.t is None:
            raise TranslateError(f"variable {place} read before initialisation")
        return v

    def norm_place(self, place):
        """`x.0` of a newtype is `x`"""
        while place.endswith(".0"):
            bv = self.lookup_opt(place[:-2])
            if bv is not None and isinstance(bv.ty, tuple) and bv.ty[0] in ("list", "sarr"):
                place = place[:-2]
            else:
                break
        return place

    def declare(self, name, v):
        self.env[name] = v
        self.locals.add(name)

    def assign(self, place, v):
        place = self.norm_place(place)
        if place not in self.env:
            # a field of a struct variable, or a variable of the enclosing function
            cur = self.lookup_opt(place)
            if cur is None:
                raise TranslateError(f"assignment to unknown variable {place}")
        old = self.env.get(place)
        if old is not None and old.t is not None and old.ty is not None and not same_ty(old.ty, v.ty):
            raise TranslateError(f"assignment changes the type of {place}: {old.ty} := {v.ty}")
        self.env[place] = v
        # whole-struct assignment: forget field overrides
        for key in [k for k in self.env if k.startswith(place + ".")]:
            del self.env[key]
        owner = place
        while owner and owner not in self.captures and owner not in self.param_places and "." in owner:
            owner = owner.rsplit(".", 1)[0]
        if (place in self.captures or place in self.param_places) and place not in self.locals:
            if place not in self.written:
                self.written.append(place)
        elif "." in place:
            base = place.rsplit(".", 1)[0]
            # field of a captured struct: capture happens per field place (lookup_opt derives it from the parent), nothing to do
            if base in self.captures and base not in self.written:
                self.written.append(base)

    def whole(self, place):
        """the current value of a struct variable as one Lean term"""
        v = self.lookup(place)
        if isinstance(v.ty, tuple) and v.ty[0] == "struct":
            fields = self.prog.structs[v.ty[1]][2]
            if any(f"{place}.{f}" in self.env for f, _ in fields):
                parts = [self.lookup(f"{place}.{f}").t for f, _ in fields]
                return V(f"(⟨{', '.join(parts)}⟩ : {v.ty[1]})", v.ty)
        return v


def same_ty(a, b):
    if a == b:
        return True
    if isinstance(a, tuple) and isinstance(b, tuple) and a[0] == b[0] == "list":
        return a[1] == b[1]
    if isinstance(a, tuple) and isinstance(b, tuple) and a[0] == b[0] == "tuple":
        return len(a[1]) == len(b[1]) and all(same_ty(x, y) for x, y in zip(a[1], b[1]))
    return False


# ------------------------------------------------------------------------------------------------------ the executor

def wrap(n, ty):
    bits = BITS[ty]
    return n & ((1 << bits) - 1)


class Ex(Ctx):

    # ---- type conversion of Rust type ASTs
    def ity(self, t):
        if t is None:
            return None
        if isinstance(t, str):
            if t in ("__m128i", "__m128"):
                return "v128"
            if t == "__m256i":
                return "v256"
            if t in BITS or t in ("usize", "bool", "unit"):
                return t
            return self.named_ty(t)
        k = t[0]
        if k == "ref":
            return self.ity(t[2])
        if k == "ptr":
            return ("ptr", self.ity(t[2]))
        if k == "arr":
            e = self.ity(t[1])
            n = self.const_usize_text(t[2])
            if (e, n) in self.prog.sarr:
                lean, fields = self.prog.sarr[(e, n)]
                return ("sarr", lean, tuple(fields), e)
            return ("list", e, n)
        if k == "slice":
            return ("list", self.ity(t[1]), None)
        if k == "tuple":
            return ("tuple", [self.ity(x) for x in t[1]])
        if k == "tuplety":
            return ("tuple", [self.ity(x) for x in t[1]])
        if k == "named":
            return self.named_ty(t[1])
        raise TranslateError(f"unsupported type {t}")

    def named_ty(self, name):
        name = name.split("::")[-1] if name.split("::")[-1] in self.prog.structs or name.split("::")[-1] in self.prog.enums else name
        if name == "Self":
            name = self.k.self_ty
        if name in ("__m128i", "__m128"):
            return "v128"
        if name == "__m256i":
            return "v256"
        if name in self.prog.structs:
            s = self.prog.structs[name]
            return s[1] if s[0] == "newtype" else ("struct", s[1])
        if name in self.prog.enums:
            return ("enum", name, self.prog.enums[name][0])
        raise TranslateError(f"unknown type {name}")

    def const_usize_text(self, txt):
        txt = txt.strip()
        if re.fullmatch(r"\d+", txt):
            return int(txt)
        raise TranslateError(f"array length {txt!r} is not a literal")

    def parser_ty(self, t):
        """types produced by the expression parser (kernel_translate.P.ty / ktx_misc.P2.ty)"""
        if t is None:
            return None
        if isinstance(t, str):
            return self.ity(t)
        if t[0] == "arr":
            e = self.parser_ty(t[1])
            n = self.const_of(t[2])
            if (e, n) in self.prog.sarr:
                lean, fields = self.prog.sarr[(e, n)]
                return ("sarr", lean, tuple(fields), e)
            return ("list", e, n)
        if t[0] == "ptr":
            return ("ptr", self.parser_ty(t[1]))
        if t[0] == "tuplety":
            return ("tuple", [self.parser_ty(x) for x in t[1]])
        raise TranslateError(f"unsupported type {t}")

    def const_of(self, e):
        v = self.ex(e, "usize")
        if v.const is None:
            raise TranslateError("a compile-time constant is required")
        return v.const

    # ---- places
    def place_of(self, e):
        k = e[0]
        if k == "path":
            return e[1] if "::" not in e[1] else None
        if k in ("paren", "deref"):
            return self.place_of(e[1])
        if k == "field":
            b = self.place_of(e[1])
            return None if b is None else self.norm_place(f"{b}.{e[2]}")
        return None

    # ---- expressions
    def ex(self, e, want=None):
        k = e[0]
        m = getattr(self, "ex_" + k, None)
        if m is None:
            raise TranslateError(f"unsupported expression form {k}")
        return m(e, want)

    def ex_paren(self, e, want):
        return self.ex(e[1], want)

    def ex_deref(self, e, want):
        return self.ex(e[1], want)

    def ex_lit(self, e, want):
        n, suf = e[1], e[2]
        ty = suf or (want if (want in BITS or want == "usize") else None)
        if ty is None:
            ty = "usize" if want is None else None
        if ty is None:
            raise TranslateError(f"cannot type the literal {n} (expected {want})")
        if ty in BITS and n >= (1 << BITS[ty]):
            raise TranslateError(f"literal {n} out of range for {ty}")
        return lit(n, ty)

    def ex_neg(self, e, want):
        v = self.ex(e[1], want if want in SIGNED else ("i32" if want is None else want))
        if v.const is None or v.ty not in SIGNED:
            raise TranslateError("unary minus is only supported on signed compile-time constants")
        if v.const > (1 << (BITS[v.ty] - 1)):
            raise TranslateError("literal out of range")
        return lit(-v.const, v.ty)

    def ex_not(self, e, want):
        v = self.ex(e[1], want)
        if v.ty == "bool":
            return V(f"(!{v.p()})", "bool", None if v.const is None else (not v.const))
        if is_word(v.ty):
            return V(f"(~~~{v.p()})", v.ty, None if v.const is None else wrap(~v.const, v.ty))
        raise TranslateError("`!` on an unsupported type")

    def ex_path(self, e, want):
        if len(e) > 2:
            raise TranslateError(f"path with generic arguments `{e[2]}` (the arguments select the item; not translated)")
        name = e[1]
        if name in ("true", "false"):
            return lit(name == "true", "bool")
        v = self.lookup_opt(name) if "::" not in name else None
        if v is not None:
            if v.t is None:
                raise TranslateError(f"variable {name} read before initialisation")
            if isinstance(v.ty, tuple) and v.ty[0] == "struct":
                return self.whole(name)
            return v
        if name in self.k.generics:
            return self.generic(name)
        c = self.prog.consts.get((self.k.ns, name))
        if c is not None:
            return c
        if "::" in name:
            en, var = name.rsplit("::", 1)
            en = en.split("::")[-1]
            if en in self.prog.enums and var in self.prog.enums[en][1]:
                return V(self.prog.enums[en][1][var], ("enum", en, self.prog.enums[en][0]))
        fv = self.fn_ref(name)
        if fv is not None:
            return fv
        raise TranslateError(f"unknown name {name}")

    def generic(self, name):
        root = self.root
        if name not in root.self_generics:
            raise TranslateError(f"generic {name} is not a parameter here")
        v = root.self_generics[name]
        if self is root:
            return v
        # in a sub-definition: a captured variable of the enclosing function
        key = "#generic#" + name
        if key in self.env:
            return self.env[key]
        pv = self.parent.generic(name) if isinstance(self.parent, Ex) else v
        nv = V(self.fresh(name), pv.ty)
        self.captures[key] = nv
        self.env[key] = nv
        return nv

    def fn_ref(self, name):
        """a function name used as a value (macro argument)"""
        if (self.k.ns, name) in self.prog.fns or name in self.prog.externs:
            return V(name, "fnname", fn=name)
        return None

    def ex_tuple(self, e, want):
        wants = want[1] if (isinstance(want, tuple) and want[0] == "tuple") else [None] * len(e[1])
        items = []
        for x, w in zip(e[1], wants):
            v = self.ex(x, w)
            items.append(self.let_("t", v.t, v.ty, v.const))
        return V("(" + ", ".join(i.t for i in items) + ")", ("tuple", [i.ty for i in items]), items=items)

    def ex_blockexpr(self, e, want):
        v = self.block(e[1], want)
        return v if v is not None else V("()", "unit")

    def ex_repeat(self, e, want):
        ew = want[1] if (isinstance(want, tuple) and want[0] == "list") else (want[3] if isinstance(want, tuple) and want[0] == "sarr" else None)
        v = self.ex(e[1], ew)
        n = self.const_of(e[2])
        if (v.ty, n) in self.prog.sarr:
            lean, fields = self.prog.sarr[(v.ty, n)]
            return V(f"(⟨{', '.join([v.t] * n)}⟩ : {lean})", ("sarr", lean, tuple(fields), v.ty))
        return V(f"(Glue.fill {n} {v.p()})", ("list", v.ty, n))

    def ex_cast(self, e, want):
        to = e[2]
        if isinstance(to, tuple) and to[0] == "ptr":
            v = self.ex(e[1], None)
            if v.ptr is None:
                raise TranslateError("cast to a pointer of something that is not a tracked pointer")
            return V(v.t, ("ptr", self.parser_ty(to[1])), ptr=v.ptr)
        to = self.parser_ty(to)
        src_want = None
        if e[1][0] == "lit" and e[1][2] is None:
            src_want = "i32" if to in BITS else to
            if to in BITS and e[1][1] >= (1 << 31):
                src_want = to
        v = self.ex(e[1], src_want)
        return self.cast(v, to)

    def cast(self, v, to):
        frm = v.ty
        if frm == to:
            return v
        if frm == "usize" and to in BITS:
            if v.const is None:
                return V(f"({LEAN_TY[to]}.ofNat {v.p()})", to)
            return lit(v.const, to)
        if frm in BITS and to == "usize":
            if v.const is not None:
                c = v.const - (1 << BITS[frm]) if (frm in SIGNED and v.const >> (BITS[frm] - 1)) else v.const
                if c < 0:
                    raise TranslateError("negative constant cast to usize")
                return lit(c, "usize")
            if frm in SIGNED:
                raise TranslateError("signed -> usize cast of a run-time value")
            return V(f"{v.p()}.toNat", "usize")
        if frm in BITS and to in BITS:
            fb, tb = BITS[frm], BITS[to]
            if v.const is not None:
                c = v.const
                if tb > fb and frm in SIGNED and (c >> (fb - 1)) & 1:
                    c |= ((1 << tb) - 1) ^ ((1 << fb) - 1)
                return lit(c, to)
            if fb == tb:
                return V(v.t, to)
            if tb < fb:
                return V(f"{v.p()}.to{LEAN_TY[to]}", to)
            if frm in SIGNED:
                f = {(32, 64): "sext32to64", (8, 32): "sext8to32"}.get((fb, tb))
                if f is None:
                    raise TranslateError(f"sign extension {frm} -> {to} is not supported")
                return V(f"({f} {v.p()})", to)
            return V(f"{v.p()}.to{LEAN_TY[to]}", to)
        raise TranslateError(f"unsupported cast {frm} -> {to}")

    def ex_bin(self, e, want):
        op = e[1]
        if op in ("==", "!=", "<", ">", "<=", ">=", "&&", "||"):
            c = self.cond(e)
            return V(f"(decide ({c.t}))", "bool", c.const) if c.const is None else lit(c.const, "bool")
        le, re_ = e[2], e[3]

        def untyped(x):
            return x[0] == "lit" and x[2] is None
        if op in ("<<", ">>"):
            l = self.ex(le, want)
            r = self.ex(re_, "usize" if untyped(re_) else None)
        elif untyped(le) and not untyped(re_):
            r = self.ex(re_, want)
            l = self.ex(le, r.ty)
        else:
            l = self.ex(le, want)
            r = self.ex(re_, l.ty)
        if op in ("<<", ">>"):
            if r.const is None:
                raise TranslateError("shift by a run-time count")
            n = r.const
            if l.ty == "usize":
                if l.const is None:
                    raise TranslateError("shift of a run-time usize")
                return lit(l.const << n if op == "<<" else l.const >> n, "usize")
            if not is_word(l.ty) or n >= BITS[l.ty]:
                raise TranslateError("shift count out of range (rustc rejects it / overflow panic)")
            if l.const is not None:
                if l.ty in SIGNED:
                    raise TranslateError("shift of a signed constant")
                return lit((l.const << n) if op == "<<" else (l.const >> n), l.ty)
            if l.ty in SIGNED:
                raise TranslateError("shift of a signed run-time value")
            return V(f"({l.p()} {'<<<' if op == '<<' else '>>>'} {n})", l.ty)
        if not same_ty(l.ty, r.ty):
            raise TranslateError(f"operands of `{op}` have different types {l.ty} / {r.ty}")
        ty = l.ty
        if ty == "usize":
            if l.const is not None and r.const is not None:
                if op == "-" and r.const > l.const:
                    raise TranslateError("constant subtraction underflows")
                if op == "/" and r.const == 0:
                    raise TranslateError("division by zero")
                val = {"+": l.const + r.const, "-": l.const - r.const, "*": l.const * r.const, "/": l.const // max(r.const, 1),
                       "%": l.const % max(r.const, 1), "&": l.const & r.const, "|": l.const | r.const, "^": l.const ^ r.const}[op]
                return lit(val, "usize")
            if op in ("+", "*"):
                if op == "+" and r.const == 0:
                    return V(f"({l.p()} + 0)", "usize")
                return V(f"({l.p()} {op} {r.p()})", "usize")
            if op in ("/", "%"):
                if r.const is None or r.const == 0:
                    raise TranslateError("division by a run-time / zero divisor")
                return V(f"({l.p()} {op} {r.p()})", "usize")
            raise TranslateError(f"`{op}` on run-time usize values is not supported")
        if is_word(ty):
            if op in ("^", "&", "|"):
                if l.const is not None and r.const is not None:
                    return lit({"^": l.const ^ r.const, "&": l.const & r.const, "|": l.const | r.const}[op], ty)
                lop = {"^": "^^^", "&": "&&&", "|": "|||"}[op]
                return V(f"({l.p()} {lop} {r.p()})", ty)
            if op in ("+", "-", "*") and l.const is not None and r.const is not None:
                def sv(c):
                    return c - (1 << BITS[ty]) if (ty in SIGNED and c >> (BITS[ty] - 1)) else c
                a, b = sv(l.const), sv(r.const)
                val = {"+": a + b, "-": a - b, "*": a * b}[op]
                lo_, hi_ = (-(1 << (BITS[ty] - 1)), (1 << (BITS[ty] - 1))) if ty in SIGNED else (0, 1 << BITS[ty])
                if val < lo_ or val >= hi_:
                    raise TranslateError("constant arithmetic overflows")
                return lit(val, ty)
            raise TranslateError(f"checked `{op}` on machine words is refused (use wrapping_* in the source)")
        raise TranslateError(f"`{op}` on values of type {ty}")

    # ---- conditions: a V of type bool whose text is a decidable Prop
    def cond(self, e):
        k = e[0]
        if k == "paren":
            return self.cond(e[1])
        if k == "bin" and e[1] in ("&&", "||"):
            a = self.cond(e[2])
            if a.const is not None and a.const == (e[1] == "||"):
                return a                                        # decided by the left operand: the right one is not evaluated
            n0, f0 = len(self.lines), self.nfail
            b = self.cond(e[3])
            if len(self.lines) != n0 or self.nfail != f0:
                # `a && b` evaluates b only if a holds; rendered `a ∧ b` both are evaluated: faithful only if b cannot fail / has no effect
                raise TranslateError(f"right operand of `{e[1]}` can fail or has an effect: short-circuit evaluation is not modelled")
            if a.const is not None and b.const is not None:
                c = (a.const and b.const) if e[1] == "&&" else (a.const or b.const)
                return V("True" if c else "False", "bool", c)
            return V(f"({a.t}) {'∧' if e[1] == '&&' else '∨'} ({b.t})", "bool")
        if k == "bin" and e[1] in ("==", "!=", "<", ">", "<=", ">="):
            lhs_lit = e[2][0] == "lit" and e[2][2] is None
            if lhs_lit:
                r = self.ex(e[3], None); l = self.ex(e[2], r.ty)
            else:
                l = self.ex(e[2], None); r = self.ex(e[3], l.ty)
            if not same_ty(l.ty, r.ty):
                raise TranslateError("comparison of different types")
            if l.ty in SIGNED:
                raise TranslateError("comparison of signed values")
            op = e[1]
            if l.const is not None and r.const is not None:
                c = {"==": l.const == r.const, "!=": l.const != r.const, "<": l.const < r.const, ">": l.const > r.const,
                     "<=": l.const <= r.const, ">=": l.const >= r.const}[op]
                return V("True" if c else "False", "bool", c)
            if op in ("<", ">", "<=", ">=") and not (l.ty == "usize" or is_word(l.ty)):
                raise TranslateError("ordering of non-integers")
            lop = {"==": "=", "!=": "≠", "<": "<", ">": ">", "<=": "≤", ">=": "≥"}[op]
            return V(f"{l.p()} {lop} {r.p()}", "bool")
        if k == "not":
            a = self.cond(e[1])
            return V(f"¬ ({a.t})", "bool", None if a.const is None else (not a.const))
        v = self.ex(e, "bool")
        if v.ty != "bool":
            raise TranslateError("condition is not a bool")
        if v.const is not None:
            return V("True" if v.const else "False", "bool", v.const)
        return V(f"{v.p()} = true", "bool")

    # ---- indexing / fields
    def ex_field(self, e, want):
        p = self.place_of(e)
        if p is not None:
            v = self.lookup_opt(p)
            if v is not None:
                if v.t is None:
                    raise TranslateError(f"{p} read before initialisation")
                return v
        b = self.ex(e[1], None)
        f = e[2]
        if isinstance(b.ty, tuple) and b.ty[0] == "struct":
            fields = dict(self.prog.structs[b.ty[1]][2])
            return V(f"{b.p()}.{f}", fields[f])
        if isinstance(b.ty, tuple) and b.ty[0] == "tuple" and f.isdigit():
            return self.destructure(b, [f"t{i}" for i in range(len(b.ty[1]))])[int(f)]
        if f == "0" and isinstance(b.ty, tuple) and b.ty[0] in ("list", "sarr"):
            return b
        raise TranslateError(f"field {f} of a value of type {b.ty}")

    def ex_index(self, e, want):
        b = self.ex(e[1], None)
        ix = e[2]
        if ix[0] == "range":
            return self.slice(b, ix)
        if isinstance(b.ty, tuple) and b.ty[0] == "sarr":
            i = self.ex(ix, "usize")
            if i.const is None or i.const >= len(b.ty[2]):
                raise TranslateError("index into a fixed structure array must be a literal in range")
            return V(f"{b.p()}.{b.ty[2][i.const]}", b.ty[3])
        if isinstance(b.ty, tuple) and b.ty[0] == "list":
            i = self.ex(ix, "usize")
            if i.ty != "usize":
                raise TranslateError("index is not a usize")
            return self.bind("x", f"Glue.index {b.p()} {i.p()}", b.ty[1], mode="option", err="PANIC")
        raise TranslateError(f"indexing a value of type {b.ty}")

    def slice(self, b, rng):
        if not (isinstance(b.ty, tuple) and b.ty[0] == "list"):
            raise TranslateError("slicing a non-slice")
        if len(rng) > 3 and rng[3] == "..=":
            raise TranslateError("inclusive ranges are not supported")
        lo = self.ex(rng[1], "usize") if rng[1] is not None else lit(0, "usize")
        if rng[2] is not None:
            hi = self.ex(rng[2], "usize")
            n = hi.const - lo.const if (hi.const is not None and lo.const is not None and hi.const >= lo.const) else None
        else:
            hi = V(f"{b.p()}.length", "usize")
            n = None
        return self.bind("sl", f"Glue.slice {b.p()} {lo.p()} {hi.p()}", ("list", b.ty[1], n), mode="option", err="PANIC")

    # ---- control expressions
    def ex_if(self, e, want):
        v = self.if_(e, want, need_value=True)
        return v

    def ex_match(self, e, want):
        return self.if_(self.match_to_if(e), want, need_value=True)

    def match_to_if(self, e):
        scrut, arms = e[1], e[2]
        out = None
        for pat, body in reversed(arms):
            if pat is None:
                out = body
            else:
                if out is None:
                    raise TranslateError("match without a `_` arm")
                test = None
                for alt in (pat[1] if pat[0] == "orpat" else [pat]):       # or-pattern `p | q`: scrut == p || scrut == q
                    t1 = ("bin", "==", scrut, alt)
                    test = t1 if test is None else ("bin", "||", test, t1)
                out = [("ret", ("if", test, body, out))]
        if out is None or (len(out) == 1 and out[0][0] == "ret" and out[0][1][0] != "if"):
            raise TranslateError("unsupported match")
        return out[0][1]

    def ex_macro(self, e, want):
        v = self.macro(e, want)
        if v is None:
            return V("()", "unit")
        return v

    def ex_struct(self, e, want):
        name = e[1]
        if name == "Self":
            name = self.k.self_ty
        s = self.prog.structs.get(name)
        if s is None or s[0] != "struct":
            raise TranslateError(f"struct literal of unknown struct {name}")
        given = dict(e[2])
        if set(given) != {f for f, _ in s[2]} or len(e[2]) != len(s[2]):
            raise TranslateError(f"struct literal {name}: field list differs from the declaration")
        vals = {f: self.let_(f, (vv := self.ex(given[f], fty)).t, vv.ty) for f, fty in s[2] for _ in [0]}
        for f, fty in s[2]:
            if not same_ty(vals[f].ty, fty):
                raise TranslateError(f"struct literal {name}.{f}: wrong type")
        return V(f"(⟨{', '.join(vals[f].t for f, _ in s[2])}⟩ : {s[1]})", ("struct", s[1]))

    def ex_array(self, e, want):
        ew = want[1] if (isinstance(want, tuple) and want[0] == "list") else None
        vs = [self.ex(x, ew) for x in e[1]]
        if not vs:
            raise TranslateError("empty array literal")
        return V("[" + ", ".join(v.t for v in vs) + "]", ("list", vs[0].ty, len(vs)))

    # ---- calls
    def ex_call(self, e, want):
        f = e[1]
        if f[0] != "path":
            raise TranslateError("call of a computed function")
        if len(f) > 2:
            raise TranslateError(f"call of `{f[2]}`: generic arguments select the callee; not translated")
        name = f[1]
        lv = self.lookup_opt(name) if "::" not in name else None
        if lv is not None and lv.ty == "fnname":
            name = lv.fn
        args = e[2]
        short = name.split("::")[-1]
        if short in INTR and name == short:
            return self.intrinsic(short, args)
        if short in MEM and name == short:
            return self.mem_intrinsic(short, args)
        if name in ("read", "core::ptr::read", "ptr::read"):
            if len(args) != 1:
                raise TranslateError("read arity")
            p = self.ex(args[0], None)
            if p.ptr is None or p.ty != ("ptr", "i32"):
                raise TranslateError("`read` is only supported on tracked `*const i32` pointers")
            buf, kind, off = p.ptr
            if kind != "bytes":
                raise TranslateError("`read::<i32>` from a non-byte buffer")
            return self.bind("x", f"read_i32 {self.lookup(buf).p()} {off.p()}", "i32")
        if name == "u32::from_le_bytes":
            a = self.ex(args[0], ("list", "u8", 4))
            if a.ty != ("list", "u8", 4):
                raise TranslateError("u32::from_le_bytes of something that is not a [u8; 4]")
            return V(f"(leU32 {a.p()})", "u32")
        sname = self.k.self_ty if name == "Self" else name
        if sname in self.prog.structs and self.prog.structs[sname][0] == "newtype":
            if len(args) != 1:
                raise TranslateError("newtype constructor arity")
            return self.arg_value(args[0], self.prog.structs[sname][1])
        info = self.prog.fns.get((self.k.ns, name))
        if info is not None:
            return self.call_kernel(info, None, args)
        cf = self.const_fn(name, args)
        if cf is not None:
            return cf
        ext = self.prog.externs.get(name)
        if ext is not None:
            return self.call_ext(ext, args)
        raise TranslateError(f"call of unknown function {name}")

    def const_fn(self, name, args):
        """`const fn` of the same file applied to compile-time constants: evaluated by the translator"""
        src = read_src(self.k.file)
        m = re.search(r"\bconst\s+fn\s+" + re.escape(name) + r"\b", src)
        if not m:
            return None
        hdr, body = find_fn(src, name)
        params, ret = parse_sig(hdr)
        if len(params) != len(args):
            raise TranslateError(f"{name}: arity")
        sub = Ex(self.prog, self.k, name + "_const")
        sub.root.macros = {}
        for (pn, pty, _), a in zip(params, args):
            av = self.ex(a, sub.ity(pty))
            if av.const is None:
                raise TranslateError(f"{name}: `const fn` applied to a run-time value")
            sub.env[pn] = av
        v = sub.block(parse_block(body), sub.ity(ret))
        if v is None or v.const is None or sub.lines:
            raise TranslateError(f"{name}: not a compile-time constant")
        return v

    def arg_value(self, a, ty):
        """argument of a function/intrinsic expecting the internal type ty"""
        if isinstance(ty, tuple) and ty[0] == "imm":
            v = self.ex(a, "i32")
            if v.const is None:
                raise TranslateError("an intrinsic immediate must be a compile-time constant")
            c = v.const
            if v.ty in SIGNED and c >> (BITS[v.ty] - 1):
                raise TranslateError(f"negative immediate")
            if c >= (1 << ty[1]):
                raise TranslateError(f"immediate {c} does not fit {ty[1]} bits (rustc rejects it)")
            return V(str(c), "usize", c)
        v = self.ex(a, ty)
        if not same_ty(v.ty, ty):
            raise TranslateError(f"argument of type {v.ty} where {ty} is expected")
        return v

    def intrinsic(self, name, args):
        tys, ret = INTR[name]
        if len(args) != len(tys):
            raise TranslateError(f"{name}: {len(args)} arguments, {len(tys)} expected")
        vs = [self.arg_value(a, t) for a, t in zip(args, tys)]
        return V(f"({name} {' '.join(v.p() for v in vs)})", ret)

    def mem_intrinsic(self, name, args):
        what, vty, names = MEM[name]
        p = self.ex(args[0], None)
        if p.ptr is None or p.ty != ("ptr", vty):
            raise TranslateError(f"{name}: the pointer is not a tracked pointer to the vector type")
        buf, kind, off = p.ptr
        if kind not in names:
            raise TranslateError(f"{name} on a {kind} buffer is not supported")
        bv = self.lookup(buf)
        if what == "load":
            if len(args) != 1:
                raise TranslateError(f"{name}: arity")
            return self.bind("v", f"{names[kind]} {bv.p()} {off.p()}", vty)
        if len(args) != 2:
            raise TranslateError(f"{name}: arity")
        val = self.arg_value(args[1], vty)
        nb = self.bind(buf, f"{names[kind]} {bv.p()} {off.p()} {val.p()}", bv.ty)
        self.assign(buf, nb)
        return V("()", "unit")

    def call_ext(self, ext, args, recv=None):
        if len(args) != len(ext.args):
            raise TranslateError("extern call arity")
        vs, places = [], []
        for a, t in zip(args, ext.args):
            places.append(self.place_of(a))
            vs.append(self.arg_value(a, t))
        text = ext.lean.format(*[v.p() for v in vs])
        out_tys = [ext.args[i] for i in ext.outs] + ([] if ext.ret == "unit" else [ext.ret])
        rty = out_tys[0] if len(out_tys) == 1 else ("tuple", out_tys)
        if not out_tys:
            raise TranslateError("extern without result")
        if ext.mode == "pure":
            r = self.let_("r", text, rty, force=True)
        else:
            r = self.bind("r", text, rty, mode=ext.mode, err=ext.err)
        comps = [r] if len(out_tys) == 1 else self.destructure(r, ["o"] * len(out_tys))
        for i, c in zip(ext.outs, comps):
            if places[i] is None:
                raise TranslateError("`&mut` argument of an extern call is not a variable")
            self.assign(places[i], c)
        return comps[-1] if ext.ret != "unit" else V("()", "unit")

    def call_kernel(self, info, recv, args):
        """call of an already translated kernel function; recv = receiver expression for methods"""
        params = list(info.params)
        actual = ([recv] if recv is not None else []) + list(args)
        if len(actual) != len(params):
            raise TranslateError(f"{info.lean}: arity")
        texts, outs_places, ptr_bufs = [], [], []
        for g in info.generics:
            texts.append(self.generic(g).p())
        for a, (pn, pty, mode) in zip(actual, params):
            if mode in ("ptr", "mutptr"):
                pv = self.ex(a, None)
                if pv.ptr is None or pv.ty != ("ptr", pty[1]):
                    raise TranslateError(f"{info.lean}: pointer argument {pn} is not a tracked pointer of the right type")
                buf, kind, off = pv.ptr
                if kind != pty[2]:
                    raise TranslateError(f"{info.lean}: pointer argument {pn} points into a {kind} buffer, the spec says {pty[2]}")
                texts += [self.lookup(buf).p(), off.p()]
                ptr_bufs.append(buf)
                if mode == "mutptr":
                    outs_places.append(buf)
            else:
                place = self.place_of(a)
                v = self.arg_value(a, pty)
                texts.append(v.p())
                if mode == "mut":
                    if place is None:
                        raise TranslateError(f"{info.lean}: `&mut` argument {pn} is not a variable")
                    outs_places.append(place)
        # the callee's model treats every `&mut` / `*mut` argument as a buffer of its own: two arguments into the SAME object would alias
        for pl in outs_places:
            if outs_places.count(pl) > 1 or ptr_bufs.count(pl) > 1:
                raise TranslateError(f"{info.lean}: the object `{pl.replace('#buf', '')}` is passed twice and written through one of the arguments (aliasing is not modelled)")
        text = f"{info.lean} {' '.join(texts)}".strip()
        out_tys = list(info.outs) + ([] if info.ret == "unit" else [info.ret])
        if not out_tys:
            raise TranslateError(f"{info.lean}: a call without any effect")
        rty = out_tys[0] if len(out_tys) == 1 else ("tuple", out_tys)
        r = self.bind("r", text, rty) if info.fallible else self.let_("r", text, rty, force=True)
        comps = [r] if len(out_tys) == 1 else self.destructure(r, ["o"] * len(out_tys))
        for pl, c in zip(outs_places, comps):
            self.assign(pl, c)
        if info.ret != "unit":
            comps[-1].rty = getattr(info, "ret_rust", None)
        return comps[-1] if info.ret != "unit" else V("()", "unit")

    # ---- methods
    def ex_method(self, e, want):
        recv, name, args = e[1], e[2], e[3]
        if name in ("as_ptr", "as_mut_ptr") and not args:
            place = self.place_of(recv)
            if place is None:
                # a constant table
                b = self.ex(recv, None)
                if b.const is None and not re.fullmatch(r"[\w.]+", b.t):
                    raise TranslateError("as_ptr of a temporary")
                place = "#const#" + b.t
                self.env[place] = b
            b = self.lookup(place)
            if not (isinstance(b.ty, tuple) and b.ty[0] == "list" and b.ty[1] in KIND_OF_ELEM):
                raise TranslateError(f"as_ptr of a value of type {b.ty}")
            return V("<ptr>", ("ptr", b.ty[1]), ptr=(place, KIND_OF_ELEM[b.ty[1]], lit(0, "usize")))
        r = None
        if name == "add" and len(args) == 1:
            r = self.ex(recv, None)
            if r.ptr is not None:
                k = self.ex(args[0], "usize")
                size = SIZES.get({"v128": "__m128i", "v256": "__m256i"}.get(r.ty[1], r.ty[1]))
                if size is None or k.ty != "usize":
                    raise TranslateError("pointer add on an unsupported pointee")
                buf, kind, off = r.ptr
                if k.const is not None and off.const is not None:
                    noff = lit(off.const + k.const * size, "usize")
                else:
                    step = str(k.const * size) if k.const is not None else (k.p() if size == 1 else f"{k.p()} * {size}")
                    noff = V(f"({off.p()} + {step})", "usize")
                return V("<ptr>", r.ty, ptr=(buf, kind, noff))
        if name == "align_offset" and len(args) == 1:
            r = self.ex(recv, None)
            if r.ptr is None:
                raise TranslateError("align_offset of a non-pointer")
            n = self.const_of(args[0])
            off = r.ptr[2]
            if off.const is not None:
                return lit((-off.const) % n, "usize")
            return V(f"(({n} - {off.p()} % {n}) % {n})", "usize")
        if name == "len" and not args:
            b = self.ex(recv, None)
            if isinstance(b.ty, tuple) and b.ty[0] == "list":
                if b.ty[2] is not None and not self.is_slice_param(b):
                    return lit(b.ty[2], "usize")
                return V(f"{b.p()}.length", "usize")
            raise TranslateError("len of a non-slice")
        if name in ("wrapping_add", "wrapping_sub", "wrapping_mul") and len(args) == 1:
            a = self.ex(recv, want if want in BITS else None)
            if not is_word(a.ty) or a.ty in SIGNED:
                raise TranslateError(f"{name} on {a.ty}")
            b = self.arg_value(args[0], a.ty)
            op = {"wrapping_add": "+", "wrapping_sub": "-", "wrapping_mul": "*"}[name]
            return V(f"({a.p()} {op} {b.p()})", a.ty)
        if name == "overflowing_add" and len(args) == 1:
            a = self.ex(recv, None)
            if not is_word(a.ty) or a.ty in SIGNED:
                raise TranslateError(f"{name} on {a.ty}")
            b = self.arg_value(args[0], a.ty)
            s = self.let_("sum", f"{a.p()} + {b.p()}", a.ty, force=True)
            o = self.let_("ovf", f"decide (2 ^ {BITS[a.ty]} ≤ {a.p()}.toNat + {b.p()}.toNat)", "bool", force=True)
            return V(f"({s.t}, {o.t})", ("tuple", [a.ty, "bool"]), items=[s, o])
        if name == "try_into" and not args:
            b = self.ex(recv, None)
            return V(b.t, ("tryinto", b.ty))
        if name == "unwrap" and not args:
            b = self.ex(recv, None)
            if isinstance(b.ty, tuple) and b.ty[0] == "tryinto":
                src = b.ty[1]
                if not (isinstance(want, tuple) and want[0] == "list" and want[2] is not None):
                    raise TranslateError("try_into().unwrap() without a known target array type")
                if not (isinstance(src, tuple) and src[0] == "list" and src[1] == want[1]):
                    raise TranslateError("try_into() between unrelated types")
                if src[2] == want[2]:
                    return V(b.t, want)
                return self.bind("arr", f"Glue.try_array {want[2]} {b.p()}", want, mode="option", err="PANIC")
            raise TranslateError("unwrap of an unsupported value")
        if name == "get_unchecked" and len(args) == 1:
            b = self.ex(recv, None)
            i = self.ex(args[0], "usize")
            if isinstance(b.ty, tuple) and b.ty[0] == "list":
                return self.bind("x", f"Glue.index {b.p()} {i.p()}", b.ty[1], mode="option", err="UB")
            raise TranslateError("get_unchecked on an unsupported value")
        if name == "clone" and not args:
            return self.ex(recv, want)
        # a method of a translated struct
        rv = self.ex(recv, None)
        tyname = self.ty_name(rv.ty, recv)
        info = self.prog.fns.get((self.k.ns, f"{tyname}::{name}")) if tyname else None
        if info is not None:
            return self.call_kernel(info, recv, args)
        raise TranslateError(f"unsupported method .{name}() on a value of type {rv.ty}")

    def is_slice_param(self, b):
        return False

    def ty_name(self, ty, recv_expr):
        if isinstance(ty, tuple) and ty[0] == "struct":
            for rn, s in self.prog.structs.items():
                if s[0] == "struct" and s[1] == ty[1]:
                    return rn
        # newtypes: the declared Rust type of the variable
        p = self.place_of(recv_expr)
        if p is not None:
            return self.root_decl_ty(p)
        return None

    def root_decl_ty(self, place):
        c = self
        while c is not None:
            t = getattr(c, "decl_ty", {}).get(place)
            if t is not None:
                return t
            c = c.parent
        return None

    # ---- macros
    def macro(self, e, want):
        name, args = e[1], e[2]
        if name in ("unreachable", "panic"):
            self.fail()
            self.diverged = True
            return None
        if name in ("assert", "debug_assert"):
            c = self.cond(parse_expr_toks(args[0]))
            if name == "debug_assert":
                # checked only when `debug_assertions` is on: the guard goes through the marker `debugAssert` (Util/DebugAssert.lean:
                # the same proposition, i.e. the meaning under a debug build), also when the condition is a constant, so that
                # `assert!` <-> `debug_assert!` always changes the generated text
                self.guard(f"debugAssert ({c.t})", "PANIC")
                return None
            if c.const is True:
                return None
            if c.const is False:
                self.fail(); self.diverged = True
                return None
            self.guard(c.t, "PANIC")
            return None
        mdef = self.root.macros.get(name)
        if mdef is None:
            raise TranslateError(f"unknown macro {name}!")
        params, body, prefix = mdef
        if len(params) != len(args):
            raise TranslateError(f"macro {name}: arity")
        static, runtime = [], []          # runtime: (param name, ast, toks)
        subst = {}
        for (pn, frag), toks in zip(params, args):
            if not re.search(r"\$" + re.escape(pn) + r"\b", body):
                continue
            txt = untok(toks)
            if len(toks) == 1 and toks[0][0] == "int" or (len(toks) == 2 and toks[0][1] == "-" and toks[1][0] == "int"):
                static.append(re.sub(r"\W", "m", txt)); subst[pn] = f"({txt})" if txt.startswith("-") else txt
                continue
            if len(toks) == 1 and toks[0][0] == "id":
                lv = self.lookup_opt(toks[0][1])
                if lv is None and (((self.k.ns, toks[0][1]) in self.prog.fns) or toks[0][1] in self.prog.externs):
                    static.append(toks[0][1]); subst[pn] = toks[0][1]
                    continue
                if lv is not None and lv.ty == "fnname":
                    static.append(lv.fn); subst[pn] = lv.fn
                    continue
            runtime.append((pn, parse_expr_toks(toks), toks))
            subst[pn] = "__p_" + pn
        argvals = [(pn, self.place_of(ast), self.ex(ast, None), toks) for pn, ast, toks in runtime]
        for pn, pl, av, _ in argvals:
            if av.ptr is not None:
                raise TranslateError(f"macro {name}: pointer argument")
        lean = prefix + name + "".join("_" + s for s in static) + "_src"
        key = (self.k.ns, self.k.file, lean, tuple(repr(av.ty) for _, _, av, _ in argvals))
        inst = self.prog.memo.get(key)
        if inst is None:
            text = body
            for pn in sorted(subst, key=lambda x: -len(x)):
                text = re.sub(r"\$" + re.escape(pn) + r"\b", subst[pn], text)
            if "$" in text:
                raise TranslateError(f"macro {name}: unsubstituted metavariable")
            sub = Ex(self.prog, self.k, lean, parent=self)
            for pn, pl, av, _ in argvals:
                pv = sub.add_param(pn, av.ty)
                sub.env["__p_" + pn] = pv
                sub.param_places["__p_" + pn] = pv
            val = sub.block(parse_block(strip_uses(text)), None)
            inst = sub.finish_sub(val, f"`{name}!` ({'local to `' + prefix[:-1] + '`' if prefix else 'file level'})"
                                  + (f" specialised to {', '.join(static)}" if static else ""))
            self.prog.memo[key] = inst
        # --- the call
        texts = [av.p() for _, _, av, _ in argvals]
        for place, ty in inst.captures:
            cv = self.generic(place[9:]) if place.startswith("#generic#") else self.lookup(place)
            if isinstance(cv.ty, tuple) and cv.ty[0] == "struct":
                cv = self.whole(place)
            if not same_ty(cv.ty, ty):
                raise TranslateError(f"macro {name}: captured variable {place} has type {cv.ty} here, {ty} at the first use")
            texts.append(cv.p())
        written_names = set()
        for o in inst.outs:
            if o[0] == "param":
                pl = argvals[o[1]][1]
                if pl is None:
                    raise TranslateError(f"macro {name}: assigns its parameter ${argvals[o[1]][0]} but the argument is not a variable")
                written_names.add(pl.split(".")[0])
            else:
                written_names.add(o[1].split(".")[0])
        written_places = [argvals[o[1]][1] if o[0] == "param" else o[1] for o in inst.outs]
        for i, (pn, pl, av, toks) in enumerate(argvals):
            if pl is None or not any(o[:2] == ("param", i) for o in inst.outs):
                ids = {t[1] for t in toks if t[0] == "id"}
                if pl is not None:
                    # a place argument the macro only READS is passed by value (evaluated before the body): not what the textual
                    # expansion does if the body assigns the same place (or a part / the whole of it) through another name
                    if any(w == pl or w.startswith(pl + ".") or pl.startswith(w + ".") for w in written_places):
                        raise TranslateError(f"macro {name}: argument `{untok(toks)}` is read by the macro and also assigned by it under another name")
                if ids & written_names and pl is None:
                    raise TranslateError(f"macro {name}: argument `{untok(toks)}` mentions a variable the macro assigns")
        call = f"{inst.lean} {' '.join(texts)}".strip()
        out_tys = [t for _, _, t in inst.outs] + ([] if inst.ret == "unit" else [inst.ret])
        if not out_tys:
            if inst.fallible:
                self.bind("u", call, "unit")
            return None
        rty = out_tys[0] if len(out_tys) == 1 else ("tuple", out_tys)
        r = self.bind("r", call, rty) if inst.fallible else self.let_("r", call, rty, force=True)
        bases = [(argvals[o[1]][1] if o[0] == "param" else o[1]) for o in inst.outs] + (["val"] if inst.ret != "unit" else [])
        comps = [r] if len(out_tys) == 1 else self.destructure(r, bases)
        for o, c in zip(inst.outs, comps):
            self.assign(argvals[o[1]][1] if o[0] == "param" else o[1], c)
        return comps[-1] if inst.ret != "unit" else None

    def finish_sub(self, val, what):
        """close a macro function: parameters, then captured variables; returns the written parameters, the written captured
        variables, then the value"""
        if getattr(self, "diverged", False):
            raise TranslateError("a macro body that always panics")
        outs, finals = [], []
        pnames = list(self.param_places)
        for pl in pnames:
            if pl in self.written:
                v = self.lookup(pl)
                outs.append(("param", pnames.index(pl), v.ty)); finals.append(v.t)
        caps_sorted = self.sorted_captures()
        for pl in caps_sorted:
            if pl in self.written:
                v = self.whole(pl) if not pl.startswith("#") else self.lookup(pl)
                outs.append(("capture", pl, v.ty)); finals.append(v.t)
        ret = "unit"
        if val is not None and val.ty != "unit":
            ret = val.ty
            finals.append(val.t)
        res = finals[0] if len(finals) == 1 else "(" + ", ".join(finals) + ")"
        out_tys = [t for _, _, t in outs] + ([] if ret == "unit" else [ret])
        rty = "Unit" if not out_tys else (lty(out_tys[0], self.prog) if len(out_tys) == 1 else lty(("tuple", out_tys), self.prog))
        if not finals:
            res = "()"
        fall = self.any_fallible
        allp = list(self.params) + [(self.captures[pl].t, lty(self.captures[pl].ty, self.prog)) for pl in caps_sorted]
        sig = " ".join(f"({n} : {t})" for n, t in allp)
        body = "\n".join(self.lines + [f"{self.ind}{'.ok ' + par(res) if fall else res}"])
        rtxt = f"Except String {par_ty(rty)}" if fall else rty
        names = ", ".join([("$" + pnames[o[1]][4:]) if o[0] == "param" else o[1] for o in outs] + (["value"] if ret != "unit" else []))
        self.root.aux.append(f"/-- macro {what} of `{self.k.fn}` — GENERATED from {self.k.file}; result: ({names}) -/\n"
                             f"def {self.name} {sig} : {rtxt} :=\n{body}\n")
        caps = [(pl, self.captures[pl].ty) for pl in caps_sorted]
        return MacroInst(self.name, None, caps, outs, ret, fall)

    # ---- if / match joins
    def if_(self, e, want, need_value):
        c = self.cond(e[1])
        then_b, else_b = e[2], (e[3] or [])
        if c.const is not None:
            return self.block(then_b if c.const else else_b, want)
        base_env = self.env
        results = []
        for stmts in (then_b, else_b):
            saved = (self.lines, self.fallible, self.ind)
            self.lines, self.fallible, self.ind = [], False, self.ind + "    "
            self.env = dict(base_env)
            self.diverged = False
            val = self.block(stmts, want)
            results.append((self.lines, self.fallible, self.env, val, self.diverged))
            self.lines, self.fallible, self.ind = saved
        self.env = base_env
        self.diverged = False
        live = [r for r in results if not r[4]]
        if not live:
            self.fail(); self.diverged = True
            return None

        def base(p):
            return base_env.get(p) or self.captures.get(p)
        changed = []
        for r in live:
            for p, v in r[2].items():
                b = base(p)
                if b is not None and v is not b and p not in changed and not p.startswith("#const#"):
                    if v.ptr is not None or (b.t == v.t):
                        continue
                    changed.append(p)
        vals = [r[3] for r in live]
        has_val = need_value and all(v is not None and v.ty != "unit" for v in vals)
        if need_value and not has_val and any(v is not None and v.ty != "unit" for v in vals):
            raise TranslateError("if/else branches disagree on having a value")
        if has_val and any(not same_ty(v.ty, vals[0].ty) for v in vals):
            raise TranslateError("if/else branches have different types")
        comp_tys = [base(p).ty for p in changed] + ([vals[0].ty] if has_val else [])
        any_fall = any(r[1] or r[4] for r in results)
        if not comp_tys:
            if not any_fall:
                return None
            comp_tys = ["unit"]
        rty = comp_tys[0] if len(comp_tys) == 1 else ("tuple", comp_tys)
        terms = []
        for lines, fall, env, val, div in results:
            if div:
                fin = '.error "PANIC"'
            else:
                comps = [(env.get(p) or base(p)).t for p in changed] + ([val.t] if has_val else [])
                if not comps:
                    comps = ["()"]
                res = comps[0] if len(comps) == 1 else "(" + ", ".join(comps) + ")"
                fin = f".ok {par(res)}" if any_fall else res
            terms.append((lines, fin))
        ind2 = self.ind + "    "
        if all(not t[0] for t in terms):
            text = f"if {c.t} then {terms[0][1]} else {terms[1][1]}"
        else:
            def blk(t):
                ls = [l for l in t[0]] + [ind2 + t[1]]
                ls[0] = ind2[:-1] + "(" + ls[0].lstrip() if False else ls[0]
                return "(\n" + "\n".join(ls) + ")"
            text = f"if {c.t} then {blk(terms[0])}\n{self.ind}  else {blk(terms[1])}"
        base_names = changed + (["val"] if has_val else [])
        if not base_names:
            base_names = ["u"]
        if any_fall:
            r = self.bind("j", f"(({text}) : Except String {par_ty(lty(rty, self.prog))})", rty)
            # `match (if …) with`
        else:
            r = self.let_("j", text, rty, force=True)
        comps = [r] if len(comp_tys) == 1 else self.destructure(r, base_names)
        for p, cv in zip(changed, comps):
            self.assign(p, cv)
        return comps[-1] if has_val else None

    # ---- statements
    def block(self, stmts, want=None, scoped=True):
        scope = {}
        stack = self.__dict__.setdefault("scopes", [])
        stack.append(scope)
        val = None
        for i, s in enumerate(stmts):
            if getattr(self, "diverged", False):
                break
            val = self.stmt(s, want if i == len(stmts) - 1 else None)
        stack.pop()
        if not scoped:
            return val
        for name, (old, was_local) in scope.items():
            for key in [k2 for k2 in self.env if k2 == name or k2.startswith(name + ".")]:
                del self.env[key]
            if old is not None:
                self.env[name] = old
            if not was_local:
                self.locals.discard(name)
        return val

    def declare_local(self, name, v, rty=None):
        scope = self.scopes[-1]
        if name not in scope:
            scope[name] = (self.env.get(name), name in self.locals)
        for key in [k2 for k2 in self.env if k2.startswith(name + ".")]:
            del self.env[key]
        self.declare(name, v)
        if rty is not None:
            self.__dict__.setdefault("decl_ty", {})[name] = rty

    def bind_pattern(self, pat, v):
        if pat[0] == "var":
            if pat[1] == "_":
                return
            if v.ptr is not None or v.ty == "fnname":
                if v.ptr is not None and v.ptr[0] == pat[1]:
                    # `let x = x.as_ptr();` shadows the buffer the pointer points into: keep the buffer under a hidden name
                    hidden = pat[1] + "#buf"
                    self.env[hidden] = self.lookup(pat[1])
                    v = V(v.t, v.ty, ptr=(hidden, v.ptr[1], v.ptr[2]))
                self.declare_local(pat[1], v)
                return
            nv = self.let_(pat[1], v.t, v.ty, v.const, force=not re.fullmatch(r"[\w']+", v.t) or v.const is not None and v.ty != "usize")
            if v.const is not None and v.ty == "usize":
                nv = v
            self.declare_local(pat[1], nv, getattr(v, "rty", None))
            return
        if pat[0] == "tuple":
            if not (isinstance(v.ty, tuple) and v.ty[0] == "tuple" and len(v.ty[1]) == len(pat[1])):
                raise TranslateError("tuple pattern against a non-tuple")
            comps = self.destructure(v, [p[1] if p[0] == "var" and p[1] != "_" else "t" for p in pat[1]])
            for p, c in zip(pat[1], comps):
                if p[0] == "var":
                    if p[1] != "_":
                        self.declare_local(p[1], c)
                else:
                    self.bind_pattern(p, c)
            return
        raise TranslateError("unsupported pattern")

    def stmt(self, s, want):
        k = s[0]
        if k == "let":
            pat, ty, init = s[1], s[2], s[3]
            if len(s) > 4:
                raise TranslateError("`let x = &mut <place>` / `&mut *p` creates a mutable alias: writes through it would be lost (not translated)")
            dty = self.parser_ty(ty) if ty is not None else None
            if init is None:
                names = [pat] if pat[0] == "var" else pat[1]
                for p in names:
                    if p[0] != "var":
                        raise TranslateError("unsupported declaration pattern")
                    self.declare_local(p[1], V(None, dty))
                return None
            v = self.ex(init, dty)
            if dty is not None and not (v.ptr is not None) and not same_ty(v.ty, dty):
                raise TranslateError(f"let: declared type {dty}, initialiser of type {v.ty}")
            self.bind_pattern(pat, v)
            return None
        if k == "assign":
            return self.assign_stmt(s)
        if k == "expr":
            e = s[1]
            if e[0] == "if":
                self.if_(e, None, need_value=False)
            elif e[0] == "match":
                self.if_(self.match_to_if(e), None, need_value=False)
            elif e[0] == "macro":
                self.macro(e, None)
            elif e[0] == "blockexpr":
                self.block(e[1], None)
            elif e[0] in ("call", "method"):
                self.ex(e, None)
            else:
                raise TranslateError(f"expression statement without effect: {e[0]}")
            return None
        if k == "ret":
            e = s[1]
            if e[0] == "macro":
                return self.macro(e, want)
            if e[0] == "if":
                return self.if_(e, want, need_value=True)
            if e[0] == "match":
                return self.if_(self.match_to_if(e), want, need_value=True)
            return self.ex(e, want)
        if k == "for":
            return self.for_(s)
        if k == "while":
            return self.while_(s)
        if k == "return":
            raise TranslateError("`return` before the end of the function (early return) is not translated")
        if k == "fnitem":
            raise TranslateError(f"nested `fn {s[1]}` inside a translated body (it would shadow the function a call is resolved to)")
        raise TranslateError(f"unsupported statement {k}")

    def assign_stmt(self, s):
        lhs, op, rhs = s[1], s[2], s[3]
        if len(s) > 4:
            raise TranslateError("`p = &mut <place>` creates a mutable alias: writes through it would be lost (not translated)")
        if op != "=":
            rhs = ("bin", op[:-1], lhs, rhs)
        while lhs[0] in ("paren", "deref"):
            lhs = lhs[1]
        if lhs[0] == "index":
            bp = self.place_of(lhs[1])
            if bp is None:
                raise TranslateError("assignment into an element of a temporary")
            b = self.lookup(bp)
            if isinstance(b.ty, tuple) and b.ty[0] == "sarr":
                i = self.ex(lhs[2], "usize")
                if i.const is None or i.const >= len(b.ty[2]):
                    raise TranslateError("index into a fixed structure array must be a literal in range")
                v = self.arg_value(rhs, b.ty[3])
                nv = self.let_(bp, f"{{ {b.t} with {b.ty[2][i.const]} := {v.t} }}", b.ty, force=True)
                self.assign(bp, nv)
                return None
            if isinstance(b.ty, tuple) and b.ty[0] == "list":
                i = self.ex(lhs[2], "usize")
                v = self.arg_value(rhs, b.ty[1])
                nv = self.bind(bp, f"Glue.set_index {b.p()} {i.p()} {v.p()}", b.ty, mode="option", err="PANIC")
                self.assign(bp, nv)
                return None
            raise TranslateError("element assignment on an unsupported value")
        p = self.place_of(lhs)
        if p is None:
            raise TranslateError("unsupported assignment target")
        cur = self.lookup_opt(p)
        if cur is None:
            raise TranslateError(f"assignment to unknown variable {p}")
        v = self.ex(rhs, cur.ty)
        if v.ptr is not None:
            self.assign(p, v)
            return None
        if cur.ty is not None and not same_ty(v.ty, cur.ty):
            raise TranslateError(f"assignment of a {v.ty} to {p} : {cur.ty}")
        nv = self.let_(p, v.t, v.ty, None, force=True)
        self.assign(p, nv)
        return None

    # ---- loops
    def loop_sub(self, kindname):
        root = self.root
        root.loop_no += 1
        name = f"{self.k.lean_name[:-4] if self.k.lean_name.endswith('_src') else self.k.lean_name}_loop{root.loop_no}_src"
        return Ex(self.prog, self.k, name, parent=self)

    def for_(self, s):
        pat, it, body = s[1], s[2], s[3]
        if pat != ("var", "_") and pat != "_":
            raise TranslateError("only `for _ in 0..n` loops are supported")
        if it[0] == "paren":
            it = it[1]
        if it[0] != "range" or len(it) < 4 or it[3] != ".." or it[1] is None or it[2] is None:
            raise TranslateError("unsupported `for` iterator")
        lo = self.ex(it[1], "usize")
        if lo.const != 0:
            raise TranslateError("`for` ranges must start at 0")
        n = self.ex(it[2], "usize")
        sub = self.loop_sub("for")
        sub.ind = "    "
        val = sub.block(body, None)
        if val is not None and val.ty != "unit":
            raise TranslateError("loop body with a value")
        if getattr(sub, "diverged", False):
            raise TranslateError("loop body that always panics")
        self.emit_loop(sub, n.p(), None)
        return None

    def while_(self, s):
        c, body = s[1], s[2]
        root = self.root
        if root.while_no >= len(self.k.fuel):
            raise TranslateError("`while` loop without a fuel expression in the spec")
        fuel_txt = self.k.fuel[root.while_no]
        root.while_no += 1
        fuel = self.ex(parse_expr_toks(lex(fuel_txt)), "usize")
        sub = self.loop_sub("while")
        sub.ind = "      "
        cv = sub.cond(c)
        if sub.lines:
            raise TranslateError("`while` condition with effects")
        val = sub.block(body, None)
        if val is not None and val.ty != "unit":
            raise TranslateError("loop body with a value")
        if getattr(sub, "diverged", False):
            raise TranslateError("loop body that always panics")
        self.emit_loop(sub, fuel.p(), cv)
        return None

    def emit_loop(self, sub, count_text, cv):
        order = {pl: i for i, pl in enumerate(self.env)}
        state = sorted([pl for pl in sub.captures if pl in sub.written], key=lambda pl: order.get(pl, 1 << 30))
        ro = [pl for pl in sub.sorted_captures() if pl not in sub.written]
        if not state:
            raise TranslateError("loop without effect")
        st_params = [sub.captures[pl] for pl in state]
        st_tys = [v.ty for v in st_params]
        sty = lty(st_tys[0], self.prog) if len(state) == 1 else lty(("tuple", st_tys), self.prog)
        finals = [(sub.whole(pl) if not pl.startswith("#") else sub.lookup(pl)).t for pl in state]
        newst = finals[0] if len(finals) == 1 else "(" + ", ".join(finals) + ")"
        pat = st_params[0].t if len(state) == 1 else "(" + ", ".join(v.t for v in st_params) + ")"
        ro_sig = " ".join(f"({sub.captures[pl].t} : {lty(sub.captures[pl].ty, self.prog)})" for pl in ro)
        ro_args = " ".join(sub.captures[pl].t for pl in ro)
        fall = sub.any_fallible or cv is not None
        rt = f"Except String {par_ty(sty)}" if fall else sty
        head = f"def {sub.name} {ro_sig} : Nat → {par_ty(sty)} → {rt}".replace("  ", " ")
        rec = f"{sub.name} {ro_args}".strip()
        if cv is None:
            lines = [head,
                     f"  | 0, st => {'.ok st' if fall else 'st'}",
                     "  | n + 1, st =>",
                     "    match st with",
                     f"    | {pat} =>"] + sub.lines + [f"    {rec} n {par(newst)}"]
            what = "`for` loop"
        else:
            lines = [head,
                     "  | 0, st =>",
                     "    match st with",
                     f"    | {pat} => if {cv.t} then .error \"DIVERGE\" else .ok st",
                     "  | fuel + 1, st =>",
                     "    match st with",
                     f"    | {pat} =>",
                     f"    if {cv.t} then ("] + sub.lines + [f"      {rec} fuel {par(newst)})", "    else .ok st"]
            what = f"`while` loop (fuel: the value of `{count_text}` at loop entry)"
        self.root.aux.append(f"/-- {what} of `{self.k.fn}` on the assigned variables ({', '.join(state)}) — GENERATED from {self.k.file} -/\n"
                             + "\n".join(lines) + "\n")
        # the call
        cur = []
        for pl in state:
            cvv = self.generic(pl[9:]) if pl.startswith("#generic#") else self.lookup(pl)
            if isinstance(cvv.ty, tuple) and cvv.ty[0] == "struct":
                cvv = self.whole(pl)
            cur.append(cvv)
        ro_vals = []
        for pl in ro:
            cvv = self.generic(pl[9:]) if pl.startswith("#generic#") else self.lookup(pl)
            if isinstance(cvv.ty, tuple) and cvv.ty[0] == "struct":
                cvv = self.whole(pl)
            ro_vals.append(cvv.p())
        init = cur[0].t if len(cur) == 1 else "(" + ", ".join(v.t for v in cur) + ")"
        call = f"{sub.name} {' '.join(ro_vals)} {count_text} {par(init)}".replace("  ", " ")
        rty = st_tys[0] if len(state) == 1 else ("tuple", st_tys)
        r = self.bind("st", call, rty) if fall else self.let_("st", call, rty, force=True)
        comps = [r] if len(state) == 1 else self.destructure(r, state)
        for pl, c2 in zip(state, comps):
            self.assign(pl, c2)


def par_ty(t):
    return f"({t})" if " " in t else t


# ------------------------------------------------------------------------------------------------------ kernels

def ns_wrap(k, text):
    if not k.ns:
        return text
    return f"namespace {k.ns}\n\n{text}\nend {k.ns}\n"


def blank_fn_bodies(src):
    """the file with every `fn … { body }` body removed (what is left: items, file-level macros, impl headers)"""
    out, pos = [], 0
    for m in re.finditer(r"\bfn\s+\w+", src):
        if m.start() < pos:
            continue
        depth, j = 0, m.end()
        body_open = None
        while j < len(src):
            c = src[j]
            if c in "([":
                depth += 1
            elif c in ")]":
                depth -= 1
            elif c == "{" and depth == 0:
                body_open = j
                break
            elif c == ";" and depth == 0:
                break
            j += 1
        if body_open is None:
            continue
        end = match_brace(src, body_open)
        out.append(src[pos:body_open] + "{}")
        pos = end
    out.append(src[pos:])
    return "".join(out)


def translate_struct(k):
    src = read_src(k.file)
    groups = KT.scan_braces(src)
    ms = [m for m in re.finditer(r"((?:#\[[^\]]*\]\s*)*)(?:pub(?:\([^)]*\))?\s+)?struct\s+" + re.escape(k.fn) + r"\b\s*(<[^>]*>)?\s*([({])", src)
          if KT.compiled_at(src, m.start() + len(m.group(1)), groups) is not False]
    if len(ms) != 1:
        raise TranslateError(f"struct {k.fn}: {len(ms)} compiled declarations found (exactly one expected)")
    m = ms[0]
    attrs = m.group(1)
    if k.align is not None and not re.search(r"repr\s*\(\s*align\s*\(\s*%d\s*\)\s*\)" % k.align, attrs):
        raise TranslateError(f"struct {k.fn} must be declared #[repr(align({k.align}))] (aligned loads/stores of it would fault)")
    ex = Ex(k.prog, k, k.fn)
    if m.group(3) == "(":
        end = match_brace(src, m.end() - 1, "(", ")")
        inner = src[m.end():end - 1].strip().rstrip(",")
        inner = re.sub(r"^pub(\([^)]*\))?\s+", "", inner)
        if "," in re.sub(r"\[[^\]]*\]", "", inner):
            raise TranslateError("tuple structs with several fields are not supported")
        ty = ex.ity(parse_type(inner))
        k.prog.structs[k.fn] = ("newtype", ty)
        return ns_wrap(k, f"/-- `struct {k.fn}({inner})`{' #[repr(align(%d))]' % k.align if k.align else ''}: represented by its field — GENERATED from {k.file} -/\n"
                          f"abbrev {k.lean_name} := {lty(ty, k.prog)}\n")
    end = match_brace(src, m.end() - 1)
    fields = []
    for part in src[m.end():end - 1].split(","):
        part = part.strip()
        if not part:
            continue
        part = re.sub(r"^(#\[[^\]]*\]\s*)*(pub(\([^)]*\))?\s+)?", "", part)
        fn_, fty = part.split(":", 1)
        fields.append((fn_.strip(), ex.ity(parse_type(fty.strip()))))
    k.prog.structs[k.fn] = ("struct", k.lean_name, fields)
    body = "\n".join(f"  {f} : {lty(t, k.prog)}" for f, t in fields)
    return ns_wrap(k, f"/-- `struct {k.fn}` — field list GENERATED from {k.file} -/\nstructure {k.lean_name} where\n{body}\nderiving DecidableEq, Repr\n")


def find_const(src, name, module=None):
    text = src
    if module:
        g0 = KT.scan_braces(text)
        mods = [m for m in re.finditer(r"\bmod\s+" + re.escape(module) + r"\s*\{", text) if KT.compiled_at(text, m.start(), g0) is not False]
        if len(mods) != 1:
            raise TranslateError(f"module {module}: {len(mods)} compiled definitions (exactly one expected)")
        m = mods[0]
        text = text[m.end():match_brace(text, m.end() - 1) - 1]
    groups = KT.scan_braces(text)
    ms = [m for m in re.finditer(r"\bconst\s+" + re.escape(name) + r"\s*:\s*([^=]+?)\s*=\s*", text) if KT.compiled_at(text, m.start(), groups) is not False]
    d0 = min((KT.depth_at(groups, m.start()) for m in ms), default=0)
    ms = [m for m in ms if KT.depth_at(groups, m.start()) == d0]
    if len(ms) != 1:
        raise TranslateError(f"const {name}: {len(ms)} compiled definitions in the same scope (exactly one expected)")
    m = ms[0]
    j, depth = m.end(), 0
    while j < len(text):
        c = text[j]
        if c in "([{":
            depth += 1
        elif c in ")]}":
            depth -= 1
        elif c == ";" and depth == 0:
            break
        j += 1
    return m.group(1).strip(), text[m.end():j].strip()


def translate_const(k):
    src = read_src(k.file)
    ty_txt, init = find_const(src, k.fn, k.module)
    ex = Ex(k.prog, k, k.fn)
    ex.root.macros = {}
    if re.fullmatch(r"[\w:]+", init):
        # an alias `const X: T = path;`
        if k.const_path is None or init != k.const_path[0]:
            raise TranslateError(f"const {k.fn} is the alias `{init}`; the spec expects {k.const_path and k.const_path[0]!r}")
        file2, name2, mod2 = k.const_path[1:]
        ty2, init = find_const(read_src(file2), name2, mod2)
        if re.sub(r"\s", "", ty2) != re.sub(r"\s", "", ty_txt):
            raise TranslateError(f"const {k.fn}: alias of a different type")
    ty = ex.ity(parse_type(ty_txt))
    if isinstance(ty, tuple) and ty[0] == "sarr":
        ty = ("list", ty[3], len(ty[2]))
    p = P3(lex(init))
    ast = p.expr()
    if ast[0] != "array" or not (isinstance(ty, tuple) and ty[0] == "list"):
        raise TranslateError(f"const {k.fn}: only array constants are supported")
    vals = [ex.ex(x, ty[1]) for x in ast[1]]
    if any(v.const is None for v in vals) or len(vals) != ty[2]:
        raise TranslateError(f"const {k.fn}: not a literal array of the declared length")
    items = ", ".join(f"0x{v.const:x}" for v in vals)
    for rp in (k.rust_paths or [k.fn]):
        k.prog.consts[(k.ns, rp)] = V(k.lean_name, ty)
    return ns_wrap(k, f"/-- `const {k.fn}: {ty_txt}` — GENERATED from {k.file}{' (through the alias `' + k.const_path[0] + '`)' if k.const_path else ''} -/\n"
                      f"def {k.lean_name} : {lty(ty, k.prog)} := [{items}]\n")


def translate(k):
    if k.kind == "struct":
        return translate_struct(k)
    if k.kind == "const":
        return translate_const(k)
    src = read_src(k.file)
    check_uses(k, src)
    hdr, body = find_fn(src, k.fn, k.scope)
    params, ret = parse_sig(hdr)
    body = strip_uses(body)
    outer, file_macros = split_macros(blank_fn_bodies(src))
    body, local_macros = split_macros(body)
    ex = Ex(k.prog, k, k.lean_name)
    root = ex
    for n, (ps, b) in file_macros.items():
        root.macros[n] = (ps, b, "")
    for n, (ps, b) in local_macros.items():
        root.macros[n] = (ps, b, k.fn + "_")
    ex.decl_ty = {}
    gen_names = []
    for g, gty in k.generics.items():
        gv = ex.add_param(g, gty)
        root.self_generics[g] = gv
        gen_names.append(g)
    pinfo, outs = [], []
    for pn, pty, _ in params:
        if pn == "self":
            sty = ex.named_ty(k.self_ty)
            v = ex.add_param("self", sty)
            ex.env["self"] = v
            ex.decl_ty["self"] = k.self_ty
            mode = "mut" if "mut" in pty[1] and "&" in pty[1] else "ref"
            pinfo.append(("self", sty, mode))
            if mode == "mut":
                outs.append(("self", sty))
            continue
        if pty[0] == "ptr":
            kind = k.ptr_kinds.get(pn)
            if kind is None:
                raise TranslateError(f"pointer parameter {pn} without a buffer kind in the spec")
            pointee = ex.ity(pty[2])
            bty = ("list", ELEM_OF_KIND[kind], None)
            bv = ex.add_param(pn, bty)
            ov = ex.add_param(pn + "_off", "usize")
            ex.env[pn + "#buf"] = bv
            ex.env[pn] = V("<ptr>", ("ptr", pointee), ptr=(pn + "#buf", kind, ov))
            mode = "mutptr" if pty[1] else "ptr"
            pinfo.append((pn, ("ptr", pointee, kind), mode))
            if mode == "mutptr":
                outs.append((pn + "#buf", bty))
            continue
        ity = ex.ity(pty)
        v = ex.add_param(pn, ity)
        ex.env[pn] = v
        if pty[0] == "ref" and isinstance(pty[2], tuple) and pty[2][0] == "named":
            ex.decl_ty[pn] = pty[2][1]
        mode = "mut" if (pty[0] == "ref" and pty[1]) else ("ref" if pty[0] == "ref" else "val")
        pinfo.append((pn, ity, mode))
        if mode == "mut":
            outs.append((pn, ity))
    rty = ex.ity(ret) if ret is not None else "unit"
    ret_rust = None
    if ret is not None and isinstance(ret, tuple) and ret[0] == "named":
        ret_rust = k.self_ty if ret[1] == "Self" else ret[1]
    stmts = parse_block(body)
    if stmts and stmts[-1][0] == "return" and stmts[-1][1] is not None:
        stmts[-1] = ("ret", stmts[-1][1])          # `return e;` as the LAST statement of the function is its trailing value
    val = ex.block(stmts, rty if rty != "unit" else None, scoped=False)
    if root.while_no != len(k.fuel):
        raise TranslateError(f"{k.fn}: the spec names {len(k.fuel)} fuel expression(s), the body has {root.while_no} `while` loop(s)")
    finals = []
    for pl, t in outs:
        v = ex.whole(pl) if (isinstance(t, tuple) and t[0] == "struct") else ex.lookup(pl)
        if v.ptr is not None:
            v = ex.lookup(v.ptr[0])
        finals.append(v.t)
    diverged = getattr(ex, "diverged", False)
    if rty != "unit":
        if not diverged:
            if val is None or not same_ty(val.ty, rty):
                raise TranslateError(f"{k.fn}: result of type {val.ty if val else None}, declared {rty}")
            finals.append(val.t)
    out_tys = [t for _, t in outs] + ([] if rty == "unit" else [rty])
    if not out_tys:
        raise TranslateError(f"{k.fn}: a function without result and without `&mut` parameters")
    res = finals[0] if len(finals) == 1 else "(" + ", ".join(finals) + ")"
    lrt = lty(out_tys[0], k.prog) if len(out_tys) == 1 else lty(("tuple", out_tys), k.prog)
    fall = ex.any_fallible
    if diverged:
        last = '.error "PANIC"'
    else:
        last = f".ok {par(res)}" if fall else res
    sig = " ".join(f"({n} : {t})" for n, t in ex.params)
    names = ", ".join([pl.replace("#buf", "") for pl, _ in outs] + (["return value"] if rty != "unit" else []))
    text = "".join(a + "\n" for a in root.aux)
    text += (f"/-- {k.doc + ' — ' if k.doc else ''}GENERATED from `fn {k.fn}` in {k.file}; result: ({names}) -/\n"
             f"def {k.lean_name} {sig} : {('Except String ' + par_ty(lrt)) if fall else lrt} :=\n".replace("  :", " :")
             + "\n".join(ex.lines + [f"  {last}"]) + "\n")
    info = FnInfo(k.lean_name, pinfo, rty, [t for _, t in outs], fall, gen_names)
    info.ret_rust = ret_rust
    paths = k.rust_paths or ([k.fn, "Self::" + k.fn] + ([f"{k.method_of}::{k.fn}"] if k.method_of else []))
    for rp in paths:
        k.prog.fns[(k.ns, rp)] = info
    return ns_wrap(k, text)
