"""Registry of integrated units (single place).  tools/gen_registry.py derives from it:
lean/CxVerif/Driver/Registry.lean, lean/CxVerif.lean, harness/src/ops_all.rs; tools/props/_auto.py derives
the Lean modules and generators of every property."""

# unit -> driver module (lean/CxVerif/Driver/<d>.lean, `ops`), harness module (harness/src/<h>.rs),
#         gens module (tools/gens/<g>.py), props: property -> list of Lean Props modules
UNITS = {
    "ct": {"driver": "C18", "harness": "ops_ct", "gens": None, "props": {"C18": ["CxVerif.Props.C18", "CxVerif.Props.C18KernelTie"]}},
    "ktie": {"driver": "KTie", "harness": "ops_ktie", "gens": "ktie", "props": {}},
    "b32": {"driver": "B32", "harness": "ops_b32", "gens": "b32", "props": {"C17": ["CxVerif.Props.C17.B32", "CxVerif.Props.C17.Sc32", "CxVerif.Props.C17.KernelTieB32", "CxVerif.Props.C17.Group32", "CxVerif.Props.C17.GlueTieCurve32"]}},
    "b32g": {"driver": "B32Group", "harness": "ops_b32g", "gens": "b32g", "props": {}},
    "simd": {"driver": "Simd", "harness": "ops_simd", "gens": "simd",
             "props": {"C16": ["CxVerif.Props.C16.Sha256", "CxVerif.Props.C16.Blake2"]}},
    # translator tie of the hash compression cores (tools/ktx_words.py -> Extracted/Kernels*.lean, tie theorems by rfl / kernel_rfl)
    "ktxhash": {"driver": None, "harness": None, "gens": None, "props": {
        "C01": ["CxVerif.Props.C01.KernelTieSha256", "CxVerif.Props.C01.KernelTieSha512", "CxVerif.Props.C01.KernelTieSha1", "CxVerif.Props.C01.KernelTieRipemd160", "CxVerif.Props.C01.KernelTieKeccak", "CxVerif.Props.C01.KernelTieBlake2"],
        "C02": ["CxVerif.Props.C01.KernelTieSha256", "CxVerif.Props.C01.KernelTieSha512", "CxVerif.Props.C01.KernelTieSha1", "CxVerif.Props.C01.KernelTieRipemd160", "CxVerif.Props.C01.KernelTieKeccak", "CxVerif.Props.C01.KernelTieBlake2"],
        "C08": ["CxVerif.Props.C01.KernelTieSha256", "CxVerif.Props.C01.KernelTieSha512", "CxVerif.Props.C01.KernelTieSha1", "CxVerif.Props.C01.KernelTieRipemd160", "CxVerif.Props.C01.KernelTieKeccak", "CxVerif.Props.C01.KernelTieBlake2"],
        "C16": ["CxVerif.Props.C01.KernelTieSha256", "CxVerif.Props.C01.KernelTieBlake2"]}},
    # translator tie of the stateful glue (tools/ktx_glue_*.py -> Extracted/Glue*.lean; tie theorems proved, not only rfl)
    "gluemac": {"driver": None, "harness": None, "gens": None, "props": {
        p: ["CxVerif.Props.C05.GlueTieMac"] for p in ("C05", "C06", "C07", "C08", "C09", "C10")}},
    "gluestream": {"driver": None, "harness": None, "gens": None, "props": {
        p: ["CxVerif.Props.C04.GlueTieStream"] for p in ("C03", "C04", "C06", "C07", "C20")}},
    "gluemd": {"driver": None, "harness": None, "gens": None, "props": {
        "C01": ["CxVerif.Props.C01.GlueTieMd", "CxVerif.Props.C01.GlueTieMdSpec"], "C02": ["CxVerif.Props.C01.GlueTieMd"],
        "C08": ["CxVerif.Props.C01.GlueTieMd"], "C13": ["CxVerif.Props.C01.GlueTieMd"]}},
    "gluesponge": {"driver": None, "harness": None, "gens": None, "props": {
        p: ["CxVerif.Props.C02.GlueTieSponge"] for p in ("C01", "C02", "C08", "C09", "C11", "C20")}},
    "gluedigest": {"driver": None, "harness": None, "gens": None, "props": {
        p: ["CxVerif.Props.C09.GlueTieDigest"] for p in ("C01", "C02", "C08", "C09", "C10", "C20")}},
    "gluekdf": {"driver": None, "harness": None, "gens": None, "props": {
        "C10": ["CxVerif.Props.C10.GlueTieKdf"], "C11": ["CxVerif.Props.C11.GlueTieArgon2"],
        "C20": ["CxVerif.Props.C10.GlueTieKdf", "CxVerif.Props.C11.GlueTieArgon2"]}},
    "gluesimd": {"driver": None, "harness": None, "gens": None, "props": {
        "C16": ["CxVerif.Props.C16.GlueTieSimd", "CxVerif.Props.C16.GlueTieSimdSha", "CxVerif.Props.C16.GlueTieSimdBlake2", "CxVerif.Util.IntrinsicsHwTest"],
        "C03": ["CxVerif.Props.C16.GlueTieSimd"],
        "C01": ["CxVerif.Props.C16.GlueTieSimdSha", "CxVerif.Props.C16.GlueTieSimdBlake2"]}},
    "gluecurve": {"driver": None, "harness": None, "gens": None, "props": {
        p: ["CxVerif.Props.C15.GlueTieCurve"] for p in ("C12", "C13", "C14", "C15", "C17", "C19")}},
    "refusal": {"driver": None, "harness": None, "gens": None, "props": {"C20": ["CxVerif.Props.C20.Refusal"]}},
    "gluerest": {"driver": None, "harness": None, "gens": None, "props": {
        p: ["CxVerif.Props.C20.GlueTieRest"] for p in ("C01", "C02", "C03", "C05", "C10", "C11", "C17", "C18", "C20")}},
    "gluesha2drv": {"driver": None, "harness": None, "gens": None, "props": {
        "C01": ["CxVerif.Props.C01.GlueTieSha2Drv", "CxVerif.Props.C16.GlueTieSha2Disp"], "C02": ["CxVerif.Props.C01.GlueTieSha2Drv"],
        "C08": ["CxVerif.Props.C01.GlueTieSha2Drv"], "C13": ["CxVerif.Props.C01.GlueTieSha2Drv"],
        "C16": ["CxVerif.Props.C01.GlueTieSha2Drv", "CxVerif.Props.C16.GlueTieSha2Disp"]}},
    "hashlen": {"driver": "HashLen", "harness": "ops_hashlen", "gens": "hashlen",
                "props": {"C01": ["CxVerif.Props.C20.HashLen"], "C20": ["CxVerif.Props.C20.HashLen"]}},
    "long": {"driver": "Long", "harness": "ops_long", "gens": "long", "props": {}},
    "leak": {"driver": None, "harness": None, "gens": None, "props": {"C19": ["CxVerif.Props.C19.Leak", "CxVerif.Props.C19.LeakReal", "CxVerif.Props.C19.LeakHash"]}},
    "blake2": {"driver": "Blake2", "harness": "ops_blake2", "gens": "blake2",
               "props": {"C01": ["CxVerif.Props.C01.Blake2"], "C02": ["CxVerif.Props.C02.Blake2"], "C20": ["CxVerif.Props.C20.Blake2"]}},
    "fe64": {"driver": "Fe64", "harness": "ops_fe64", "gens": "fe64",
             "props": {"C12": ["CxVerif.Props.C12.X25519", "CxVerif.Props.C12.Symmetry", "CxVerif.Props.C12.Final"], "C15": ["CxVerif.Props.C15.Fe64", "CxVerif.Props.C15.KernelTieFe64"]}},
    "poly1305": {"driver": "Poly1305", "harness": "ops_poly1305", "gens": "poly1305",
                 "props": {"C05": ["CxVerif.Props.C05.Poly1305", "CxVerif.Props.C05.KernelTie", "CxVerif.Props.C05.KernelTieNew"], "C09": ["CxVerif.Props.C09.Poly1305"]}},
    "scalar64": {"driver": "Scalar64", "harness": "ops_scalar64", "gens": "scalar64", "props": {"C15": ["CxVerif.Props.C15.Scalar64", "CxVerif.Props.C15.KernelTieScalar64"]}},
    "sha2": {"driver": "Sha2", "harness": "ops_sha2", "gens": "sha2",
             "props": {"C01": ["CxVerif.Props.C01.Sha2"], "C02": ["CxVerif.Props.C02.Sha2"]}},
    "mackdf": {"driver": "MacKdf", "harness": "ops_mackdf", "gens": "mackdf",
               "props": {"C08": ["CxVerif.Props.C08.Hmac", "CxVerif.Props.C08.HmacBlake2"], "C09": ["CxVerif.Props.C09.MacDigest"], "C10": ["CxVerif.Props.C10.Kdf", "CxVerif.Props.C10.Scrypt", "CxVerif.Props.C08.HmacBlake2"]}},
    "sha3": {"driver": "Sha3", "harness": "ops_sha3", "gens": "sha3",
             "props": {"C01": ["CxVerif.Props.C01.Sha3"], "C02": ["CxVerif.Props.C02.Sha3"]}},
    "stream": {"driver": "Stream", "harness": "ops_stream", "gens": "stream",
               "props": {"C03": ["CxVerif.Props.C03.Stream", "CxVerif.Props.C03.KernelTie"], "C04": ["CxVerif.Props.C04.Stream"], "C16": ["CxVerif.Props.C16.ChaCha", "CxVerif.Props.C16.KernelTieChaCha"]}},
    "ed25519": {"driver": "Ed25519", "harness": "ops_ed25519", "gens": "ed25519",
                "props": {"C13": ["CxVerif.Props.C13.Ed25519", "CxVerif.Props.C13.Final"], "C14": ["CxVerif.Props.C14.Ed25519", "CxVerif.Props.C14.VerifyFull", "CxVerif.Props.C14.Final", "CxVerif.Props.C14.Honest"], "C15": ["CxVerif.Props.C15.Ge", "CxVerif.Props.C15.GroupLaw", "CxVerif.Props.C15.Prime", "CxVerif.Props.C15.Final", "CxVerif.Props.C15.RoundTrip"]}},
    "argon2": {"driver": "Argon2", "harness": "ops_argon2", "gens": "argon2", "props": {"C11": ["CxVerif.Props.C11.Argon2", "CxVerif.Props.C11.Argon2Full", "CxVerif.Props.C11.KernelTie"]}},
    "aead": {"driver": "Aead", "harness": "ops_aead", "gens": "aead",
             "props": {"C06": ["CxVerif.Props.C06.Aead"], "C07": ["CxVerif.Props.C07.Aead"], "C20": ["CxVerif.Props.C20.Aead"]}},
    "sha1ripemd": {"driver": "Sha1Ripemd", "harness": "ops_sha1ripemd", "gens": "sha1ripemd",
                   "props": {"C01": ["CxVerif.Props.C01.Sha1", "CxVerif.Props.C01.Ripemd160"], "C02": ["CxVerif.Props.C02.Sha1Ripemd"]}},
}
