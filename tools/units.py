"""Registry of integrated units (single place).  tools/gen_registry.py derives from it:
lean/CxVerif/Driver/Registry.lean, lean/CxVerif.lean, harness/src/ops_all.rs; tools/props/_auto.py derives
the Lean modules and generators of every property."""

# unit -> driver module (lean/CxVerif/Driver/<d>.lean, `ops`), harness module (harness/src/<h>.rs),
#         gens module (tools/gens/<g>.py), props: property -> list of Lean Props modules
UNITS = {
    "ct": {"driver": "C18", "harness": "ops_ct", "gens": None, "props": {"C18": ["CxVerif.Props.C18"]}},
    "blake2": {"driver": "Blake2", "harness": "ops_blake2", "gens": "blake2", "props": {}},
    "fe64": {"driver": "Fe64", "harness": "ops_fe64", "gens": "fe64", "props": {}},
    "poly1305": {"driver": "Poly1305", "harness": "ops_poly1305", "gens": "poly1305", "props": {}},
    "scalar64": {"driver": "Scalar64", "harness": "ops_scalar64", "gens": "scalar64", "props": {}},
    "sha2": {"driver": "Sha2", "harness": "ops_sha2", "gens": "sha2", "props": {}},
    "sha3": {"driver": "Sha3", "harness": "ops_sha3", "gens": "sha3", "props": {}},
    "stream": {"driver": "Stream", "harness": "ops_stream", "gens": "stream", "props": {}},
    "sha1ripemd": {"driver": "Sha1Ripemd", "harness": "ops_sha1ripemd", "gens": "sha1ripemd", "props": {}},
}
