#!/usr/bin/env python3
"""seed_round.py <seed_dir> <PROP> <name> [extra props,…]

Independent confirmation + detection test of one seeded change produced by a fresh sub-agent
(<seed_dir> holds patch.diff, demo.rs, meta.json):
  1. scratch worktree of /repo HEAD (never /repo itself): without the patch the demo passes;
  2. with the patch: the whole existing suite (63 tests) passes, the demo FAILS;
  3. tools/seed_test.py runs the registered quick check of <PROP> (and extra props) on the patched worktree.
Prints one JSON line with the verdicts; with --keep stores it as /verif/seeded/<name>/ (patch.diff, demo.rs, meta.json).
Scratch directories are under $SEEDRUN (default /tmp/seedrun); the confirm worktree is removed afterwards."""
import json
import os
import re
import shutil
import subprocess
import sys

V = os.path.dirname(os.path.dirname(os.path.abspath(__file__)))


def sh(cmd, **kw):
    return subprocess.run(cmd, shell=True, text=True, capture_output=True, **kw)


def demo_flags(demo_path):
    """the demo may need a non-default build; it says so in its leading comment (RUSTFLAGS="…", --features force-32bits,
    --release): those are honoured for the demo runs only (the existing suite is always run with the pinned default command)"""
    head = "".join(l for l in open(demo_path).read().splitlines(True)[:40] if l.lstrip().startswith("//"))
    env, args = "", ""
    m = re.search(r'RUSTFLAGS="([^"]+)"', head)
    if m:
        env = f'RUSTFLAGS="{m.group(1)}" '
    if "--features force-32bits" in head:
        args += " --features force-32bits"
    if re.search(r"cargo test[^\n]*--release", head):
        args += " --release"
    return env, args


def cargo_test(wt, extra="", env=""):
    r = sh(f"cd {wt} && {env}CARGO_NET_OFFLINE=true cargo test --workspace --no-fail-fast --offline {extra} 2>&1", timeout=3600)
    passed = sum(int(x) for x in re.findall(r"test result: \w+\. (\d+) passed", r.stdout))
    failed = sum(int(x) for x in re.findall(r"test result: \w+\. \d+ passed; (\d+) failed", r.stdout))
    compiled = "error: could not compile" not in r.stdout and "error[" not in r.stdout
    return passed, failed, compiled, r.stdout[-1500:]


def main():
    sd, prop, name = sys.argv[1], sys.argv[2], sys.argv[3]
    keep = "--keep" in sys.argv
    extra = [a for a in sys.argv[4:] if not a.startswith("--")]
    props = [prop] + (extra[0].split(",") if extra else [])
    S = os.environ.get("SEEDRUN", "/tmp/seedrun")
    os.makedirs(S, exist_ok=True)
    wt = os.path.join(S, "confirm-" + name)
    sh(f"git -C /repo worktree remove --force {wt}")
    r = sh(f"git -C /repo worktree add --detach {wt} HEAD")
    if r.returncode:
        print(r.stderr)
        sys.exit(2)
    res = {"name": name, "property": prop}
    try:
        os.makedirs(os.path.join(wt, "tests"), exist_ok=True)
        shutil.copy(os.path.join(sd, "demo.rs"), os.path.join(wt, "tests", "demo.rs"))
        denv, dargs = demo_flags(os.path.join(sd, "demo.rs"))
        res["demo_flags"] = (denv + dargs).strip()
        p0, f0, c0, o0 = cargo_test(wt, "--test demo" + dargs, denv)
        res["demo_without_patch"] = {"passed": p0, "failed": f0, "compiled": c0}
        r = sh(f"git -C {wt} apply {os.path.abspath(os.path.join(sd, 'patch.diff'))}")
        if r.returncode:
            res["error"] = "patch does not apply: " + r.stderr[:300]
            print(json.dumps(res))
            return
        p1, f1, c1, o1 = cargo_test(wt, "--test demo" + dargs, denv)
        res["demo_with_patch"] = {"passed": p1, "failed": f1, "compiled": c1}
        os.remove(os.path.join(wt, "tests", "demo.rs"))
        p2, f2, c2, o2 = cargo_test(wt)
        res["suite_with_patch"] = {"passed": p2, "failed": f2, "compiled": c2}
        res["confirmed"] = bool(c0 and c1 and c2 and f0 == 0 and p0 > 0 and (f1 > 0 or not c1) and f2 == 0 and p2 >= 63 and c1)
        if not res["confirmed"]:
            res["tail"] = (o0 if (f0 or not c0) else o1 if f1 == 0 else o2)[-600:]
    finally:
        sh(f"git -C /repo worktree remove --force {wt}")
    # detection
    r = sh(f"cd {V} && python3 tools/seed_test.py {os.path.abspath(os.path.join(sd, 'patch.diff'))} {','.join(props)}", timeout=7200)
    det = {}
    for l in r.stdout.splitlines():
        m = re.match(r"(C\d\d): exit=(\d+) (.*)", l)
        if m:
            det[m.group(1)] = {"exit": int(m.group(2)), "lines": m.group(3)[:300]}
    res["detection"] = det
    res["detected_by"] = [p for p, d in det.items() if d["exit"] == 1]
    res["seed_test_output"] = r.stdout[-1800:]
    print(json.dumps(res, indent=1))
    if keep and res.get("confirmed"):
        dst = os.path.join(V, "seeded", name)
        os.makedirs(dst, exist_ok=True)
        shutil.copy(os.path.join(sd, "patch.diff"), os.path.join(dst, "patch.diff"))
        shutil.copy(os.path.join(sd, "demo.rs"), os.path.join(dst, "demo.rs"))
        meta = json.load(open(os.path.join(sd, "meta.json")))
        meta["agent_what_i_ran"] = meta.pop("what_i_ran", "")
        meta["detected_by"] = res["detected_by"]
        meta["missed_by_first_run"] = [p for p in props if p not in res["detected_by"]]
        meta["what_i_ran"] = (f"tools/seed_round.py: scratch worktree of /repo HEAD; demo without patch {res['demo_without_patch']}, "
                              f"with patch {res['demo_with_patch']}, existing suite with patch {res['suite_with_patch']}; "
                              f"tools/seed_test.py quick checks: " + "; ".join(f"{p} exit={d['exit']} {d['lines'][:160]}" for p, d in det.items()))
        meta["demo_how"] = ("copy demo.rs to tests/demo.rs of a worktree with patch.diff applied: `cargo test --offline --test demo` fails; "
                            "without the patch it passes; the 63 existing tests pass either way")
        json.dump(meta, open(os.path.join(dst, "meta.json"), "w"), indent=1)
        print("kept", dst)


if __name__ == "__main__":
    main()
