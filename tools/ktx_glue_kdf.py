#!/usr/bin/env python3
"""ktx_glue_kdf — source-level translator for the STATEFUL GLUE of the key-derivation functions of /repo/src
(src/hkdf.rs, src/pbkdf2.rs, src/scrypt.rs, src/kdf/argon2.rs above the already tied core)  ->  Lean functions in the SHAPE of
the hand models lean/CxVerif/Impl/Kdf.lean and lean/CxVerif/Impl/Argon2.lean.

Kernel spec modules (`TRANSLATE = ktx_glue_kdf.translate`), regenerated from the CURRENT source by tools/extract_tables.py on every run:
  tools/kernels/glue_kdf.py    -> lean/CxVerif/Extracted/GlueKdf.lean    (hkdf, pbkdf2, scrypt);  tie theorems `<f>_src_eq_model`:
                                  lean/CxVerif/Props/C10/GlueTieKdf.lean   (helpers: Proofs/GlueKdf.lean, Proofs/GlueKdfScrypt.lean)
  tools/kernels/glue_argon2.py -> lean/CxVerif/Extracted/GlueArgon2.lean (argon2 above the core);  tie theorems:
                                  lean/CxVerif/Props/C11/GlueTieArgon2.lean (helpers: Proofs/GlueArgon2{Params,Hash,Segment,Process}.lean)
It reuses the lexer of tools/kernel_translate.py, the parser `PG` of tools/ktx_glue_mac.py (extended here to `PK`: turbofish kept
in paths, `?`, string literals) and the spec classes / output tree of tools/ktx_glue_mac.py.

What a translated function is
-----------------------------
One Rust `fn` -> one Lean `def <fn>_src` (+ auxiliary loop defs) : state in, state out, failure = `none` (`Option`).

  signature   `&mut T` parameters (and `&mut self`) are RETURNED: result = (mut params in order…, return value), unit dropped;
              `self`/`mut x: T` by value is consumed.  `&[u8]`, `&mut [u8]`, `Vec<u8>`, `[u8; N]` = `Bytes` (the static length N of
              an array type is remembered and used for the bounds checks Rust's type system has already discharged);
              `usize/u8/u32/u64` scalars = `Nat` (values inside the type's range: literals, lengths, results of checked operations,
              narrowing casts `% 2 ^ N`); a byte ELEMENT is `UInt8`; `bool` = `Bool`; a generic `D: Digest` / `M: Mac` = an abstract
              type with the method dictionary of Impl/Digest.lean; structs/enums = the Lean types named by the module spec (the field
              list of a struct is CHECKED against the Rust declaration).
  failure     every panic site is a `none` exactly where Rust panics: `assert!`, `panic!`, slice/array index out of range,
              `copy_from_slice` length mismatch, `chunks_mut(0)`, `.expect()`/`.unwrap()`/`match … None => panic!` of a checked
              operation, checked `-` on unsigned, division by zero, shift amount ≥ width, a panic of a callee.
              Arithmetic follows the module's policy (`Module.arith`): "math" (the mathematical operation — used for usize `+`/`*`
              of lengths and indices of live objects in hkdf/pbkdf2/scrypt, the one fact trusted there, as in ktx_glue_mac),
              "guard" (test then mathematical value) or a checked helper of the hand model (`add32`/`mul64`/… of Impl/Argon2.lean).
  statements  `let [mut] x [: T] = e;`  `let x;` (assigned later in both branches of an `if`)  `x = e;`  `x op= e;`  `s.f = e;`
              `a[i] = e;`  `*f(..) = e;` (through a `&mut`-returning accessor of the spec)  `assert!(c);`  `return;`  `return e;`
              trailing expression; calls with effects; `match opt { Some(x) => x, None => panic!(..) }`;
              `if c {A} [else {B}]` with statements after it: the variables assigned in the branches are BOUND
              (`match (if c then … some (vars) else some (vars)) with | none => none | some (vars) => …`, a plain `let` when no
              branch can fail); an `if` that ends its block, or one branch of which returns, takes the continuation into the branches;
              `for _ in lo..hi {..}`   -> auxiliary def by structural recursion on the count `hi - lo`;
              `for i in lo..hi {..}`   -> auxiliary def by structural recursion on the list `List.range' lo (hi - lo)`;
              `for chunk in X.chunks_mut(n) {..}` -> auxiliary def by structural recursion on `chunks n X` carrying the rebuilt
                                          buffer (every chunk, as the body leaves it, appended); `n = 0` is the panic of `chunks_mut`;
              `for (i, chunk) in X.chunks(n).enumerate() {..}` -> the same with the running index, read-only chunks;
              `while c {..}`           -> auxiliary def on fuel (fuel expression from the kernel spec; adequacy is a theorem);
              `for (o, &i) in A.iter_mut().zip(B.iter()) { *o op= i; }` and the three-way zip of scrypt's `xor` -> `zipMut2` /
              `zipMut3` (defined in the header of the generated file) with the body as a Lean `fun`.
              Loop-carried variables = the variables the body assigns (incl. `&mut` arguments); everything else is captured.
  places      variables, `s.f`, `a[i]`, sub-slices `a[lo..hi]` / `a[..hi]` / `a[lo..]` / `a[..]` as values, as `&mut` arguments and
              as `copy_from_slice` destinations; bounds checks as in ktx_glue_mac (a check decided by literals / static lengths or
              whose two sides are textually identical is not emitted).
  expressions literals, variables, fields, `.len()`, comparisons (as `Prop`s), `! && ||`, `& | ^ >> << + - * / %`, casts `as`
              (widening = identity, narrowing = `% 2 ^ N`, enum `as u32` = discriminant), `[x]`, `[0u8; n]`,
              `repeat(0).take(n).collect()`, struct literals, `.clone()`, `&`/`&mut`/`*` (erased), value-`if` (branches may fail),
              `x.to_le_bytes()` / `to_be_bytes()`, `x.checked_add/checked_mul(y)` + `.expect(..)`/`.unwrap()`,
              `size_of::<usize>()` = 8 / `size_of::<u32>()` = 4 (64-bit target), calls of translated functions (by path, by
              receiver type) and of the externs of the module spec (Lean template; which arguments are written; failure).
              By-value builder chains (`Context::<512>::new().update(a).update(b).finalize()`) are calls on temporaries.
  more (argon2) `Result`-returning builders (`Ok(self)`, `return Err(E)`, `NonZeroU32::new(x).ok_or(E)?` = early `Err` for x = 0,
              `NonZeroU32::new(lit).unwrap()`), enums (`==`, `as u32` = discriminant), `const NAME: T = <const expr>` re-read from the
              source, tuple-struct newtypes (`Block(..)`, `.0` erased), `[0u64; N]` / `block[i]` / `block[i] = e` / `block[i] += 1`
              on word arrays (`Vector UInt64 N`: a literal index is checked at translation time, a dynamic one is `[i]?`), words
              (`UInt64`) vs numbers (`Nat`): `w >> k`, `w & lit` stay words, arithmetic / casts go through `.toNat`, a number stored
              into a word array is `UInt64.ofNat`; `vec![x; n].into_boxed_slice()` = `Array.replicate`; `&mut`-returning accessors
              (kernel kind "lens": `fn m(&mut self, ..) -> &mut T { ..; &mut self.place }` becomes `m_get_src` + `m_set_src`;
              `*recv.m(args) = e;` and `recv.m(args).as_u8_mut()` as a `&mut` argument go through them); `x ^= y` on a type with a
              `bitxor_assign` extern; a bool VALUE built from comparisons is `decide (…)`; fn-level `const T: usize` = an explicit
              leading Lean parameter; per-function arithmetic policy (`KFn(arith=…)`).
Safety nets (each a TranslateError): a function defined twice in its scope or carrying `#[cfg]`; an attribute or `macro_rules!`
inside a body; a nested body that re-binds an outer variable the translator did not list as assigned (write log); a later
argument / operand whose evaluation re-binds a variable mentioned by an earlier one.
Anything else — closures, iterator chains other than the idioms above, `loop`/`break`/`continue`, `return` inside a loop body,
a nested-block `let` that shadows an outer variable, unknown functions/methods/fields, arithmetic on a type without a policy —
raises TranslateError -> reported as a broken extraction (the generated def degenerates and the tie theorem fails); nothing is
skipped silently.  Comments, attributes and whitespace are not code.
Evaluation order: operands and arguments left to right as in Rust; effects of a nested call are bound before the enclosing call.
After audit 3 (tools/ktx_glue_guard.py): lookup in the bounded live region (`impl` blocks, or the enclosing `fn` for a nested kernel),
item `#[cfg]` evaluated, unique; a nested `fn` is accepted only when a kernel of the spec translates THAT item; `let x = &mut …` /
`let y = <&mut parameter>;` aliases and changed imports of a used name are refused; `const` lookups take the one live definition;
a `while` loop fails (`none`) when its fuel runs out and is called with `fuel + 1`; a value whose integer type hangs only on
unsuffixed literals may not be cast / shifted / serialised unless a use confirms the assumed type (rustc would infer i32).
"""
import os
import re

import kernel_translate as KT
from kernel_translate import TranslateError, lex, find_fn, strip_comments
import ktx_misc
import ktx_glue_mac as G
import ktx_glue_guard as GUARD
from ktx_glue_mac import (PG, parse_sig, find_struct, Ty, TNat, TU8, TBool, TProp, TUnit, TBytes, TTuple, atomize, lean_id,
                          Module, Fn, Ext, StructSpec, Place, names_in, paren_ty, rng)

BITS = {"u8": 8, "u16": 16, "u32": 32, "u64": 64, "usize": 64, "u128": 128}
SIZE_OF = {"usize": 8, "u64": 8, "u32": 4, "u16": 2, "u8": 1}


def REPO():
    return os.environ.get("CX_REPO", KT.REPO)


STR = re.compile(r'(?<![A-Za-z0-9_])"((?:[^"\\]|\\.)*)"')


def raw_src(rel):
    """comment-free source text (string literals intact: item lookup and `#[cfg(key = "…")]` evaluation work on this)"""
    return strip_comments(open(os.path.join(REPO(), rel)).read())


def cook(text):
    """string literals replaced by `__str` and the postfix `?` by a method call `.__try()` (what the parser of this file reads)"""
    text, _ = ktx_misc.protect_bytestrings(text)
    text = STR.sub(" __str ", text)
    return text.replace("?", ".__try()")


def read_src(rel):
    return cook(raw_src(rel))


# ===================================================================================================== parser

class PK(PG):
    """PG + turbofish kept inside paths (`Context::<512>::new`, `size_of::<usize>`)"""

    def atom(self):
        p = self.peek()
        if p[0] == "id" and p[1] not in ("as", "unsafe", "if", "match") and self.peek(1)[1] == "::":
            # path with possible turbofish segments
            save = self.i
            self.eat(); name = p[1]; turbo = False
            while self.at("::"):
                self.eat()
                if self.at("<"):
                    self.eat(); d = 1; seg = "<"
                    while d:
                        x = self.eat()
                        if x[0] == "eof":
                            raise TranslateError("unterminated turbofish")
                        d += (x[1] == "<") - (x[1] == ">")
                        seg += str(x[1])
                    name += "::" + seg; turbo = True
                    continue
                name += "::" + self.eat()[1]
            if not turbo:
                self.i = save
                return super().atom()
            return ("path", name)
        return super().atom()


    def block(self):
        if self.at("#"):
            raise TranslateError("attribute inside a function body (e.g. `#[cfg]` on a statement) is outside the translated subset")
        if self.atid("macro_rules"):
            raise TranslateError("`macro_rules!` inside a function body is outside the translated subset")
        return super().block()

    def stmt(self):
        if self.at("#"):
            raise TranslateError("attribute inside a function body (e.g. `#[cfg]` on a statement) is outside the translated subset")
        if self.atid("macro_rules"):
            raise TranslateError("`macro_rules!` inside a function body is outside the translated subset")
        return super().stmt()


def parse_body(text, nested_ok=()):
    if re.search(r"#\s*\[", text):
        raise TranslateError("attribute inside a function body (e.g. `#[cfg]` on a statement) is outside the translated subset")
    p = PK(lex(text))
    p.nested_ok = tuple(nested_ok)
    stmts = p.block()
    if p.peek()[0] != "eof":
        raise TranslateError(f"trailing tokens after the body: {p.peek()[1]!r}")
    return stmts


def unique_fn(src, fn, scope):
    """the function must be defined exactly once in its scope (two `#[cfg]` variants are refused rather than one of them picked)"""
    text = src
    if scope:
        m = re.search(scope, text)
        if not m:
            raise TranslateError(f"scope {scope!r} not found")
        j = text.index("{", m.end() - 1) if "{" not in m.group(0) else m.end() - 1
        depth, i = 1, j + 1
        while i < len(text) and depth:
            depth += {"{": 1, "}": -1}.get(text[i], 0)
            i += 1
        text = text[j + 1:i - 1]
    n = 0
    for m in re.finditer(r"\bfn\s+" + re.escape(fn) + r"\b", text):
        before = text[:m.start()]
        if scope:
            if before.count("{") - before.count("}") == 0:
                n += 1
        else:
            n += 1 if before.count("{") - before.count("}") == 0 else 0
    if n > 1:
        raise TranslateError(f"fn {fn} is defined {n} times in its scope")


# ===================================================================================================== types

def TW64():
    return Ty("w64", "UInt64")


def TExt(lean, **kw):
    return Ty("ext", lean, **kw)


def TOpt(inner):
    return Ty("opt", f"Option {paren_ty(inner.lean)}", inner=inner)


def is_temp(name):
    return re.fullmatch(r"t\d+", name) is not None


class KModule(Module):
    """Module + arithmetic policy, enums, constants, dictionary instantiations

    arith     rust int type -> {op: "math" | "guard" | lean fn name (Option-valued)}   ops: + - * / % <<
    checked   (rust int type, "checked_add"|"checked_mul"|…) -> lean template of an Option-valued helper ({0} {1})
    enums     rust enum name -> (lean type, {variant: lean constructor text}, cast template or None)
    consts    rust const name -> (lean text, Ty)
    dicts     generic callee name -> lean dictionary text to pass when called from this (non-generic) module
    lenses    (owner, method) -> (getter lean template, setter lean template, element Ty): `&mut`-returning accessors
    views     (type lean, method) -> (to template, from template, Ty): `as_u8_mut()`-style reinterpretations
    """

    def __init__(self, **kw):
        super().__init__(**kw)
        self.arith = dict(kw.get("arith", {}))
        self.checked = dict(kw.get("checked", {}))
        self.enums = dict(kw.get("enums", {}))
        self.consts = dict(kw.get("consts", {}))
        self.dicts = dict(kw.get("dicts", {}))
        self.lenses = dict(kw.get("lenses", {}))
        self.views = dict(kw.get("views", {}))
        self.exttypes = dict(kw.get("exttypes", {}))     # rust type name -> Ty
        self.newtypes = dict(kw.get("newtypes", {}))     # rust tuple-struct name -> Ty of its single field (erased newtype)
        self.shift_guard = kw.get("shift_guard", True)
        self.arrays = dict(kw.get("arrays", {}))         # element lean type -> Ty of `Box<[elem]>` / `Vec<elem>` (Lean `Array`)


class KFn(Fn):
    def __init__(self, mod, fn, scope=None, owner=None, name=None, doc="", fuel=(), kind="fn", const_generics=(), self_ty=None,
                 fields=None, arith=None):
        super().__init__(mod, fn, scope=scope, owner=owner, name=name, doc=doc, fuel=fuel, kind=kind, glue=fields)
        self.arith = arith                               # per-function override of the module's arithmetic policy
        self.const_generics = list(const_generics)       # fn-level `const T: usize` -> explicit leading Lean parameters `(T : Nat)`
        self.self_ty = self_ty


REGISTRY = {}


class FnInfo:
    def __init__(self, spec, params, ret, outs, fallible, cgen=()):
        self.spec = spec; self.params = params; self.ret = ret; self.outs = outs; self.fallible = fallible; self.cgen = list(cgen)
        self.lens = None


# ===================================================================================================== output tree

class Node:
    pass


class Let(Node):
    def __init__(self, pat, text, body):
        self.pat = pat; self.text = text; self.body = body


class Guard(Node):
    """`if ¬ cond then none else body`"""

    def __init__(self, cond, body):
        self.cond = cond; self.body = body


class Bind(Node):
    def __init__(self, pat, text, body):
        self.pat = pat; self.text = text; self.body = body


class If(Node):
    def __init__(self, cond, a, b):
        self.cond = cond; self.a = a; self.b = b


class IfBind(Node):
    """bind the variables assigned by the branches of a statement-`if`; a/b end in Ret(tuple of `names`)"""

    def __init__(self, names, tys, cond, a, b, body):
        self.names = names; self.tys = tys; self.cond = cond; self.a = a; self.b = b; self.body = body
        if NOTE:
            NOTE[-1].note_write(*names)


class Ret(Node):
    def __init__(self, text):
        self.text = text


class Fail(Node):
    pass


class Tail(Node):
    """a term already in the function's monad (loop call in tail position …)"""

    def __init__(self, text):
        self.text = text


class LoopCall(Node):
    """call of an auxiliary loop def: Bind when that def is fallible, Let otherwise"""

    def __init__(self, pat, call, aux, body):
        self.pat = pat; self.call = call; self.aux = aux; self.body = body
        if NOTE:
            NOTE[-1].note_write(pat)


def children(n):
    if isinstance(n, (Let, Guard, Bind, LoopCall)):
        return [n.body]
    if isinstance(n, If):
        return [n.a, n.b]
    if isinstance(n, IfBind):
        return [n.a, n.b, n.body]
    return []


def fallible(n):
    """can this tree fail? (LoopCall: decided by its aux def, which is complete by the time this is asked)"""
    if isinstance(n, (Guard, Bind, Fail)):
        return True
    if isinstance(n, LoopCall) and n.aux.fallible:
        return True
    return any(fallible(c) for c in children(n))


def tup(names):
    return names[0] if len(names) == 1 else "(" + ", ".join(names) + ")"


def tup_ty(tys):
    return tys[0] if len(tys) == 1 else "(" + " × ".join(tys) + ")"


def ok_atom(text):
    return text if re.fullmatch(r"[\w.']+|\((?:[^()]|\([^()]*\))*\)|\{.*\}|⟨.*⟩|\[.*\]", text) else f"({text})"


def neg(cond):
    return f"¬ {cond}" if not re.search(r"[∧∨→↔]| then ", cond) else f"¬ ({cond})"


class Render:
    """pure=True: the tree contains no failure and values are plain; else values are wrapped in `some`"""

    def __init__(self, pure):
        self.pure = pure

    def ok(self, text):
        return text if self.pure else f"some {ok_atom(text)}"

    def go(self, n, ind):
        s = " " * ind
        if isinstance(n, Let):
            return f"{s}let {n.pat} := {n.text}\n" + self.go(n.body, ind)
        if isinstance(n, Guard):
            self.need()
            if isinstance(n.body, Guard) and n.body.cond == n.cond:
                return self.go(n.body, ind)
            return f"{s}if {neg(n.cond)} then none else\n" + self.go(n.body, ind)
        if isinstance(n, Bind):
            self.need()
            if isinstance(n.body, Ret) and n.body.text == n.pat:
                return f"{s}{n.text}\n"
            return f"{s}match {n.text} with\n{s}| none => none\n{s}| some {n.pat} =>\n" + self.go(n.body, ind + 2)
        if isinstance(n, LoopCall):
            if n.aux.fallible:
                return self.go(Bind(n.pat, n.call, n.body), ind)
            return self.go(Let(n.pat, n.call, n.body), ind)
        if isinstance(n, If):
            return f"{s}if {n.cond} then\n" + self.go(n.a, ind + 2) + f"{s}else\n" + self.go(n.b, ind + 2)
        if isinstance(n, IfBind):
            pat = tup(n.names)
            if fallible(n.a) or fallible(n.b):
                self.need()
                sub = Render(False)
                return (f"{s}match (if {n.cond} then\n" + sub.go(n.a, ind + 4) + f"{s}  else\n" + sub.go(n.b, ind + 4).rstrip("\n")
                        + f") with\n{s}| none => none\n{s}| some {pat} =>\n" + self.go(n.body, ind + 2))
            sub = Render(True)
            return (f"{s}let {pat} :=\n{s}  if {n.cond} then\n" + sub.go(n.a, ind + 4) + f"{s}  else\n" + sub.go(n.b, ind + 4)
                    + self.go(n.body, ind))
        if isinstance(n, Ret):
            return f"{s}{self.ok(n.text)}\n"
        if isinstance(n, Fail):
            self.need()
            return f"{s}none\n"
        if isinstance(n, Tail):
            return f"{s}{n.text}\n"
        raise TranslateError("internal: unknown node")

    def need(self):
        if self.pure:
            raise TranslateError("internal: failure in a pure context")


# frames: the `pre` lists hold callables body -> Node

NOTE = []     # the active translator (for the write log)


class BindF:
    def __init__(self, pat, text):
        self.pat = pat; self.text = text
        if NOTE:
            NOTE[-1].note_write(pat)

    def __call__(self, body):
        return Bind(self.pat, self.text, body)


class LetF:
    def __init__(self, pat, text):
        self.pat = pat; self.text = text
        if NOTE:
            NOTE[-1].note_write(pat)

    def __call__(self, body):
        return Let(self.pat, self.text, body)


class GuardF:
    def __init__(self, cond):
        self.cond = cond

    def __call__(self, body):
        return Guard(self.cond, body)


class IfBindF:
    def __init__(self, pat, ty, cond, a, b):
        self.pat = pat; self.ty = ty; self.cond = cond; self.a = a; self.b = b

    def __call__(self, body):
        return IfBind([self.pat], [self.ty], self.cond, self.a, self.b, body)


class Val:
    def __init__(self, t, ty, at=False, lit=None, lentext=None, weak=frozenset()):
        self.t = t; self.ty = ty; self.at = at; self.lit = lit; self.lentext = lentext
        self.weak = weak         # ids of unsuffixed literals whose (assumed: usize) type this value's integer type hangs on, see Tr.wmeet

    def p(self):
        return self.t if self.at else f"({self.t})"


class Aux:
    """an auxiliary (loop) definition"""

    def __init__(self, name):
        self.name = name; self.fallible = False; self.text = None


# ===================================================================================================== translation

class Tr:
    def __init__(self, spec):
        self.spec = spec; self.mod = spec.mod
        self.raw = raw_src(self.mod.file)
        self.src = cook(self.raw)
        self.aux = []
        self.ntmp = 0; self.nloop = 0; self.nwhile = 0
        self.in_loop = 0
        self.scopes = []
        self.cgen = {}
        self.wlog = []           # stack of sets: Lean-level re-bindings of variables inside the current loop body / if branch
        # unsuffixed integer literals without a typed context are translated as usize.  rustc infers their type from the uses and falls
        # back to i32.  Every use this translator accepts forces the same integer type on both sides (`compatible`), EXCEPT: the source of
        # an `as` cast, `to_le/be_bytes`, `checked_*`, and the left operand of `<<` (whose overflow guard depends on the width).  So:
        # union-find over the literals, merged when they meet, confirmed when one meets a typed operand / context; one of the listed uses
        # of a value that is never confirmed is refused at the end of the function (audit 3, F9).
        self.weak_parent, self.weak_firm, self.weak_uses, self.nweak = {}, set(), [], 0

    # ------------------------------------------------------------------------------------------- unsuffixed literals
    def wfind(self, i):
        while self.weak_parent.get(i, i) != i:
            i = self.weak_parent[i]
        return i

    def wunion(self, ids):
        roots = [self.wfind(i) for i in ids]
        if not roots:
            return
        firm = any(r in self.weak_firm for r in roots)
        for r in roots[1:]:
            if r != roots[0]:
                self.weak_parent[r] = roots[0]
        if firm:
            self.weak_firm.add(self.wfind(roots[0]))

    def wfirm(self, ids):
        for i in ids:
            self.weak_firm.add(self.wfind(i))

    def wmeet(self, a, b):
        """two operands rustc unifies: weak ids of the result"""
        if a.weak and b.weak:
            ids = a.weak | b.weak
            self.wunion(sorted(ids))
            return ids
        self.wfirm(a.weak | b.weak)
        return frozenset()

    def wuse(self, v, what):
        if v.weak:
            self.weak_uses.append((v.weak, what))

    def wcheck(self):
        for ids, what in self.weak_uses:
            if any(self.wfind(i) not in self.weak_firm for i in ids):
                raise TranslateError(f"{what} of a value whose integer type comes only from unsuffixed literals: rustc infers i32 there, the "
                                     f"translation assumes usize (write the type or a literal suffix)")

    # ------------------------------------------------------------------------------------------- types
    def const_int(self, e):
        """python int of a constant expression (literals, module consts with a python value, const generics: None)"""
        n = self.lit_of(e)
        if n is not None:
            return n
        if e[0] == "path" and e[1] in self.mod.consts and len(self.mod.consts[e[1]]) > 2:
            return self.mod.consts[e[1]][2]
        if e[0] == "path":
            v = self.src_const(e[1])
            return v.lit if v is not None else None
        return None

    def conv(self, t, owner=None):
        m = self.mod
        if isinstance(t, tuple):
            if t[0] == "ref":
                return self.conv(t[2], owner)
            if t[0] == "arr":
                elem = t[1]
                n = self.const_int(t[2]) if t[2] is not None else None
                if elem == "u8":
                    ty = TBytes(n)
                    if n is None and t[2] is not None and t[2][0] == "path":
                        ty.nsym = t[2][1]
                    return ty
                key = ("arr", elem, n)
                if key in m.exttypes:
                    return m.exttypes[key]
                raise TranslateError(f"unsupported array type [{elem}; {n}]")
            if t[0] == "gen":
                if t[1] == "Vec" and t[2] == ["u8"]:
                    return TBytes(None)
                if t[1] == "Result" and len(t[2]) == 2:
                    ok, err = self.conv(t[2][0], owner), self.conv(t[2][1], owner)
                    return Ty("res", f"Except {paren_ty(err.lean)} {paren_ty(ok.lean)}", ok=ok, err=err)
                if t[1] == "Box" and len(t[2]) == 1:
                    return self.conv(t[2][0], owner)
                return self.named_ty(t[1], owner)
            if t[0] == "tuplety":
                if not t[1]:
                    return TUnit
                return TTuple([self.conv(x, owner) for x in t[1]])
            raise TranslateError(f"unsupported type {t}")
        if t in BITS:
            return TNat(t)
        if t == "bool":
            return TBool
        return self.named_ty(t, owner)

    def named_ty(self, t, owner=None):
        m = self.mod
        if t == "Self":
            o = owner or self.spec.owner
            if not o:
                raise TranslateError("Self outside an impl")
            return self.named_ty(o)
        if m.generic and t == m.generic[0]:
            return Ty("abs", m.generic[1], name=t)
        for mod in [m] + list(m.uses):
            if isinstance(mod, KModule):
                if t in mod.enums:
                    return Ty("enum", mod.enums[t][0], name=t)
                if t in mod.exttypes:
                    return mod.exttypes[t]
                if t in mod.newtypes:
                    return mod.newtypes[t]
        return self.struct_ty(t)

    def struct_ty(self, name):
        for mod in [self.mod] + list(self.mod.uses):
            if name in mod.structs:
                sp = mod.structs[name]
                src = self.raw if mod is self.mod else raw_src(mod.file)
                saved, self.mod = self.mod, mod
                try:
                    fields = [(f, self.conv(t, owner=name)) for f, t in find_struct(src, name)]
                finally:
                    self.mod = saved
                return Ty("struct", sp.lean, name=name, fields=fields)
        raise TranslateError(f"unknown type {name}")

    # ------------------------------------------------------------------------------------------- helpers
    def tmp(self):
        self.ntmp += 1
        return f"t{self.ntmp}"

    @staticmethod
    def wrap(pre, body):
        for w in reversed(pre):
            body = w(body)
        return body

    def lit_of(self, e):
        if e is None:
            return None
        k = e[0]
        if k == "lit":
            return e[1]
        if k == "paren":
            return self.lit_of(e[1])
        if k == "bin" and e[1] in ("+", "-", "*", "<<"):
            a, b = self.lit_of(e[2]), self.lit_of(e[3])
            if a is None or b is None:
                return None
            return {"+": a + b, "-": a - b, "*": a * b, "<<": a << b}[e[1]]
        return None

    @staticmethod
    def num(n):
        return hex(n) if n > 255 else str(n)

    def lit_val(self, n, ty):
        if ty.kind == "u8":
            return Val(f"({self.num(n)} : UInt8)", ty, True)
        if ty.kind == "w64":
            return Val(f"({self.num(n)} : UInt64)", ty, True)
        if ty.kind != "nat":
            raise TranslateError(f"integer literal where {ty} is expected")
        if n >= 2 ** BITS[ty.rust]:
            raise TranslateError("literal out of range")
        return Val(self.num(n), ty, True, lit=n)

    def length_of(self, v):
        if v.ty.n is not None:
            return str(v.ty.n)
        if v.lentext is not None:
            return v.lentext
        return f"{v.p()}.length"

    def compatible(self, a, b, what):
        if a.kind == "nat" and b.kind == "nat":
            if a.rust != b.rust:
                raise TranslateError(f"integer type mismatch in {what}: {a.rust} vs {b.rust}")
            return
        if a.kind != b.kind or (a.kind in ("struct", "rec", "abs", "ext", "enum", "res") and a.lean != b.lean):
            raise TranslateError(f"type mismatch in {what}: {a} vs {b}")

    def coerce(self, v, ty, what):
        """value conversions between the two views of a machine word (nat <-> UInt64 word) on stores / arguments"""
        if ty is None:
            return v
        if v.weak:
            self.wfirm(v.weak)          # a context with a definite type
            v = Val(v.t, v.ty, v.at, v.lit, v.lentext)
        if ty.kind == "bool" and v.ty.kind == "prop":
            return Val(f"decide ({v.t})", TBool, False)
        if ty.kind == "w64" and v.ty.kind == "nat" and v.ty.rust == "u64":
            return Val(f"UInt64.ofNat {v.p()}", ty, False)
        if ty.kind == "nat" and ty.rust == "u64" and v.ty.kind == "w64":
            return Val(f"{v.p()}.toNat", ty, True)
        self.compatible(ty, v.ty, what)
        return v

    # ------------------------------------------------------------------------------------------- places
    def place(self, e, env):
        k = e[0]
        if k in ("paren", "deref"):
            return self.place(e[1], env)
        if k == "path":
            return Place(e[1]) if e[1] in env else None
        if k == "field":
            p = self.place(e[1], env)
            if p is None:
                return None
            return Place(p.root, p.path + [("field", e[2])])
        if k == "index":
            p = self.place(e[1], env)
            if p is None:
                return None
            if e[2][0] == "range":
                lo, hi = rng(e[2])
                return Place(p.root, p.path + [("slice", lo, hi)])
            return Place(p.root, p.path + [("elem", e[2])])
        return None

    def root_val(self, name, env):
        ty = env[name]
        if ty.kind == "uninit":
            raise TranslateError(f"`{name}` is read before it is assigned")
        return Val(lean_id(name), ty, True, weak=getattr(ty, "weak", frozenset()))

    def read_place(self, pl, env, pre, upto=None):
        v = self.root_val(pl.root, env)
        path = pl.path if upto is None else pl.path[:upto]
        for step in path:
            v = self.read_step(v, step, env, pre)
        return v

    def field_of(self, v, f):
        ty = v.ty
        if ty.kind == "struct":
            for fn_, fty in ty.fields:
                if fn_ == f:
                    return Val(f"{v.p()}.{lean_id(f)}", fty, True)
            raise TranslateError(f"no field {f} in {ty.name}")
        if f == "0" and getattr(ty, "newtype", False):
            return v                                        # erased newtype
        raise TranslateError(f"field {f} of a non-struct value")

    def read_step(self, v, step, env, pre):
        ty = v.ty
        if step[0] == "field":
            return self.field_of(v, step[1])
        if step[0] == "elem":
            if ty.kind == "bytes":
                ix = self.ex(step[1], env, pre, TNat("usize"))
                self.wfirm(ix.weak)
                t = self.tmp()
                if ty.n is not None and ix.lit is not None and ix.lit >= ty.n:
                    raise TranslateError("constant index beyond the array length")
                pre.append(BindF(t, f"{v.p()}[{ix.t}]?"))
                return Val(t, TU8, True)
            if ty.kind == "ext" and getattr(ty, "elem", None) is not None:
                ix = self.ex(step[1], env, pre, TNat("usize"))
                self.wfirm(ix.weak)
                if ix.ty.kind != "nat" or ix.ty.rust != "usize":
                    raise TranslateError("index is not a usize")
                if ix.lit is not None and ty.n is not None:
                    if ix.lit >= ty.n:
                        raise TranslateError("constant index beyond the array length")
                    return Val(f"{v.p()}[{ix.t}]", ty.elem, True)
                t = self.tmp()
                pre.append(BindF(t, f"{v.p()}[{ix.t}]?"))
                return Val(t, ty.elem, True)
            raise TranslateError("indexing a non-array value")
        if step[0] == "slice":
            if ty.kind != "bytes":
                raise TranslateError("slicing a non-byte value")
            lo, hi, text, n, lent = self.slice_guard(v, step, env, pre)
            if step[1] is None and step[2] is None:
                return Val(v.t, v.ty, v.at, lentext=v.lentext)
            return Val(text, TBytes(n), False, lentext=lent)
        raise TranslateError("internal: place step")

    @staticmethod
    def minus(hi, lo):
        """text of `hi - lo` for index texts (`(lo + k) - lo` = k)"""
        if lo is None:
            return hi
        m = re.fullmatch(re.escape(lo) + r" \+ (\w+)", hi)
        if m:
            return m.group(1)
        return f"{hi} - {atomize(lo)}" if re.fullmatch(r"[\w.]+", hi) else f"({hi}) - {atomize(lo)}"

    def slice_guard(self, v, step, env, pre):
        """bounds checks of `v[lo..hi]`; returns (lo text|None, hi text|None, value text, static length|None, length text)"""
        ty = v.ty
        lo_e, hi_e = step[1], step[2]
        lo = self.ex(lo_e, env, pre, TNat("usize")) if lo_e is not None else None
        hi = self.ex(hi_e, env, pre, TNat("usize")) if hi_e is not None else None
        for b_ in (lo, hi):
            if b_ is not None and (b_.ty.kind != "nat" or b_.ty.rust != "usize"):
                raise TranslateError("slice bound is not a usize")
            if b_ is not None:
                self.wfirm(b_.weak)
        length = self.length_of(v)
        lo_l = lo.lit if lo is not None else 0
        hi_l = hi.lit if hi is not None else ty.n
        if lo is not None and hi is not None:
            if lo_l is not None and hi_l is not None:
                if lo_l > hi_l:
                    raise TranslateError("slice with lo > hi (the code would always panic)")
            elif lo_l != 0 and not re.fullmatch(re.escape(lo.t) + r" \+ \w+", hi.t):
                pre.append(GuardF(f"{lo.t} ≤ {hi.t}"))
        bound = hi if hi is not None else lo
        if bound is not None:
            bl = bound.lit
            if bl is not None and ty.n is not None:
                if bl > ty.n:
                    raise TranslateError("slice bound beyond the declared array length")
            elif bound.t != length and not bound.t.startswith(f"{length} - "):
                pre.append(GuardF(f"{bound.t} ≤ {length}"))
        base = v.p()
        if lo is None and hi is None:
            return None, None, v.t, ty.n, length
        n = None
        if lo_l is not None and hi_l is not None:
            n = hi_l - lo_l
        lo_t = lo.t if lo is not None and lo_l != 0 else None
        hi_t = hi.t if hi is not None else None
        lent = str(n) if n is not None else self.minus(hi_t if hi_t is not None else length, lo_t)
        if lo_t is None:
            text = f"{base}.take {hi.p()}" if hi is not None else v.t
        elif hi is None:
            text = f"{base}.drop {lo.p()}"
        else:
            d = self.minus(hi.t, lo.t)
            text = f"({base}.drop {lo.p()}).take " + (str(n) if n is not None else (d if re.fullmatch(r"[\w.]+", d) else f"({d})"))
        return lo_t, hi_t, text, n, lent

    def write_place(self, pl, new, env, pre, info=None):
        if not pl.path:
            if not (new == lean_id(pl.root)):
                pre.append(LetF(lean_id(pl.root), new))
            return
        parent_pre = []
        parent = self.read_place(pl, env, parent_pre, upto=len(pl.path) - 1)
        if parent_pre:
            raise TranslateError("assignment through a checked place")
        step = pl.path[-1]
        pty = parent.ty
        if step[0] == "field":
            if pty.kind != "struct" or step[1] not in [f for f, _ in pty.fields]:
                if step[1] == "0" and getattr(pty, "newtype", False):
                    return self.write_place(Place(pl.root, pl.path[:-1]), new, env, pre)
                raise TranslateError(f"no field {step[1]}")
            text = f"{{ {parent.t} with {lean_id(step[1])} := {new} }}"
        elif step[0] == "elem":
            text = f"{parent.p()}.{info[0]} {info[1]} {ok_atom(new)}"
        else:
            lo, hi = info
            parts = []
            if lo is not None:
                parts.append(f"{parent.p()}.take {atomize(lo)}")
            parts.append(f"({new})" if re.search(r"\b(if|match|fun|let)\b", new) else new)
            if hi is not None:
                parts.append(f"{parent.p()}.drop {atomize(hi)}")
            text = " ++ ".join(parts)
        self.write_place(Place(pl.root, pl.path[:-1]), text, env, pre)

    def place_type(self, pl, env):
        ty = env[pl.root]
        for step in pl.path:
            if step[0] == "field":
                if ty.kind == "struct" and step[1] in dict(ty.fields):
                    ty = dict(ty.fields)[step[1]]
                elif step[1] == "0" and getattr(ty, "newtype", False):
                    pass
                else:
                    ty = None
            elif step[0] == "elem":
                ty = TU8 if ty.kind == "bytes" else getattr(ty, "elem", None)
            else:
                ty = TBytes(None)
            if ty is None:
                raise TranslateError("ill-typed place")
        return ty

    # ------------------------------------------------------------------------------------------- expressions
    def ex(self, e, env, pre, want=None):
        k = e[0]
        if k == "lit":
            ty = want
            if e[2]:
                ty = TNat(e[2]) if not (e[2] == "u8" and want is not None and want.kind == "u8") else TU8
            weak = frozenset()
            if ty is None or ty.kind not in ("nat", "u8", "w64"):
                ty = TNat("usize")
                self.nweak += 1
                weak = frozenset([self.nweak])
            v = self.lit_val(e[1], ty)
            v.weak = weak
            return v
        if k == "paren":
            v = self.ex(e[1], env, pre, want)
            return Val(v.t, v.ty, v.at, v.lit, v.lentext, v.weak)
        if k == "deref":
            return self.ex(e[1], env, pre, want)
        if k == "path":
            return self.path(e[1], env, want)
        if k in ("field", "index"):
            pl = self.place(e, env)
            if pl is not None:
                return self.read_place(pl, env, pre)
            base = self.ex(e[1], env, pre)
            if k == "field":
                return self.field_of(base, e[2])
            step = ("slice",) + rng(e[2]) if e[2][0] == "range" else ("elem", e[2])
            return self.read_step(base, step, env, pre)
        if k == "not":
            v = self.ex(e[1], env, pre, want)
            if v.ty.kind == "bool":
                return Val(f"!{v.p()}", TBool, False)
            if v.ty.kind == "prop":
                return Val(neg(v.t), TProp, False)
            raise TranslateError("`!` on a non-boolean")
        if k == "bin":
            return self.binop(e, env, pre, want)
        if k == "cast":
            return self.cast(e, env, pre)
        if k == "repeat":
            n = self.ex(e[2], env, pre, TNat("usize"))
            self.wfirm(n.weak)
            z = self.lit_of(e[1])
            suffix = e[1][2] if e[1][0] == "lit" else None
            if z == 0 and (suffix == "u8" or (suffix is None and want is not None and want.kind == "bytes")):
                cn = n.lit if n.lit is not None else self.const_int(e[2])
                return Val(f"zeros {n.p()}", TBytes(cn), False, lentext=n.t)
            cn = n.lit if n.lit is not None else self.const_int(e[2])
            key = ("arr", suffix, cn)
            for mod in [self.mod] + list(self.mod.uses):
                if isinstance(mod, KModule) and key in mod.exttypes and z is not None:
                    ety = mod.exttypes[key]
                    return Val(f"Vector.replicate {cn} {self.lit_val(z, ety.elem).t}", ety, False)
            raise TranslateError("unsupported repeat literal")
        if k == "array":
            vals = [self.ex(x, env, pre, TNat("u8")) for x in e[1]]
            if not vals or any(v.ty.kind not in ("nat", "u8") or (v.ty.kind == "nat" and v.ty.rust != "u8") for v in vals):
                raise TranslateError("array literal of unsupported element type")
            items = [v.t if v.ty.kind == "u8" else f"UInt8.ofNat {v.p()}" for v in vals]
            return Val("[" + ", ".join(items) + "]", TBytes(len(vals)), True)
        if k == "struct":
            return self.struct_lit(e, env, pre)
        if k == "if":
            return self.value_if(e, env, pre, want)
        if k == "match":
            return self.match_expr(e, env, pre, want)
        if k == "call":
            v = self.call(e, env, pre, want)
            if v is None:
                raise TranslateError("unit call used as a value")
            return v
        if k == "method":
            v = self.method(e, env, pre, want)
            if v is None:
                raise TranslateError("unit method call used as a value")
            return v
        if k == "macro":
            if e[1] == "vec" and len(e[2]) == 1 and any(t[1] == ";" for t in e[2][0]):
                toks = list(e[2][0])
                i = next(j for j, t in enumerate(toks) if t[1] == ";" and t[0] == "op")
                x = self.ex(PK(toks[:i]).expr(), env, pre)
                n = self.ex(PK(toks[i + 1:]).expr(), env, pre, TNat("usize"))
                for mod in [self.mod] + list(self.mod.uses):
                    arr = getattr(mod, "arrays", {}).get(x.ty.lean) if isinstance(mod, KModule) else None
                    if arr is not None:
                        return Val(f"Array.replicate {n.p()} {x.p()}", arr, False)
                raise TranslateError("vec![x; n] of an unsupported element type")
            raise TranslateError(f"macro {e[1]}! in expression position")
        raise TranslateError(f"unsupported expression {k}")

    def path(self, name, env, want):
        if name in env:
            return self.root_val(name, env)
        if name in ("true", "false"):
            return Val(name, TBool, True)
        if name in self.cgen:
            return Val(name, TNat("usize"), True)
        segs = name.split("::")
        for mod in [self.mod] + list(self.mod.uses):
            if not isinstance(mod, KModule):
                continue
            if name in mod.consts:
                c = mod.consts[name]
                lit = c[2] if len(c) > 2 else None
                if lit is not None and c[1].kind == "nat":
                    return Val(self.num(lit), c[1], True, lit=lit)
                return Val(c[0], c[1], True)
            if len(segs) == 2 and segs[0] in mod.enums and segs[1] in mod.enums[segs[0]][1]:
                return Val(mod.enums[segs[0]][1][segs[1]], Ty("enum", mod.enums[segs[0]][0], name=segs[0]), True)
        c = self.src_const(name)
        if c is not None:
            return c
        raise TranslateError(f"unknown identifier {name}")

    def src_const(self, name, depth=0):
        """`const NAME: T = <constant expression>;` read from the CURRENT source"""
        if not re.fullmatch(r"[A-Z][A-Z0-9_]*", name) or depth > 8:
            return None
        c = GUARD.find_const(self.raw, name)            # the ONE live definition (item #[cfg] evaluated), else refused
        if c is None or c[0] not in BITS:
            return None
        pc = PK(lex(c[1])); ce = pc.expr()
        if pc.peek()[0] != "eof":
            return None
        n = self.const_eval(ce, depth)
        if n is None:
            return None
        return self.lit_val(n, TNat(c[0]))

    def const_eval(self, e, depth=0):
        k = e[0]
        if k == "lit":
            return e[1]
        if k == "paren":
            return self.const_eval(e[1], depth)
        if k == "path":
            v = self.src_const(e[1], depth + 1)
            return v.lit if v is not None else None
        if k == "bin" and e[1] in ("+", "-", "*", "/", "<<"):
            a, b = self.const_eval(e[2], depth), self.const_eval(e[3], depth)
            if a is None or b is None or (e[1] == "/" and b == 0):
                return None
            return {"+": a + b, "-": a - b, "*": a * b, "/": a // max(b, 1), "<<": a << b}[e[1]]
        return None

    def struct_lit(self, e, env, pre):
        sty = self.named_ty(e[1])
        if sty.kind != "struct":
            raise TranslateError(f"struct literal of {e[1]}")
        given = dict(e[2])
        if len(given) != len(e[2]) or set(given) != {f for f, _ in sty.fields}:
            raise TranslateError(f"struct literal of {e[1]}: field set differs from the declaration")
        vals = {}
        for f, x in e[2]:                                   # evaluation in source order
            fty = dict(sty.fields)[f]
            v = self.coerce(self.ex(x, env, pre, fty), fty, f"field {f}")
            if fty.kind == "bytes" and fty.n is not None and v.ty.n != fty.n:
                raise TranslateError(f"field {f}: array length differs from the declaration")
            vals[f] = v
        return Val("{ " + ", ".join(f"{lean_id(f)} := {vals[f].t}" for f, _ in sty.fields) + " }", sty, True)

    def value_if(self, e, env, pre, want):
        """`if c { … v } else { … w }` as a value; a branch that can fail makes the whole `if` a bind"""
        c_pre = []
        c = self.cond(e[1], env, c_pre)
        pre.extend(c_pre)
        if e[3] is None:
            raise TranslateError("value-`if` without else")
        res = {}

        def branch(blk, tag):
            def kv(env2, v):
                if want is not None:
                    v = self.coerce(v, want, "if branch")
                res[tag] = v
                return Ret(v.t)
            return self.block(blk, env, self.no_fall, kv)
        na, nb = branch(e[2], "a"), branch(e[3], "b")
        a, b = res["a"], res["b"]
        self.compatible(a.ty, b.ty, "if branches")
        ty = a.ty
        if ty.kind == "bytes" and a.ty.n != b.ty.n:
            ty = TBytes(None)
        lit = a.lit if (a.lit is not None and a.lit == b.lit) else None
        if isinstance(na, Ret) and isinstance(nb, Ret):
            return Val(f"if {c} then {na.text} else {nb.text}", ty, False, lit=lit)
        t = self.tmp()
        pre.append(IfBindF(t, ty.lean, c, na, nb))
        return Val(t, ty, True)

    def no_fall(self, env):
        raise TranslateError("block without a value where one is needed")

    def no_value(self, env, v):
        raise TranslateError("value expression in statement position")

    def match_expr(self, e, env, pre, want):
        """`match opt { Some(x) => x, None => panic!(..) }` (value) / `match opt { Some(_) => {}, None => panic!(..) }` (statement)"""
        v = self.ex(e[1], env, pre)
        arms = e[2]
        if v.ty.kind != "opt" or len(arms) != 2:
            raise TranslateError("unsupported match")
        some = [a for a in arms if a[0] is not None and a[0][0] == "call" and a[0][1] == ("path", "Some")]
        none = [a for a in arms if a[0] == ("path", "None")]
        if len(some) != 1 or len(none) != 1:
            raise TranslateError("unsupported match arms")
        nb = none[0][1]
        if not (len(nb) == 1 and nb[0][0] in ("ret", "expr") and nb[0][1][0] == "macro" and nb[0][1][1] in ("panic", "unreachable")):
            raise TranslateError("`None` arm must panic")
        binder = some[0][0][2][0]
        if binder[0] != "path":
            raise TranslateError("unsupported `Some` pattern")
        sb = some[0][1]
        if binder[1] == "_":
            if sb:
                raise TranslateError("`Some(_)` arm must be empty")
            pre.append(BindF("_", v.t))
            return None
        if not (len(sb) == 1 and sb[0][0] == "ret" and sb[0][1] == binder):
            raise TranslateError("`Some(x)` arm must be `x`")
        t = self.tmp()
        pre.append(BindF(t, v.t))
        return Val(t, v.ty.inner, True)

    def cond(self, e, env, pre):
        v = self.ex(e, env, pre)
        if v.ty.kind == "bool":
            return v.t if v.at else v.t
        if v.ty.kind != "prop":
            raise TranslateError("condition is not boolean")
        return v.t

    CMP = {"==": "=", "!=": "≠", "<": "<", "<=": "≤", ">": ">", ">=": "≥"}

    @staticmethod
    def is_plain_lit(e):
        while e[0] == "paren":
            e = e[1]
        return e[0] == "lit" and not e[2]

    def two(self, e, env, pre, want):
        """both operands of a binary operator; an unsuffixed literal takes the type of the other side"""
        if self.is_plain_lit(e[2]) and not self.is_plain_lit(e[3]) and e[1] not in ("<<", ">>"):
            b = self.ex(e[3], env, pre, want)
            a = self.ex(e[2], env, pre, b.ty)
            if a.ty.kind == "nat" and b.ty.kind == "nat" and b.weak and not a.weak:
                a.weak = b.weak             # the literal took its type from a value that is itself unconfirmed
            return a, b
        a = self.ex(e[2], env, pre, want)
        start = len(pre)
        b = self.ex(e[3], env, pre, a.ty if e[1] not in ("<<", ">>") else None)
        if e[1] not in ("<<", ">>") and a.ty.kind == "nat" and b.ty.kind == "nat" and a.weak and not b.weak and self.is_plain_lit(e[3]):
            b.weak = a.weak
        self.order_check([a.t], pre, start)
        return a, b

    @staticmethod
    def as_prop(v):
        return v.p() if v.ty.kind == "prop" else f"{v.p()} = true"

    def binop(self, e, env, pre, want):
        op = e[1]
        if op in self.CMP:
            a, b = self.two(e, env, pre, None)
            self.wmeet(a, b)
            if a.ty.kind == "w64" and b.ty.kind == "nat":
                a = self.coerce(a, b.ty, "comparison")
            if b.ty.kind == "w64" and a.ty.kind == "nat":
                b = self.coerce(b, a.ty, "comparison")
            if a.ty.kind == "enum" and op in ("==", "!="):
                self.compatible(a.ty, b.ty, "comparison")
            elif a.ty.kind not in ("nat", "u8", "w64"):
                raise TranslateError("comparison of unsupported operands")
            else:
                self.compatible(a.ty, b.ty, "comparison")
            if a.lit is not None and b.lit is not None:
                r = {"==": a.lit == b.lit, "!=": a.lit != b.lit, "<": a.lit < b.lit, "<=": a.lit <= b.lit, ">": a.lit > b.lit,
                     ">=": a.lit >= b.lit}[op]
                return Val("True" if r else "False", TProp, True, lit=r)
            return Val(f"{a.p()} {self.CMP[op]} {b.p()}", TProp, False)
        if op in ("&&", "||"):
            a = self.ex(e[2], env, pre)
            if a.ty.kind == "prop" and a.lit is not None and a.lit == (op == "||"):
                return a                                   # short circuit decided by constants: the right operand is not evaluated
            sub = []
            b = self.ex(e[3], env, sub)
            if sub:
                raise TranslateError("short-circuit operand with a check")
            if a.ty.kind == "bool" and b.ty.kind == "bool":
                return Val(f"{a.p()} {op} {b.p()}", TBool, False)
            if a.ty.kind not in ("bool", "prop") or b.ty.kind not in ("bool", "prop"):
                raise TranslateError("logical operator on non-booleans")
            return Val(f"{self.as_prop(a)} {'∧' if op == '&&' else '∨'} {self.as_prop(b)}", TProp, False)
        a, b = self.two(e, env, pre, want if op not in ("<<", ">>") else want)
        if op in ("<<", ">>"):
            wk = a.weak
            self.wfirm(b.weak)              # (a shift count has its own type; whatever it is, the value is the same)
            if op == "<<":
                self.wuse(a, "the left operand of `<<` (the overflow guard depends on the width)")
        else:
            wk = self.wmeet(a, b) if (a.ty.kind == "nat" and b.ty.kind == "nat") else frozenset()
            if not wk:
                self.wfirm(a.weak | b.weak)
        r = self.binop2(op, a, b, pre)
        if wk:
            r = Val(r.t, r.ty, r.at, r.lit, r.lentext, wk)
        return r

    def binop2(self, op, a, b, pre):
        if a.ty.kind == "u8":
            if op in ("^", "&", "|") and b.ty.kind == "u8":
                sym = {'^': '^^^', '&': '&&&', '|': '|||'}[op]
                return Val(f"{a.p()} {sym} {b.p()}", TU8, False)
            raise TranslateError(f"operator {op} on u8 bytes")
        if a.ty.kind == "w64":
            return self.word_op(op, a, b, pre)
        if a.ty.kind != "nat" or b.ty.kind not in ("nat", "w64"):
            raise TranslateError(f"operator {op} on unsupported operands")
        if b.ty.kind == "w64":
            b = self.coerce(b, TNat("u64"), "operand")
        if op in ("<<", ">>"):
            return self.shift(op, a, b, pre)
        self.compatible(a.ty, b.ty, f"operator {op}")
        if op in ("&", "|", "^"):
            sym = {"&": "&&&", "|": "|||", "^": "^^^"}[op]
            return Val(f"{a.p()} {sym} {b.p()}", a.ty, False)
        if op in ("+", "-", "*", "/", "%"):
            return self.arith(op, a, b, pre)
        raise TranslateError(f"operator {op}")

    def word_op(self, op, a, b, pre):
        """operators on a UInt64 word (an element of an argon2 block)"""
        if op in ("<<", ">>"):
            if b.lit is None or b.lit >= 64:
                raise TranslateError("word shift by a non-literal")
            return Val(f"{a.p()} {'<<<' if op == '<<' else '>>>'} {b.t}", a.ty, False)
        if op in ("&", "|", "^"):
            if b.ty.kind == "nat" and b.lit is not None:
                b = self.lit_val(b.lit, a.ty)
            if b.ty.kind != "w64":
                raise TranslateError("word operator with a non-word operand")
            sym = {"&": "&&&", "|": "|||", "^": "^^^"}[op]
            return Val(f"{a.p()} {sym} {b.t if b.at and not b.t.startswith('(') else b.p()}", a.ty, False)
        if op in ("+", "-", "*", "/", "%"):
            # arithmetic on a word: on its value (u64)
            a = self.coerce(a, TNat("u64"), "operand")
            m = re.fullmatch(r"\((\w+) : UInt64\)", b.t) if b.ty.kind == "w64" else None
            if m:
                b = self.lit_val(int(m.group(1), 0), TNat("u64"))
            elif b.ty.kind == "w64":
                b = self.coerce(b, TNat("u64"), "operand")
            self.compatible(a.ty, b.ty, f"operator {op}")
            return self.arith(op, a, b, pre)
        raise TranslateError(f"operator {op} on a word")

    def shift(self, op, a, b, pre):
        rust = a.ty.rust
        bits = BITS[rust]
        if op == ">>":
            if b.lit is None or b.lit >= bits:
                raise TranslateError("`>>` by a non-literal")
            return Val(f"{a.p()} >>> {b.t}", a.ty, False)
        if a.lit is not None and b.lit is not None:
            if b.lit >= bits or (a.lit << b.lit) >= 2 ** bits:
                raise TranslateError("literal shift overflows")
            return Val(f"{a.t} <<< {b.t}", a.ty, False, lit=a.lit << b.lit)
        if a.lit == 1:
            # `1 << k`: the overflow-checked build panics for k ≥ width; no bit is lost otherwise
            if b.lit is None and self.mod.shift_guard:
                pre.append(GuardF(f"{b.p()} < {bits}"))
            return Val(f"1 <<< {b.p()}", a.ty, False)
        raise TranslateError("`<<` of a non-literal (kernel arithmetic is not translated here)")

    def arith(self, op, a, b, pre):
        rust = a.ty.rust
        bits = BITS[rust]
        if a.lit is not None and b.lit is not None:
            if op in ("/", "%") and b.lit == 0:
                raise TranslateError("literal division by zero")
            n = {"+": a.lit + b.lit, "-": a.lit - b.lit, "*": a.lit * b.lit, "/": a.lit // max(b.lit, 1), "%": a.lit % max(b.lit, 1)}[op]
            if n < 0 or n >= 2 ** bits:
                raise TranslateError("literal arithmetic overflows")
            return Val(self.num(n), a.ty, True, lit=n)
        pol = (self.spec.arith if getattr(self.spec, "arith", None) is not None else self.mod.arith).get(rust, {}).get(op)
        if op in ("/", "%") and b.lit is not None and b.lit != 0:
            return Val(f"{a.p()} {op} {b.p()}", a.ty, False)     # a non-zero constant divisor: no panic site
        if pol is None:
            raise TranslateError(f"`{op}` on {rust}: no arithmetic policy in the module spec")
        if isinstance(pol, tuple):
            pol = pol[0]
        if pol == "math":
            if op not in ("+", "*"):
                raise TranslateError("policy `math` is for + and * only")
            return Val(f"{a.p()} {op} {b.p()}", a.ty, False)
        if pol == "guard":
            c = {"+": f"{a.p()} + {b.p()} < 2 ^ {bits}", "*": f"{a.p()} * {b.p()} < 2 ^ {bits}", "-": f"{b.p()} ≤ {a.p()}",
                 "/": f"{b.p()} ≠ 0", "%": f"{b.p()} ≠ 0"}[op]
            pre.append(GuardF(c))
            return Val(f"{a.p()} {op} {b.p()}", a.ty, False)
        t = self.tmp()
        pre.append(BindF(t, f"{pol} {a.p()} {b.p()}"))
        return Val(t, a.ty, True)

    def cast(self, e, env, pre):
        to = e[2]
        if isinstance(to, tuple) or to not in BITS:
            raise TranslateError(f"cast to {to}")
        inner = e[1]
        # `core::usize::MAX as u32` and friends
        if inner[0] == "path" and inner[1].split("::")[-1] == "MAX" and len(inner[1].split("::")) >= 2:
            src_t = inner[1].split("::")[-2]
            if src_t in BITS:
                n = (2 ** BITS[src_t] - 1) % 2 ** BITS[to]
                return self.lit_val(n, TNat(to))
        v = self.ex(inner, env, pre, TNat(to) if self.is_plain_lit(inner) else None)
        self.wuse(v, "an `as` cast")
        ty = TNat(to)
        if v.ty.kind == "enum":
            tmpl = None
            for mod in [self.mod] + list(self.mod.uses):
                if isinstance(mod, KModule) and v.ty.name in mod.enums:
                    tmpl = mod.enums[v.ty.name][2]
            if tmpl is None:
                raise TranslateError("cast of an enum without discriminants")
            return Val(tmpl.format(v.p()), ty, False)
        if v.ty.kind == "w64":
            v = Val(f"{v.p()}.toNat", TNat("u64"), True)
        if v.ty.kind != "nat":
            raise TranslateError("cast of a non-integer")
        if v.lit is not None:
            return self.lit_val(v.lit % 2 ** BITS[to], ty)
        if BITS[to] >= BITS[v.ty.rust]:
            return Val(v.t, ty, v.at, lentext=v.lentext)
        return Val(f"{v.p()} % 2 ^ {BITS[to]}", ty, False)

    # ------------------------------------------------------------------------------------------- calls
    def lookup_fn(self, owner, name):
        return REGISTRY.get((owner, name))

    def ty_key(self, ty):
        if ty.kind in ("struct", "abs", "enum"):
            return ty.name
        if ty.kind == "ext":
            return ty.lean
        return ty.kind

    def find_ext_method(self, ty, name):
        for mod in [self.mod] + list(self.mod.uses):
            ext = mod.ext_methods.get((self.ty_key(ty), name)) or mod.ext_methods.get((ty.kind, name))
            if ext is not None:
                return ext
        return None

    def find_ext_fn(self, path):
        for mod in [self.mod] + list(self.mod.uses):
            if path in mod.ext_fns:
                return mod.ext_fns[path]
        return None

    def call(self, e, env, pre, want):
        if e[1][0] != "path":
            raise TranslateError("call of a non-path")
        path = e[1][1]
        args = e[2]
        segs = path.split("::")
        if path == "min" or path.endswith("::min"):
            a = self.ex(args[0], env, pre); b = self.ex(args[1], env, pre, a.ty)
            self.compatible(a.ty, b.ty, "min")
            return Val(f"min {a.p()} {b.p()}", a.ty, False, weak=self.wmeet(a, b))
        m = re.fullmatch(r"(?:\w+::)*size_of::<(\w+)>", path)
        if m and not args:
            if m.group(1) not in SIZE_OF:
                raise TranslateError(f"size_of::<{m.group(1)}>")
            return self.lit_val(SIZE_OF[m.group(1)], TNat("usize"))
        if len(segs) == 2 and segs[0] in BITS and segs[1] in ("to_le_bytes", "to_be_bytes") and len(args) == 1:
            v = self.ex(args[0], env, pre, TNat(segs[0]))
            return self.int_bytes(v, segs[1], segs[0])
        if path in ("Ok", "Err", "Some") and len(args) == 1:
            return self.ctor(path, args[0], env, pre, want)
        if path.split("::")[-2:] == ["NonZeroU32", "new"] and len(args) == 1:
            v = self.ex(args[0], env, pre, TNat("u32"))
            if v.ty.kind != "nat" or v.ty.rust != "u32":
                raise TranslateError("NonZeroU32::new of a non-u32")
            return Val(v.t, Ty("nzopt", "?", inner=v), v.at)
        nt = None
        if len(segs) == 1 and len(args) == 1:
            name_ = self.spec.owner if segs[0] == "Self" else segs[0]
            for mod in [self.mod] + list(self.mod.uses):
                if isinstance(mod, KModule) and name_ in mod.newtypes:
                    nt = mod.newtypes[name_]
        if nt is not None:
            v = self.ex(args[0], env, pre, nt)
            self.compatible(nt, v.ty, "newtype constructor")
            return Val(v.t, nt, v.at, lentext=v.lentext)
        ext = self.find_ext_fn(path)
        if ext is not None:
            return self.ext_call(ext, None, args, env, pre)
        info = None
        if len(segs) == 1:
            info = self.lookup_fn(None, segs[0])
        elif len(segs) == 2:
            owner = self.spec.owner if segs[0] == "Self" else segs[0]
            info = self.lookup_fn(owner, segs[1])
        if info is None:
            raise TranslateError(f"unknown function {path}")
        return self.fn_call(info, None, args, env, pre, want)

    def ctor(self, name, arg, env, pre, want):
        if name == "Some":
            v = self.ex(arg, env, pre, want.inner if want is not None and want.kind == "opt" else None)
            return Val(f"some {v.p()}", TOpt(v.ty), False)
        if want is None or want.kind != "res":
            raise TranslateError(f"`{name}(..)` where no Result is expected")
        if name == "Ok":
            v = self.coerce(self.ex(arg, env, pre, want.ok), want.ok, "Ok value")
            return Val(f".ok {v.p()}", want, False)
        v = self.coerce(self.ex(arg, env, pre, want.err), want.err, "Err value")
        return Val(f".error {v.p()}", want, False)

    def int_bytes(self, v, which, rust=None):
        if v.ty.kind != "nat" or (rust is not None and v.ty.rust != rust):
            raise TranslateError(f"{which} of a non-integer / of another type")
        if rust is None:
            self.wuse(v, f"`{which}`")
        k = BITS[v.ty.rust] // 8
        return Val(f"{'natToLE' if which == 'to_le_bytes' else 'natToBE'} {k} {v.p()}", TBytes(k), False)

    def method(self, e, env, pre, want):
        recv, name, args = e[1], e[2], e[3]
        # repeat(0).take(n).collect()
        if name == "collect" and recv[0] == "method" and recv[2] == "take" and recv[1][0] == "call" \
                and recv[1][1][0] == "path" and recv[1][1][1].split("::")[-1] == "repeat":
            z = self.lit_of(recv[1][2][0])
            if z != 0 or (want is not None and want.kind != "bytes"):
                raise TranslateError("unsupported repeat().take().collect()")
            n = self.ex(recv[3][0], env, pre, TNat("usize"))
            return Val(f"zeros {n.p()}", TBytes(n.lit), False, lentext=n.t)
        # a `&mut`-returning accessor as the receiver of a view: handled by out_arg / assignment only
        rplace = self.place(recv, env)
        if name == "copy_from_slice" and len(args) == 1 and rplace is not None:
            return self.copy_from_slice(rplace, args[0], env, pre)
        rv = self.ex(recv, env, pre)
        kind = rv.ty.kind
        if kind == "bytes":
            if name == "len" and not args:
                return Val(self.length_of(rv), TNat("usize"), True if re.fullmatch(r"[\w.]+", self.length_of(rv)) else False)
            if name in ("clone", "to_vec", "to_owned") and not args:
                return Val(rv.t, rv.ty, rv.at, lentext=rv.lentext)
            if name == "copy_from_slice" and len(args) == 1:
                return self.copy_from_slice(rplace, args[0], env, pre)
        if kind == "nat":
            if name in ("to_le_bytes", "to_be_bytes") and not args:
                return self.int_bytes(rv, name)
            if name == "get" and not args and getattr(rv.ty, "nonzero", False):
                return Val(rv.t, TNat(rv.ty.rust), rv.at)
            if name in ("checked_add", "checked_mul", "checked_sub") and len(args) == 1:
                b = self.ex(args[0], env, pre, rv.ty)
                self.compatible(rv.ty, b.ty, name)
                self.wmeet(rv, b)
                self.wuse(rv, f"`{name}`")
                tmpl = None
                for mod in [self.mod] + list(self.mod.uses):
                    if isinstance(mod, KModule) and (rv.ty.rust, name) in mod.checked:
                        tmpl = mod.checked[(rv.ty.rust, name)]
                        break
                if tmpl is None:
                    raise TranslateError(f"{name} on {rv.ty.rust}: no helper in the module spec")
                return Val(tmpl.format(rv.p(), b.p(), bits=BITS[rv.ty.rust]), TOpt(TNat(rv.ty.rust)), False)
        if kind == "nzopt":
            inner = rv.ty.inner
            nz = TNat("u32"); nz.nonzero = True
            if name in ("unwrap", "expect"):
                if inner.lit is None or inner.lit == 0:
                    raise TranslateError("NonZeroU32::new(x).unwrap() of a non-literal")
                return Val(inner.t, nz, True, lit=inner.lit)
            if name == "ok_or" and len(args) == 1:
                err = self.ex(args[0], env, pre)
                return Val(inner.t, Ty("ressplit", "?", cond=f"{inner.p()} = 0", err=err, ok=Val(inner.t, nz, inner.at)), inner.at)
        if kind == "ressplit" and name == "__try" and not args:
            if self.ret_ty is None or self.ret_ty.kind != "res" or self.out_vars or self.in_loop:
                raise TranslateError("`?` outside a Result-returning function")
            err = self.coerce(rv.ty.err, self.ret_ty.err, "error of `?`")
            cond = rv.ty.cond
            pre.append(lambda body: If(cond, Ret(f".error {err.p()}"), body))
            return rv.ty.ok
        if name == "into_boxed_slice" and not args and kind == "ext" and getattr(rv.ty, "arr", False):
            return rv
        if kind == "opt" and name in ("expect", "unwrap"):
            t = self.tmp()
            pre.append(BindF(t, rv.t))
            return Val(t, rv.ty.inner, True)
        if name == "clone" and not args and kind in ("struct", "ext", "enum", "w64", "nat", "abs"):
            return rv
        ext = self.find_ext_method(rv.ty, name)
        if ext is not None:
            return self.ext_call(ext, (recv, rplace, rv), args, env, pre)
        if kind == "struct":
            info = self.lookup_fn(rv.ty.name, name)
            if info is not None:
                return self.fn_call(info, (recv, rplace, rv), args, env, pre, want)
        raise TranslateError(f"unknown method {name} on {rv.ty}")

    def copy_from_slice(self, dst, src_e, env, pre):
        if dst is None:
            raise TranslateError("copy_from_slice into a non-place")
        if not dst.path or dst.path[-1][0] != "slice":
            dst = Place(dst.root, dst.path + [("slice", None, None)])
        parent = self.read_place(dst, env, pre, upto=len(dst.path) - 1)
        if parent.ty.kind != "bytes":
            raise TranslateError("copy_from_slice into a non-byte place")
        lo, hi, _, n, dlen = self.slice_guard(parent, dst.path[-1], env, pre)
        src = self.ex(src_e, env, pre)
        if src.ty.kind != "bytes":
            raise TranslateError("copy_from_slice from a non-byte value")
        slen = self.length_of(src)
        if not (dlen == slen or (n is not None and src.ty.n == n)):
            pre.append(GuardF(f"{slen} = {dlen}"))
        self.write_place(dst, src.t, env, pre, info=(lo, hi))
        return None

    def out_arg(self, a, env, pre):
        """an argument passed as `&mut`: (current value, write-back fn (new text, pre) -> None, direct variable name or None)"""
        pl = self.place(a, env)
        if pl is None:
            lens = self.lens_of(a, env, pre)
            if lens is not None:
                return lens
            raise TranslateError("`&mut` argument is not a place")
        if pl.path and pl.path[-1][0] == "slice":
            parent = self.read_place(pl, env, pre, upto=len(pl.path) - 1)
            lo, hi, text, n, lent = self.slice_guard(parent, pl.path[-1], env, pre)
            if lo is None and hi is None:
                pl2 = Place(pl.root, pl.path[:-1])
                return (Val(text, parent.ty, parent.at, lentext=parent.lentext),
                        (lambda new, post: self.write_place(pl2, new, env, post)), lean_id(pl2.root) if not pl2.path else None)
            return (Val(text, TBytes(n), False, lentext=lent),
                    (lambda new, post: self.write_place(pl, new, env, post, info=(lo, hi))), None)
        if pl.path and pl.path[-1][0] == "elem":
            raise TranslateError("`&mut` of an array element")
        cur = self.read_place(pl, env, pre)
        direct = lean_id(pl.root) if not pl.path else None
        return cur, (lambda new, post: self.write_place(pl, new, env, post)), direct

    def lens_info(self, e, env):
        """e = `recv.m(args)` where `m` is a `&mut`-returning accessor translated as a lens -> (info, recv expr, args)"""
        while e[0] in ("paren", "deref"):
            e = e[1]
        if e[0] != "method":
            return None
        try:
            rv = self.ex(e[1], env, [])
        except TranslateError:
            return None
        if rv.ty.kind != "struct":
            return None
        info = self.lookup_fn(rv.ty.name, e[2])
        if info is None or getattr(info, "lens", None) is None:
            return None
        return info, e[1], e[3]

    def lens_texts(self, info, recv_e, args, env, pre):
        """(receiver value, write-back of the receiver, argument text)"""
        cur, wb, direct = self.out_arg(recv_e, env, pre)
        params = info.params[1:]
        if len(args) != len(params):
            raise TranslateError("lens arity")
        texts = []
        for a, (pn, pty, mode) in zip(args, params):
            if mode != "val":
                raise TranslateError("lens with a `&mut` argument")
            texts.append(self.coerce(self.ex(a, env, pre, pty), pty, f"argument {pn}").p())
        return cur, wb, direct, " ".join(texts)

    def lens_of(self, a, env, pre):
        """`recv.m(args).view()` passed as `&mut`: current value through the getter + view, write-back through the setter"""
        e = a
        while e[0] in ("paren", "deref"):
            e = e[1]
        view = None
        if e[0] == "method" and not e[3]:
            li = self.lens_info(e[1], env)
            if li is not None:
                view = e[2]
        if view is None:
            li = self.lens_info(e, env)
        if li is None:
            return None
        info, recv_e, args = li
        get_name, set_name, elem, gfal, sfal = info.lens
        cur, wb, direct, argt = self.lens_texts(info, recv_e, args, env, pre)
        g = f"{get_name} {cur.p()} {argt}".rstrip()
        if gfal:
            t = self.tmp(); pre.append(BindF(t, g)); gv = Val(t, elem, True)
        else:
            gv = Val(g, elem, False)
        to_t, from_t, vty = None, None, elem
        if view is not None:
            for mod in [self.mod] + list(self.mod.uses):
                if isinstance(mod, KModule) and (elem.lean, view) in mod.views:
                    to_t, from_t, vty = mod.views[(elem.lean, view)]
            if to_t is None:
                raise TranslateError(f"unknown view {view}")
            gv = Val(to_t.format(gv.p()), vty, False)

        def write(new, post):
            nv = from_t.format(atomize(new) if re.fullmatch(r"[\w.]+", new) else f"({new})") if from_t else new
            text = f"{set_name} {cur.p()} {argt}".rstrip() + " " + ok_atom(nv)
            if direct is not None:
                post.append(BindF(direct, text) if sfal else LetF(direct, text))
            else:
                t2 = self.tmp()
                post.append(BindF(t2, text) if sfal else LetF(t2, text))
                wb(t2, post)
        return gv, write, None

    def bind_results(self, text, fails, outs, ret_ty, pre):
        """bind the results of a call: outs = [(write-back fn, direct name or None)] -> Val or None"""
        pats, post = [], []
        for wb, direct in outs:
            if direct is not None:
                pats.append(direct)
            else:
                t = self.tmp(); pats.append(t); wb(t, post)
        has_ret = ret_ty is not None and ret_ty.kind != "unit"
        if not fails and not outs and has_ret:
            return Val(text, ret_ty, False)
        rv = None
        if has_ret:
            t = self.tmp(); pats.append(t); rv = Val(t, ret_ty, True)
        if not pats:
            if not fails:
                raise TranslateError("call without effect")
            pats = ["_"]
        pat = tup(pats)
        pre.append(BindF(pat, text) if fails else LetF(pat, text))
        pre.extend(post)
        return rv

    def dict_for(self, callee_mod, callee_fn):
        """dictionary argument text for a call of a function of a generic module"""
        if not callee_mod.generic:
            return ""
        if self.mod.generic:
            if self.mod.generic[3] != callee_mod.generic[3] and not (isinstance(self.mod, KModule) and callee_fn in self.mod.dicts):
                raise TranslateError("generic callee with another dictionary")
            if self.mod.generic[3] == callee_mod.generic[3]:
                return self.mod.generic[2] + " "
        if isinstance(self.mod, KModule) and callee_fn in self.mod.dicts:
            return self.mod.dicts[callee_fn] + " "
        raise TranslateError(f"generic callee {callee_fn} from a module without a dictionary for it")

    @staticmethod
    def order_check(earlier_texts, pre, start):
        """a later operand / argument whose evaluation re-binds a variable that an EARLIER operand's text mentions is refused
        (the earlier text would observe the later effect)"""
        bound = set()
        for fr in pre[start:]:
            pat = getattr(fr, "pat", None)
            if isinstance(pat, str):
                bound |= {x for x in re.findall(r"[A-Za-z_][A-Za-z0-9_']*", pat) if not is_temp(x)}
        for t in earlier_texts:
            if bound & set(re.findall(r"[A-Za-z_][A-Za-z0-9_']*", t)):
                raise TranslateError("an argument re-binds a variable used by an earlier argument (evaluation order)")

    def fn_call(self, info, recv, args, env, pre, want=None):
        params = list(info.params)
        texts, outs = [], []
        actuals = ([recv[0]] if recv is not None else []) + list(args)
        if len(actuals) != len(params):
            raise TranslateError(f"arity of {info.spec.fn}")
        cg = []
        for a, (pn, pty, mode) in zip(actuals, params):
            start = len(pre)
            if mode == "mut":
                cur, wb, direct = self.out_arg(a, env, pre)
                self.order_check(texts, pre, start)
                if not (pty.kind == "abs" and not self.mod.generic):     # instantiated by the caller's dictionary (`Module.dicts`)
                    self.compatible(pty, cur.ty, f"argument {pn}")
                if pty.kind == "bytes" and pty.n is not None and cur.ty.n is not None and cur.ty.n != pty.n:
                    raise TranslateError(f"argument {pn}: array length")
                texts.append(cur.p()); outs.append((wb, direct))
            else:
                v = self.coerce(self.ex(a, env, pre, pty), pty, f"argument {pn}")
                self.order_check(texts, pre, start)
                if pty.kind == "bytes" and pty.n is not None and v.ty.n is not None and v.ty.n != pty.n:
                    raise TranslateError(f"argument {pn}: array length")
                texts.append(v.p())
        if info.cgen:
            raise TranslateError("call of a const-generic function")
        gen = self.dict_for(info.spec.mod, info.spec.fn)
        text = f"{info.spec.lean_name} {gen}" + " ".join(texts)
        return self.bind_results(text.rstrip(), info.fallible, outs, info.ret, pre)

    def ext_call(self, ext, recv, args, env, pre):
        if len(args) != len(ext.args):
            raise TranslateError("extern arity")
        fmt, outs, sets = {}, [], []
        if recv is not None:
            if ext.mut_self:
                cur, wb, direct = self.out_arg(recv[0], env, pre)
                fmt["self"] = cur.p(); outs.append((wb, direct))
            else:
                fmt["self"] = recv[2].p()
        vals = []
        for i, (a, mode) in enumerate(zip(args, ext.args)):
            start = len(pre)
            if mode == "val":
                v = self.ex(a, env, pre, ext.argty.get(i))
                if i in ext.argty:
                    v = self.coerce(v, ext.argty[i], "extern argument")
            else:
                v, wb, direct = self.out_arg(a, env, pre)
                if mode == "out":
                    outs.append((wb, direct))
                else:
                    sets.append((i, wb))
            self.order_check([fmt.get("self", "")] + [x.t for x in vals], pre, start)
            if i in ext.arg_len:
                if v.ty.kind != "bytes":
                    raise TranslateError("extern argument is not a byte string")
                if v.ty.n is None:
                    # the callee panics unless the slice has exactly this length: a run-time test
                    pre.append(GuardF(f"{self.length_of(v)} = {ext.arg_len[i]}"))
                elif v.ty.n != ext.arg_len[i]:
                    raise TranslateError(f"extern argument of {v.ty.n} bytes where exactly {ext.arg_len[i]} are required")
            vals.append(v)
        tr = self

        class F(dict):
            def __missing__(s, key):
                if key.endswith(".len"):
                    return atomize(tr.length_of(vals[int(key[:-4])]))
                return vals[int(key)].p()
        f = F(fmt)
        f["D"] = self.mod.generic[2] if self.mod.generic else ""
        text = re.sub(r"\{([\w.]+)\}", lambda m: f[m.group(1)], ext.lean)
        if not outs and not ext.fails and ext.ret is not None:
            rv = Val(text, ext.ret, False)
        elif not outs and not ext.fails and ext.ret is None:
            rv = None
        else:
            rv = self.bind_results(text, bool(ext.fails), outs, ext.ret, pre)
        for i, wb in sets:
            new = re.sub(r"\{([\w.]+)\}", lambda m: f[m.group(1)], ext.writes[i])
            wb(new, pre)
        return rv

    # ------------------------------------------------------------------------------------------- statements
    def mut_arg_positions(self, e, env):
        """indices (into the argument list) of the arguments a call passes as `&mut`; receiver mutated? -> (idxs, recv_mut)"""
        try:
            if e[0] == "call":
                path = e[1][1] if e[1][0] == "path" else None
                ext = self.find_ext_fn(path) if path else None
                if ext is not None:
                    return [i for i, m in enumerate(ext.args) if m != "val"], False
                segs = (path or "").split("::")
                info = self.lookup_fn(None, segs[0]) if len(segs) == 1 else self.lookup_fn(
                    self.spec.owner if segs[0] == "Self" else segs[0], segs[-1])
                if info is not None:
                    return [i for i, p in enumerate(info.params) if p[2] == "mut"], False
                return [], False
            rv = self.ex(e[1], env, [])
            if rv.ty.kind == "bytes":
                return [], e[2] in ("copy_from_slice",)
            ext = self.find_ext_method(rv.ty, e[2])
            if ext is not None:
                return [i for i, m in enumerate(ext.args) if m != "val"], ext.mut_self
            if rv.ty.kind == "struct":
                info = self.lookup_fn(rv.ty.name, e[2])
                if info is not None:
                    return [i - 1 for i, p in enumerate(info.params) if p[2] == "mut" and i > 0], info.params[0][2] == "mut"
            return [], False
        except TranslateError:
            return [], True

    def assigned_roots(self, stmts, env):
        """root variables (of `env`) a statement list may assign, in `env` order (conservative, syntactic)"""
        acc = set()
        local_env = dict(env)

        def root_of(e):
            while e[0] in ("paren", "deref", "field", "index", "method"):
                e = e[1]
            if e[0] == "path" and e[1] in env:
                acc.add(e[1])

        def walk_e(e):
            if not isinstance(e, tuple) or not e:
                return
            k = e[0]
            if k == "method":
                walk_e(e[1])
                for a in e[3]:
                    walk_e(a)
                idxs, rmut = self.mut_arg_positions(e, local_env)
                if rmut:
                    root_of(e[1])
                for i in idxs:
                    root_of(e[3][i])
            elif k == "call":
                for a in e[2]:
                    walk_e(a)
                idxs, _ = self.mut_arg_positions(e, local_env)
                for i in idxs:
                    root_of(e[2][i])
            elif k == "if":
                walk_e(e[1]); walk(e[2]); walk(e[3] or [])
            elif k == "match":
                walk_e(e[1])
                for _, b in e[2]:
                    walk(b)
            elif k == "bin":
                walk_e(e[2]); walk_e(e[3])
            elif k in ("paren", "not", "deref", "cast", "field"):
                walk_e(e[1])
            elif k == "index":
                walk_e(e[1]); walk_e(e[2])
            elif k == "struct":
                for _, v in e[2]:
                    walk_e(v)
            elif k in ("tuple", "array"):
                for v in e[1]:
                    walk_e(v)
            elif k == "blockexpr":
                walk(e[1])

        def walk(ss):
            for s in ss:
                if s[0] == "let":
                    if s[3] is not None:
                        walk_e(s[3])
                elif s[0] == "assign":
                    root_of(s[1]); walk_e(s[1]); walk_e(s[3])
                elif s[0] in ("expr", "ret", "return"):
                    if s[1] is not None:
                        walk_e(s[1])
                elif s[0] == "for":
                    walk_e(s[2])
                    # an iterated `iter_mut()` / `chunks_mut()` receiver is assigned
                    it = s[2]
                    while it[0] == "method":
                        if it[2] in ("iter_mut", "chunks_mut"):
                            root_of(it[1])
                        it = it[1]
                    walk(s[3])
                elif s[0] == "while":
                    walk_e(s[1]); walk(s[2])
                else:
                    raise TranslateError(f"unsupported statement {s[0]} in a loop / branch body")
        walk(stmts)
        return [n for n in env if n in acc]

    @staticmethod
    def diverges(blk):
        if not blk:
            return False
        s = blk[-1]
        if s[0] == "return":
            return True
        if s[0] in ("expr", "ret") and s[1][0] == "macro" and s[1][1] in ("panic", "unreachable"):
            return True
        return False

    def params_text(self, names, env):
        return " ".join(f"({lean_id(n)} : {env[n].lean})" for n in names)

    def generic_binders(self):
        g = self.mod.generic
        return f"{{{g[1]} : Type}} ({g[2]} : {g[3]}) " if g else ""

    def dict_arg(self):
        return (self.mod.generic[2] + " ") if self.mod.generic else ""

    def block(self, stmts, env, k, kv):
        self.scopes.append(set(env))
        try:
            return self.seq(stmts, 0, dict(env), k, kv)
        finally:
            self.scopes.pop()

    def check_shadow(self, name):
        if any(name in sc for sc in self.scopes):
            raise TranslateError(f"`let {name}` in a nested block shadows an outer variable (outside the translated subset)")

    def seq(self, stmts, i, env, k, kv):
        if i >= len(stmts):
            return k(env)
        s = stmts[i]
        rest = lambda env2: self.seq(stmts, i + 1, env2, k, kv)
        kind = s[0]
        if kind == "let":
            return self.do_let(s, env, rest)
        if kind == "assign":
            return self.do_assign(s, env, rest)
        if kind == "return":
            if self.in_loop:
                raise TranslateError("`return` inside a loop body")
            pre = []
            v = self.ex(s[1], env, pre, self.ret_ty) if s[1] is not None else None
            return self.wrap(pre, self.final(env, v))
        if kind in ("ret", "expr"):
            e = s[1]
            last = i == len(stmts) - 1
            if e[0] == "if" and not (kind == "ret" and last and self.is_value_if(e)):
                return self.do_if(e, env, stmts, i, k, kv)
            if e[0] == "macro":
                return self.do_macro(e, env, rest)
            if e[0] == "blockexpr":
                raise TranslateError("block expression statement")
            pre = []
            if e[0] in ("call", "method", "match"):
                v = (self.call if e[0] == "call" else self.method if e[0] == "method" else self.match_expr)(e, env, pre, self.ret_ty if (kind == "ret" and last) else None)
                if v is None or kind == "expr":
                    return self.wrap(pre, rest(env))
                return self.wrap(pre, kv(env, v))
            if kind == "expr":
                raise TranslateError(f"unsupported expression statement {e[0]}")
            v = self.ex(e, env, pre, self.ret_ty)
            return self.wrap(pre, kv(env, v))
        if kind == "for":
            return self.do_for(s, env, rest)
        if kind == "while":
            return self.do_while(s, env, rest)
        raise TranslateError(f"unsupported statement {kind}")

    def is_value_if(self, e):
        def val_block(b):
            return b is not None and len(b) >= 1 and b[-1][0] == "ret" and not (b[-1][1][0] == "macro")
        return val_block(e[2]) and val_block(e[3])

    def do_let(self, s, env, rest):
        pat, ty, init = s[1], s[2], s[3]
        if pat[0] != "var":
            raise TranslateError("unsupported `let` pattern")
        name = pat[1]
        self.check_shadow(name)
        env2 = dict(env)
        if init is None:
            env2[name] = Ty("uninit", "?", decl=self.conv(ty) if ty is not None else None)
            return rest(env2)
        want = self.conv(ty) if ty is not None else None
        pre = []
        v = self.ex(init, env, pre, want)
        if want is not None:
            v = self.coerce(v, want, f"let {name}")
            if want.kind == "bytes" and want.n is not None and v.ty.n != want.n:
                raise TranslateError("array length of a let")
        if name == "_":
            return self.wrap(pre, rest(env2))
        if v.ty.kind == "prop":
            v = self.coerce(v, TBool, f"let {name}")
        vty = v.ty
        if vty.kind == "bytes" and v.lentext is not None and vty.n is None:
            pass
        if v.weak and vty.kind == "nat":
            import copy as _copy
            vty = _copy.copy(vty); vty.weak = v.weak
        env2[name] = vty
        return self.wrap(pre, self.bind_name(name, v, pre, rest(env2)))

    def note_write(self, *names):
        for fr in self.wlog:
            for n in names:
                for x in re.findall(r"[A-Za-z_][A-Za-z0-9_']*", n):
                    fr.add(x)

    def check_writes(self, frame, env, allowed, what):
        """every outer variable re-bound inside a nested body must be among the variables that body is known to assign"""
        bad = [n for n in env if lean_id(n) in frame and n not in allowed and env[n].kind != "uninit"]
        if bad:
            raise TranslateError(f"internal: {what} assigns {bad} which the translator did not list as assigned")

    def bind_name(self, name, v, pre, body):
        self.note_write(lean_id(name))
        """`let name := v` — when v is the temporary bound by the last frame, that frame binds `name` directly"""
        ln = lean_id(name)
        if v.at and v.t == ln:
            return body
        if v.at and is_temp(v.t) and pre and isinstance(pre[-1], (BindF, LetF, IfBindF)) and pre[-1].pat == v.t:
            pre[-1].pat = ln
            return body
        if v.t.startswith("{ ") and " with " not in v.t:
            ln += f" : {v.ty.lean}"
        return Let(ln, v.t, body)

    def do_assign(self, s, env, rest):
        lhs, op, rhs = s[1], s[2], s[3]
        pl = self.place(lhs, env)
        if pl is None:
            return self.assign_through(lhs, op, rhs, env, rest)
        pre = []
        if op == "^=" and env[pl.root].kind != "uninit":
            lt = self.place_type(pl, env)
            if lt.kind == "ext" and self.find_ext_method(lt, "bitxor_assign") is not None:
                self.method(("method", lhs, "bitxor_assign", [rhs]), env, pre, None)
                return self.wrap(pre, rest(dict(env)))
        if op != "=":
            rhs = ("bin", op[:-1], lhs, rhs)
        if env[pl.root].kind == "uninit":
            if pl.path or op != "=":
                raise TranslateError("partial assignment of an unassigned variable")
            decl = env[pl.root].decl
            v = self.ex(rhs, env, pre, decl)
            if decl is not None:
                v = self.coerce(v, decl, "assignment")
            env2 = dict(env); env2[pl.root] = v.ty
            return self.wrap(pre, self.bind_name(pl.root, v, pre, rest(env2)))
        tyl = self.place_type(pl, env)
        # Rust evaluates the right-hand side first, then the place (index check)
        v = self.ex(rhs, env, pre, tyl)
        dest_weak = getattr(tyl, "weak", frozenset()) if not pl.path else frozenset()
        if dest_weak and v.weak:
            self.wunion(sorted(dest_weak | v.weak))
            v = Val(v.t, v.ty, v.at, v.lit, v.lentext)
        elif dest_weak:
            self.wfirm(dest_weak)
        v = self.coerce(v, tyl, "assignment")
        info = None
        if pl.path and pl.path[-1][0] == "elem":
            parent = self.read_place(pl, env, [], upto=len(pl.path) - 1)
            ix = self.ex(pl.path[-1][1], env, pre, TNat("usize"))
            self.wfirm(ix.weak)
            if ix.ty.kind != "nat" or ix.ty.rust != "usize":
                raise TranslateError("index is not a usize")
            if parent.ty.kind == "bytes":
                if not (ix.lit is not None and parent.ty.n is not None and ix.lit < parent.ty.n):
                    pre.append(GuardF(f"{ix.t} < {self.length_of(parent)}"))
                info = ("set", ix.p())
            elif parent.ty.kind == "ext" and getattr(parent.ty, "elem", None) is not None:
                if ix.lit is not None and parent.ty.n is not None:
                    if ix.lit >= parent.ty.n:
                        raise TranslateError("constant index beyond the array length")
                    info = ("set", ix.p())
                else:
                    pre.append(GuardF(f"{ix.t} < " + (str(parent.ty.n) if parent.ty.n is not None else f"{parent.p()}.size")))
                    info = ("setIfInBounds", ix.p())
            else:
                raise TranslateError("element assignment into a non-array")
        elif pl.path and pl.path[-1][0] == "slice":
            raise TranslateError("assignment to a slice")
        env2 = dict(env)
        if not pl.path:
            if tyl.kind == "bytes" and tyl.n is not None and v.ty.n != tyl.n:
                raise TranslateError("array assignment of another length")
            return self.wrap(pre, self.bind_name(pl.root, v, pre, rest(env2)))
        self.write_place(pl, v.t, env, pre, info=info)
        return self.wrap(pre, rest(env2))

    def assign_through(self, lhs, op, rhs, env, rest):
        """`*recv.m(args) = e;` through a lens"""
        li = self.lens_info(lhs, env)
        if li is None or op != "=":
            raise TranslateError("assignment to a non-place")
        info, recv_e, args = li
        get_name, set_name, elem, gfal, sfal = info.lens
        pre = []
        v = self.coerce(self.ex(rhs, env, pre, elem), elem, "assignment")
        cur, wb, direct, argt = self.lens_texts(info, recv_e, args, env, pre)
        text = f"{set_name} {cur.p()} {argt}".rstrip() + " " + v.p()
        if direct is not None:
            pre.append(BindF(direct, text) if sfal else LetF(direct, text))
        else:
            t2 = self.tmp()
            pre.append(BindF(t2, text) if sfal else LetF(t2, text))
            wb(t2, pre)
        return self.wrap(pre, rest(dict(env)))

    def do_macro(self, e, env, rest):
        name, args = e[1], e[2]
        if name == "assert" and len(args) >= 1:
            c_ast = PK(list(args[0])).expr()
            pre = []
            c = self.ex(c_ast, env, pre)
            if c.ty.kind == "prop" and c.lit is True:
                return self.wrap(pre, rest(env))           # decided by constants (e.g. `size_of::<usize>() >= size_of::<u32>() || …`)
            if c.ty.kind not in ("bool", "prop"):
                raise TranslateError("assert! of a non-boolean")
            return self.wrap(pre, Guard(c.t, rest(env)))
        if name in ("panic", "unreachable"):
            return Fail()
        raise TranslateError(f"unsupported macro {name}!")

    def do_if(self, e, env, stmts, i, k, kv):
        c_pre = []
        c = self.cond(e[1], env, c_pre)
        a, b = e[2], e[3] or []
        more = i + 1 < len(stmts)
        da, db = self.diverges(a), self.diverges(b)
        if not more or da or db:
            cont = lambda env2: self.seq(stmts, i + 1, {n: env2[n] for n in env2 if n in env}, k, kv)
            na = self.block(a, env, cont, kv if not more else self.no_value)
            nb = self.block(b, env, cont, kv if not more else self.no_value)
            return self.wrap(c_pre, If(c, na, nb))
        names = self.assigned_roots(a + b, env)
        if not names:
            raise TranslateError("`if` without effect")
        got = {}

        def retk(tag):
            def f(env2):
                got[tag] = env2
                return Ret(tup([lean_id(n) for n in names]))
            return f
        self.wlog.append(set())
        try:
            na = self.block(a, env, retk("a"), self.no_value)
            nb = self.block(b, env, retk("b"), self.no_value)
            self.check_writes(self.wlog[-1], env, set(names), "an `if` branch")
        finally:
            self.wlog.pop()
        env2 = dict(env)
        for n in names:
            ta, tb = got["a"][n], got["b"][n]
            if ta.kind == "uninit" or tb.kind == "uninit":
                raise TranslateError(f"`{n}` is not assigned in both branches")
            self.compatible(ta, tb, f"variable {n} after the if")
            env2[n] = ta if not (ta.kind == "bytes" and ta.n != tb.n) else TBytes(None)
        tys = [env2[n].lean for n in names]
        body = self.seq(stmts, i + 1, env2, k, kv)
        return self.wrap(c_pre, IfBind([lean_id(n) for n in names], tys, c, na, nb, body))

    # ------------------------------------------------------------------------------------------- loops
    def carried_and_captured(self, body_stmts, extra_exprs, env, exclude=()):
        carried = [n for n in self.assigned_roots(body_stmts, env) if n not in exclude and env[n].kind != "uninit"]
        used = names_in(body_stmts, set())
        for x in extra_exprs:
            names_in(x, used)
        # an auxiliary def of an inner loop captures by name as well: names_in sees the whole body
        captured = [n for n in env if n in used and n not in carried and n not in exclude and env[n].kind != "uninit"]
        return carried, captured

    def new_loop(self):
        self.nloop += 1
        a = Aux(f"{self.base}_loop{self.nloop}_src")
        return a

    def emit_loop(self, aux, captured, env, head_ty, carried, ctys, zero_pat, step_pat, bnode, doc, fuel=False):
        """render `def aux captured… : head_ty → carried… → M (carried…)` with the two equations.  fuel=True (`while` loops): the first
        equation is fuel EXHAUSTION and is the failure `none`, never a value (audit 3, F11)"""
        aux.fallible = fallible(bnode) or fuel
        R = Render(not aux.fallible)
        rty = tup_ty(ctys)
        m = f"Option {paren_ty(rty)}" if aux.fallible else rty
        sig = " → ".join([head_ty] + ctys + [m])
        cp = ", ".join(carried)
        ptext = self.params_text(captured, env)
        ptext = (ptext + " ") if ptext else ""
        zero = f"  | {zero_pat}, {cp} => {R.ok(tup(carried))}\n"
        if fuel:
            zero = f"  | {zero_pat}, " + ", ".join("_" for _ in carried) + " => none\n"
        aux.text = (f"/-- {doc} -/\n"
                    f"def {aux.name} {self.generic_binders()}{ptext}: {sig}\n" + zero +
                    f"  | {step_pat}, {cp} =>\n" + R.go(bnode, 4))
        self.aux.append(aux)

    def loop_body(self, body, benv, rec_text, carried=(), local=()):
        self.in_loop += 1
        self.wlog.append(set())
        try:
            node = self.block(body, benv, lambda env2: Tail(rec_text), self.no_value)
            self.check_writes(self.wlog[-1], benv, set(carried) | set(local), "a loop body")
            return node
        finally:
            self.in_loop -= 1
            self.wlog.pop()

    def do_for(self, s, env, rest):
        pat, it, body = s[1], s[2], s[3]
        if it[0] == "range":
            if pat[0] != "var":
                raise TranslateError("for pattern")
            return self.for_range(pat[1], it, body, env, rest)
        if it[0] == "method":
            chain = []
            x = it
            while x[0] == "method":
                chain.append((x[2], x[3])); x = x[1]
            chain.reverse()
            names = [c[0] for c in chain]
            if names == ["chunks_mut"] and pat[0] == "var":
                return self.for_chunks_mut(pat[1], x, chain[0][1], body, env, rest)
            if names == ["chunks", "enumerate"] and pat[0] == "tuple" and len(pat[1]) == 2 and all(p[0] == "var" for p in pat[1]):
                return self.for_chunks_enum(pat[1][0][1], pat[1][1][1], x, chain[0][1], body, env, rest)
            if names[0] == "iter_mut" and all(n == "zip" for n in names[1:]) and 1 <= len(names) - 1 <= 2:
                return self.for_zip(pat, x, [c[1] for c in chain[1:]], body, env, rest)
        raise TranslateError("unsupported `for` iterator")

    def for_range(self, var, it, body, env, rest):
        lo_e, hi_e = rng(it)
        if lo_e is None or hi_e is None:
            raise TranslateError("unbounded range")
        pre = []
        if self.is_plain_lit(lo_e) and not self.is_plain_lit(hi_e):
            hi = self.ex(hi_e, env, pre)
            lo = self.ex(lo_e, env, pre, hi.ty)
        else:
            lo = self.ex(lo_e, env, pre)
            hi = self.ex(hi_e, env, pre, lo.ty)
        if lo.ty.kind != "nat" or hi.ty.kind != "nat" or lo.ty.rust != hi.ty.rust:
            raise TranslateError("range bounds")
        if self.is_plain_lit(lo_e) and not self.is_plain_lit(hi_e) and hi.weak:
            lo.weak = hi.weak
        elif self.is_plain_lit(hi_e) and not self.is_plain_lit(lo_e) and lo.weak:
            hi.weak = lo.weak
        rng_weak = self.wmeet(lo, hi)
        used = var != "_" and var in names_in(body, set())
        carried, captured = self.carried_and_captured(body, [], env, exclude=(var,))
        if not carried:
            raise TranslateError("loop without effect")
        aux = self.new_loop()
        benv = {n: env[n] for n in captured + carried}
        benv.update({n: env[n] for n in env if env[n].kind == "uninit"})
        if used:
            self.check_shadow(var)
            benv[var] = lo.ty
            if rng_weak:
                import copy as _copy
                benv[var] = _copy.copy(lo.ty); benv[var].weak = rng_weak
        cl = [lean_id(n) for n in carried]
        cap_args = "".join(lean_id(n) + " " for n in captured)
        if lo.lit is not None and hi.lit is not None:
            count = str(max(hi.lit - lo.lit, 0))
        else:
            count = hi.t if lo.lit == 0 else f"{hi.p()} - {lo.p()}"
        count = count if re.fullmatch(r"[\w.]+", count) else f"({count})"
        if used:
            rec = f"{aux.name} {self.dict_arg()}{cap_args}rest_ " + " ".join(cl)
            bnode = self.loop_body(body, benv, rec, carried, (var,))
            self.emit_loop(aux, captured, env, "List Nat", cl, [env[n].lean for n in carried], "[]", f"{lean_id(var)} :: rest_", bnode,
                           f"`for {var} in lo..hi` of `fn {self.spec.fn}`: the remaining values of `{var}`")
            lst = f"(List.range {hi.p()})" if lo.lit == 0 else f"(List.range' {lo.p()} {count})"
            call = f"{aux.name} {self.dict_arg()}{cap_args}{lst} " + " ".join(cl)
        else:
            rec = f"{aux.name} {self.dict_arg()}{cap_args}cnt " + " ".join(cl)
            bnode = self.loop_body(body, benv, rec, carried)
            self.emit_loop(aux, captured, env, "Nat", cl, [env[n].lean for n in carried], "0", "cnt + 1", bnode,
                           f"`for _ in lo..hi` of `fn {self.spec.fn}`: `cnt` iterations")
            call = f"{aux.name} {self.dict_arg()}{cap_args}{count} " + " ".join(cl)
        return self.wrap(pre, LoopCall(tup(cl), call, aux, rest(dict(env))))

    def chunk_source(self, x, n_args, env, pre):
        if len(n_args) != 1:
            raise TranslateError("chunks arity")
        pl = self.place(x, env)
        if pl is None:
            raise TranslateError("chunks of a non-place")
        buf = self.read_place(pl, env, pre)
        if buf.ty.kind != "bytes":
            raise TranslateError("chunks of a non-byte value")
        n = self.ex(n_args[0], env, pre, TNat("usize"))
        self.wfirm(n.weak)
        if n.ty.kind != "nat" or n.ty.rust != "usize":
            raise TranslateError("chunk size is not a usize")
        if n.lit is None:
            pre.append(GuardF(f"{n.p()} ≠ 0"))             # `chunks(0)` / `chunks_mut(0)` panic
        elif n.lit == 0:
            raise TranslateError("chunks(0)")
        return pl, buf, n

    def for_chunks_mut(self, var, x, n_args, body, env, rest):
        pre = []
        pl, buf, n = self.chunk_source(x, n_args, env, pre)
        self.check_shadow(var)
        carried, captured = self.carried_and_captured(body, [], env, exclude=(var, pl.root))
        if pl.root in names_in(body, set()):
            raise TranslateError("the iterated buffer is used inside the loop")
        aux = self.new_loop()
        benv = {k_: env[k_] for k_ in captured + carried}
        benv[var] = TBytes(None)
        acc = lean_id(pl.root) if not pl.path else "acc_"
        cl = [lean_id(k_) for k_ in carried]
        cap_args = "".join(lean_id(k_) + " " for k_ in captured)
        rec = f"{aux.name} {self.dict_arg()}{cap_args}rest_ " + " ".join(cl + [f"({acc} ++ {lean_id(var)})"])
        bnode = self.loop_body(body, benv, rec, carried, (var,))
        self.emit_loop(aux, captured, env, "List Bytes", cl + [acc], [env[k_].lean for k_ in carried] + ["Bytes"], "[]",
                       f"{lean_id(var)} :: rest_", bnode,
                       f"`for {var} in ….chunks_mut(n)` of `fn {self.spec.fn}`: the remaining chunks; `{acc}` = the chunks done")
        call = f"{aux.name} {self.dict_arg()}{cap_args}(chunks {n.p()} {buf.p()}) " + " ".join(cl + ["[]"])
        post = []
        if pl.path:
            t = self.tmp()
            self.write_place(pl, t, env, post)
            pat = tup(cl + [t])
        else:
            pat = tup(cl + [acc])
        env2 = dict(env)
        return self.wrap(pre, LoopCall(pat, call, aux, self.wrap(post, rest(env2))))

    def for_chunks_enum(self, ivar, var, x, n_args, body, env, rest):
        pre = []
        pl, buf, n = self.chunk_source(x, n_args, env, pre)
        self.check_shadow(var); self.check_shadow(ivar)
        carried, captured = self.carried_and_captured(body, [], env, exclude=(var, ivar))
        if not carried:
            raise TranslateError("loop without effect")
        if pl.root in carried:
            raise TranslateError("the iterated buffer is assigned inside the loop")
        aux = self.new_loop()
        benv = {k_: env[k_] for k_ in captured + carried}
        benv[var] = TBytes(None); benv[ivar] = TNat("usize")
        cl = [lean_id(k_) for k_ in carried]
        cap_args = "".join(lean_id(k_) + " " for k_ in captured)
        iv = lean_id(ivar)
        rec = f"{aux.name} {self.dict_arg()}{cap_args}rest_ ({iv} + 1) " + " ".join(cl)
        bnode = self.loop_body(body, benv, rec, carried, (var, ivar))
        self.emit_loop(aux, captured, env, "List Bytes", [iv] + cl, ["Nat"] + [env[k_].lean for k_ in carried], "[]",
                       f"{lean_id(var)} :: rest_", bnode,
                       f"`for ({ivar}, {var}) in ….chunks(n).enumerate()` of `fn {self.spec.fn}`: the remaining chunks, the running index")
        call = f"{aux.name} {self.dict_arg()}{cap_args}(chunks {n.p()} {buf.p()}) 0 " + " ".join(cl)
        return self.wrap(pre, LoopCall(tup(["_"] + cl), call, aux, rest(dict(env))))

    def for_zip(self, pat, dst_e, zips, body, env, rest):
        """`for (o, &i) in A.iter_mut().zip(B.iter()) { *o op= e; }` / the three-way form"""
        def flat(p):
            if p[0] == "tuple":
                out = []
                for q in p[1]:
                    out += flat(q)
                return out
            if p[0] != "var":
                raise TranslateError("zip pattern")
            return [p[1]]
        vars_ = flat(pat)
        if len(vars_) != 1 + len(zips) or (len(zips) == 2 and not (pat[0] == "tuple" and pat[1][0][0] == "tuple")):
            raise TranslateError("zip pattern shape")
        srcs = []
        pre = []
        for z in zips:
            if len(z) != 1 or z[0][0] != "method" or z[0][2] != "iter" or z[0][3]:
                raise TranslateError("zip argument must be `.iter()`")
            v = self.ex(z[0][1], env, pre)
            if v.ty.kind != "bytes":
                raise TranslateError("zip over a non-byte value")
            srcs.append(v)
        if len(body) != 1 or body[0][0] != "assign" or body[0][1] != ("deref", ("path", vars_[0])):
            raise TranslateError("zip loop body must be a single assignment to the element")
        op, rhs = body[0][2], body[0][3]
        if op != "=":
            rhs = ("bin", op[:-1], ("path", vars_[0]), rhs)
        cur, wb, direct = self.out_arg(dst_e, env, pre)
        if cur.ty.kind != "bytes":
            raise TranslateError("iter_mut on a non-byte place")
        benv = {v_: TU8 for v_ in vars_}
        if set(names_in(rhs, set())) - set(vars_):
            raise TranslateError("zip loop body uses outer variables")
        sub = []
        v = self.ex(rhs, benv, sub, TU8)
        if sub or v.ty.kind != "u8":
            raise TranslateError("zip loop body with a check")
        fn_ = f"(fun {' '.join(lean_id(x_) for x_ in vars_)} => {v.t})"
        new = f"zipMut{len(vars_)} {fn_} {cur.p()} " + " ".join(s_.p() for s_ in srcs)
        wb(new, pre)
        return self.wrap(pre, rest(dict(env)))

    def do_while(self, s, env, rest):
        cond_e, body = s[1], s[2]
        if self.nwhile >= len(self.spec.fuel):
            raise TranslateError("`while` loop without a fuel annotation in the kernel spec")
        fuel_text = self.spec.fuel[self.nwhile]
        self.nwhile += 1
        carried, captured = self.carried_and_captured(body, [cond_e], env)
        if not carried:
            raise TranslateError("loop without effect")
        aux = self.new_loop()
        benv = {n: env[n] for n in captured + carried}
        cl = [lean_id(n) for n in carried]
        cap_args = "".join(lean_id(n) + " " for n in captured)
        rec = f"{aux.name} {self.dict_arg()}{cap_args}fuel " + " ".join(cl)
        cpre = []
        c = self.cond(cond_e, benv, cpre)
        bnode = self.loop_body(body, benv, rec, carried)
        node = self.wrap(cpre, If(c, bnode, Ret(tup(cl))))
        self.emit_loop(aux, captured, env, "Nat", cl, [env[n].lean for n in carried], "0", "fuel + 1", node,
                       f"`while` loop of `fn {self.spec.fn}` on fuel; running out of fuel is the failure `none`, never a value", fuel=True)
        # the spec's fuel expression bounds the number of ITERATIONS; one more unit pays for the last (false) test of the condition
        f = f"({fuel_text} + 1)"
        call = f"{aux.name} {self.dict_arg()}{cap_args}{f} " + " ".join(cl)
        return LoopCall(tup(cl), call, aux, rest(dict(env)))

    # ------------------------------------------------------------------------------------------- function
    def final(self, env, v):
        outs = [lean_id(n) for n in self.out_vars]
        if self.ret_ty is not None and self.ret_ty.kind != "unit":
            if v is None:
                raise TranslateError("missing return value")
            v = self.coerce(v, self.ret_ty, "return value")
            outs.append(v.t)
        elif v is not None:
            raise TranslateError("value returned from a unit function")
        if not outs:
            raise TranslateError("function without result")
        return Ret(outs[0] if len(outs) == 1 else "(" + ", ".join(outs) + ")")

    def nested_kernels(self, hdr):
        """names of nested `fn` items of this function that are kernels of their own: translated earlier FROM THAT ITEM (their spec's scope
        is `fn <this function>`), so that a call resolves to the nested item as in Rust"""
        out = []
        for (owner, fn), info in REGISTRY.items():
            sc = getattr(info.spec, "scope", None)
            if owner is None and sc and sc.startswith("fn ") and info.spec.mod is self.mod and re.search(sc + r"\b", hdr):
                out.append(fn)
        return tuple(out)

    def translate(self, name=None):
        sp = self.spec
        lean_name = name or sp.lean_name
        mode = getattr(self, "lens_mode", None)
        # bounded region (the live `impl` blocks / the enclosing `fn` the scope names), unique live match, item #[cfg] evaluated against the
        # table of tools/ktx_glue_guard.py; then the body lint (attributes, nested items, inner shadowing, `&mut` aliases, re-bound `&mut`
        # parameters are refused) and the imports the body depends on
        hdr, body = GUARD.find_fn(self.raw, sp.fn, sp.scope, strip=False)
        nested_ok = self.nested_kernels(hdr)
        GUARD.lint_fn(hdr, body, what=f"fn {sp.fn}", nested_ok=nested_ok, weak_lit_ok=True)
        GUARD.check_fn_uses(self.mod.file, self.raw, hdr, body, what=f"fn {sp.fn}")
        hdr, body = cook(hdr), cook(body)
        _, generics, params, ret = parse_sig(hdr)
        env, plist, self.out_vars = {}, [], []
        for g in sp.const_generics:
            if g not in generics:
                raise TranslateError(f"const generic {g} not found in the signature")
            self.cgen[g] = True
        for pn, pt in params:
            ty = self.conv(pt)
            mut = isinstance(pt, tuple) and pt[0] == "ref" and pt[1]
            pmode = "mut" if mut else "val"
            env[pn] = ty; plist.append((pn, ty, pmode))
            if mut and mode != "get":
                self.out_vars.append(pn)
        self.ret_ty = self.conv(ret) if ret is not None else None
        self.base = lean_name[:-4] if lean_name.endswith("_src") else lean_name
        stmts = parse_body(body, nested_ok)
        if mode is not None:
            if not (isinstance(ret, tuple) and ret[0] == "ref" and ret[1]) or not stmts or stmts[-1][0] != "ret":
                raise TranslateError("a lens must return `&mut` and end in a place expression")
            if not (plist and plist[0][0] == "self" and plist[0][2] == "mut"):
                raise TranslateError("a lens takes `&mut self`")
            if mode == "set":
                env["new_"] = self.ret_ty; plist.append(("new_", self.ret_ty, "val"))
                stmts = stmts[:-1] + [("assign", stmts[-1][1], "=", ("path", "new_"))]
                self.ret_ty = None
        node = self.seq(stmts, 0, env, lambda env2: self.final(env2, None), lambda env2, v: self.final(env2, v))
        self.wcheck()
        fal = fallible(node)
        out_tys = [env[n].lean for n in self.out_vars]
        if self.ret_ty is not None and self.ret_ty.kind != "unit":
            out_tys.append(self.ret_ty.lean)
        rty = tup_ty(out_tys)
        mty = f"Option {paren_ty(rty)}" if fal else rty
        R = Render(not fal)
        gb = self.generic_binders()
        parts = [a.text for a in self.aux]
        cg = "".join(f"({g} : Nat) " for g in sp.const_generics)
        ptext = self.params_text([p[0] for p in plist], env)
        what = {None: "", "get": " (the value behind the returned `&mut`)", "set": " (assignment through the returned `&mut`)"}[mode]
        doc = f"/-- {sp.doc + ' — ' if sp.doc else ''}GENERATED from `fn {sp.fn}` in {self.mod.file}{what} -/\n"
        parts.append(doc + f"def {lean_name} {gb}{cg}{ptext} : {mty} :=\n" + R.go(node, 2))
        REGISTRY[(sp.owner, sp.fn)] = FnInfo(sp, plist, self.ret_ty, self.out_vars, fal, sp.const_generics)
        return "\n".join(parts)


def check_struct(spec):
    """kernel kind "check_struct": the Rust declaration has exactly the fields (names, order, types) of the hand-written Lean
    structure it is mapped to"""
    tr = Tr(spec)
    ty = tr.struct_ty(spec.fn)
    got = [(f, t.lean) for f, t in ty.fields]
    if got != list(spec.glue):
        raise TranslateError(f"struct {spec.fn}: declaration {got} differs from the mapped Lean structure {list(spec.glue)}")
    return (f"/-- `struct {spec.fn}` of {spec.mod.file} has the fields of `{ty.lean}`: "
            + ", ".join(f"{f} : {t}" for f, t in got) + " -/\n" + f"def {spec.lean_name} : Unit := ()\n")


def translate_lens(spec):
    """a `&mut`-returning accessor `fn m(&mut self, args) -> &mut T { …; &mut self.place }` as a getter and a setter"""
    base = spec.lean_name[:-4] if spec.lean_name.endswith("_src") else spec.lean_name
    gt = Tr(spec); gt.lens_mode = "get"
    NOTE.append(gt)
    try:
        g_text = gt.translate(name=base + "_get_src")
    finally:
        NOTE.pop()
    g_info = REGISTRY.pop((spec.owner, spec.fn))
    st = Tr(spec); st.lens_mode = "set"
    NOTE.append(st)
    try:
        s_text = st.translate(name=base + "_set_src")
    finally:
        NOTE.pop()
    s_info = REGISTRY[(spec.owner, spec.fn)]
    s_info.params = g_info.params
    s_info.lens = (base + "_get_src", base + "_set_src", g_info.ret, g_info.fallible, s_info.fallible)
    return g_text + "\n" + s_text


def translate(spec):
    REGISTRY.pop((spec.owner, spec.fn), None)
    if spec.kind == "check_struct":
        return check_struct(spec)
    if spec.kind == "lens":
        return translate_lens(spec)
    cls = getattr(spec, "tr_class", None) or Tr
    tr = cls(spec)
    NOTE.append(tr)
    try:
        return tr.translate()
    finally:
        NOTE.pop()


def main():
    from kernels import glue_kdf
    for k_ in glue_kdf.KERNELS:
        try:
            print(translate(k_))
        except TranslateError as ex_:
            print(f"-- FAILED {k_.lean_name}: {ex_}")
