#!/usr/bin/env python3
"""Shared machinery of the cryptoxide Lean-4 verification checks.

Pipeline of one check (see DESIGN.md 2.3):
  1. regenerate lean/CxVerif/Extracted/*.lean from /repo's working tree (translator)
  2. lake build  <Props modules of the property>  +  cxdrv   (kernel re-checks the theorems)
  3. audit: `#print axioms` of every property theorem, forbidden-token scan
  4. cargo build the harness variants against /repo's working tree (hooks on)
  5. generate cases (seeded), run  code / Lean Impl model / Lean Spec  on the same lines, diff
  6. classify, write evidence/<id>.json, print VIOLATION / KNOWN-FINDING lines
"""
import concurrent.futures as cf
import hashlib
import json
import os
import random
import re
import subprocess
import sys
import time

VERIF = os.path.dirname(os.path.dirname(os.path.abspath(__file__)))
REPO = os.environ.get("CX_REPO", "/repo")
LEAN = os.path.join(VERIF, "lean")
HARNESS = os.path.join(VERIF, "harness")
CACHE = os.path.join(VERIF, ".cache")
EVID = os.path.join(VERIF, "evidence")
REPLAYS = os.path.join(VERIF, "replays")
CXDRV = os.path.join(LEAN, ".lake", "build", "bin", "cxdrv")
GUARD = "cryptoxide_verif"
ALLOWED_AXIOMS = {"propext", "Classical.choice", "Quot.sound"}
FORBIDDEN = re.compile(r"\bsorry\b|\badmit\b|^\s*axiom\s|\bnative_decide\b|\bbv_decide\b|"
                       r"implemented_by|\bunsafe\s|maxHeartbeats\s+0\b|\bsorryAx\b", re.M)
NCPU = os.cpu_count() or 4

# harness build variants: name -> (cargo profile args, extra RUSTFLAGS, cargo features, bin subdir)
VARIANTS = {
    "default": (["--profile", "dev"], "", [], "debug"),
    "release": (["--release"], "", [], "release"),
    "relchk": (["--profile", "relchk"], "", [], "relchk"),
    "sse41": (["--profile", "dev"], "-C target-feature=+sse4.1", [], "debug"),
    "avx": (["--profile", "dev"], "-C target-feature=+sse4.1,+avx", [], "debug"),
    "avx2": (["--profile", "dev"], "-C target-feature=+sse4.1,+avx,+avx2", [], "debug"),
    # the optimised build of the widest feature set: the code a user's `--release` build with AVX2 executes (inlining, vector
    # code generation and alignment assumptions of opt-level 3 differ from the dev profile the other SIMD variants use)
    "avx2rel": (["--release"], "-C target-feature=+sse4.1,+avx,+avx2", [], "release"),
    "force32": (["--profile", "dev"], "", ["force-32bits"], "debug"),
}


def log(*a):
    print(*a, file=sys.stderr, flush=True)


def sh(cmd, cwd=None, env=None, timeout=None, inp=None):
    e = dict(os.environ)
    if env:
        e.update(env)
    p = subprocess.run(cmd, cwd=cwd, env=e, input=inp, stdout=subprocess.PIPE,
                       stderr=subprocess.STDOUT, timeout=timeout, text=True)
    return p.returncode, p.stdout


# ----------------------------------------------------------------------------- Lean side

def strip_comments(src):
    """remove `--` line comments and (nested) `/- -/` block comments; string literals are kept"""
    out, i, n, depth = [], 0, len(src), 0
    while i < n:
        if src.startswith("/-", i):
            depth += 1
            i += 2
        elif depth and src.startswith("-/", i):
            depth -= 1
            i += 2
        elif depth:
            if src[i] == "\n":
                out.append("\n")
            i += 1
        elif src.startswith("--", i):
            while i < n and src[i] != "\n":
                i += 1
        elif src[i] == '"':
            j = i + 1
            while j < n and src[j] != '"':
                j += 2 if src[j] == "\\" else 1
            out.append(src[i:j + 1])
            i = j + 1
        else:
            out.append(src[i])
            i += 1
    return "".join(out)


def module_path(mod):
    return os.path.join(LEAN, *mod.split(".")) + ".lean"


def import_closure(mods):
    """project-local import closure of the given modules"""
    seen, todo = [], list(mods)
    while todo:
        m = todo.pop()
        if m in seen or not m.startswith("CxVerif"):
            continue
        p = module_path(m)
        if not os.path.exists(p):
            continue
        seen.append(m)
        for line in strip_comments(open(p).read()).splitlines():
            mm = re.match(r"\s*(?:public\s+)?import\s+([\w.]+)", line)
            if mm:
                todo.append(mm.group(1))
    return seen


def theorems_of(mod):
    """fully qualified names of the top-level theorems of a Props module, with line numbers"""
    src = strip_comments(open(module_path(mod)).read())
    ns, out = [], []
    for ln, line in enumerate(src.splitlines(), 1):
        m = re.match(r"\s*namespace\s+([\w.]+)", line)
        if m:
            ns.append(m.group(1))
            continue
        m = re.match(r"\s*end\s+([\w.]+)\s*$", line)
        if m and ns and ns[-1] == m.group(1):
            ns.pop()
            continue
        m = re.match(r"\s*(?:@\[[^\]]*\]\s*)?(private\s+|protected\s+)?theorem\s+([\w.'!?₀-₉]+)", line)
        if m and not (m.group(1) or "").startswith("private"):
            # `private` theorems are local helpers: not addressable from the audit file; their axioms are accounted for
            # transitively by the public theorems that use them
            out.append((".".join(ns + [m.group(2)]), ln))
    return out



# explicit mathematical / interface hypotheses that theorems of the Props modules may carry (they are hypotheses of the
# theorem statements, never axioms); the evidence lists the ones actually present in the property's modules
HYPOTHESIS_MARKERS = {
    "Nat.Prime p": "primality of 2^255-19 taken as a hypothesis ([Fact (Nat.Prime p)] / hp : Nat.Prime p) by some theorems of these modules",
    "EdwardsGroupLaw": "closure + associativity of the Edwards addition taken as a hypothesis (G : EdwardsGroupLaw) by some theorems of these modules",
    "DecodeFact": "Ge::from_bytes refines Spec decode taken as an interface hypothesis (DecodeFact)",
    "DsmFact": "double_scalarmult_vartime = [a]A+[b]B taken as an interface hypothesis (DsmFact)",
    "LadderComm": "commutation of the Montgomery ladder (DH symmetry) taken as a hypothesis (LadderComm)",
    "Sc32ReduceSpec": "ref10 sc_reduce = value mod L for the 32-bit backend taken as a hypothesis (Sc32ReduceSpec)",
    "DigestLeak": "length-only leakage of the digest type parameter taken as an interface hypothesis by the generic HMAC leakage theorems of C19 (DigestLeak D DL)",
    "Sc32MuladdSpec": "ref10 sc_muladd = (ab+c) mod L for the 32-bit backend taken as a hypothesis (Sc32MuladdSpec)",
}


def _all_registered_modules():
    from units import UNITS
    out = []
    for u in UNITS.values():
        for l in u.get("props", {}).values():
            out += l
    return sorted(set(out))


def hypotheses_of(mods):
    """(open, discharged, partial): hypothesis markers occurring in theorem signatures / `variable` lines of the
    modules; a marker is DISCHARGED when some registered Props module proves a theorem whose statement is exactly
    that proposition (e.g. `theorem ladder_commutes : LadderComm`), i.e. the hypothesis is itself a checked theorem
    and the unconditional versions of the `_partial` theorems exist; otherwise it is OPEN (a real assumption)."""
    found, partial = {}, []
    for mod in mods:
        try:
            src = strip_comments(open(module_path(mod)).read())
        except OSError:
            continue
        sigs = re.findall(r"(?:theorem|variable)\b(.*?)(?::=|\n\s*\n|$)", src, flags=re.S)
        text = "\n".join(sigs)
        for k in HYPOTHESIS_MARKERS:
            if k in text:
                found.setdefault(k, []).append(mod)
        for (t, _) in theorems_of(mod):
            if t.endswith("_partial"):
                partial.append(t)
    proved = {}
    for mod in _all_registered_modules():
        try:
            src = strip_comments(open(module_path(mod)).read())
        except OSError:
            continue
        for k in HYPOTHESIS_MARKERS:
            m = re.search(r"theorem\s+([\w.']+)\s*(?:\[[^\]]*\]\s*)*:\s*(?:[\w.]+\.)?" + re.escape(k) + r"\s*:=", src)
            if m and "[Fact" not in m.group(0) and "[hp" not in m.group(0):
                proved.setdefault(k, f"{m.group(1)} in {mod}")
            # parameterised interface hypotheses (e.g. `DigestLeak D DL`): discharged per instance
            inst = re.findall(r"(?:theorem|def)\s+([\w.']+)\s*:\s*(?:[\w.]+\.)?" + re.escape(k) + r"\s+\(", src)
            if inst and k not in proved:
                proved[k] = f"{len(inst)} instances ({', '.join(inst[:6])}{', …' if len(inst) > 6 else ''}) in {mod}"
    open_, discharged = [], []
    for k, v in found.items():
        line = f"{HYPOTHESIS_MARKERS[k]} [in: {', '.join(sorted(set(v)))}]"
        if k in proved:
            discharged.append(line + f" — DISCHARGED: proved as theorem {proved[k]}; the unconditional theorems use it")
        else:
            open_.append(line)
    return open_, discharged, partial


def assumptions_of(mods):
    open_, discharged, partial = hypotheses_of(mods)
    out = list(open_)
    if partial and open_:
        out.append("theorems proved only under those explicit hypotheses (suffix _partial): " + ", ".join(partial))
    return out


def lake_build(targets, timeout=3600):
    t0 = time.time()
    rc, out = sh(["lake", "build"] + targets, cwd=LEAN, timeout=timeout)
    return rc, out, time.time() - t0


def failing_decls(build_out, mods):
    """map `error: File.lean:line:col` of a failed build to the enclosing theorem names"""
    broken = []
    for m in re.finditer(r"error: (\S+?\.lean):(\d+):(\d+):? ?(.*)", build_out):
        f, ln, msg = m.group(1), int(m.group(2)), m.group(4)
        mod = f[:-5].replace("/", ".")
        name = None
        if mod in mods:
            best = None
            for (tn, tl) in theorems_of(mod):
                if tl <= ln:
                    best = tn
            name = best
        broken.append({"file": f, "line": ln, "theorem": name, "message": msg[:300]})
    for m in re.finditer(r"^- (CxVerif\.\S+)$", build_out, re.M):
        if not any(b["file"].replace("/", ".").startswith(m.group(1)) for b in broken):
            broken.append({"file": m.group(1), "line": 0, "theorem": None, "message": "module failed to build"})
    return broken


def audit(mods):
    """returns (per-theorem axioms dict, problems list)"""
    os.makedirs(os.path.join(CACHE, "audit"), exist_ok=True)
    thms = []
    for m in mods:
        thms += [t for (t, _) in theorems_of(m)]
    key = hashlib.sha1(" ".join(mods).encode()).hexdigest()[:10]
    path = os.path.join(CACHE, "audit", f"Audit_{key}.lean")
    with open(path, "w") as f:
        for m in mods:
            f.write(f"import {m}\n")
        for t in thms:
            f.write(f"#print axioms {t}\n")
    rc, out = sh(["lake", "env", "lean", path], cwd=LEAN, timeout=1800)
    axioms, problems = {}, []
    for m in re.finditer(r"'([^']+)' (?:depends on axioms: \[([^\]]*)\]|does not depend on any axioms)", out):
        ax = [a.strip() for a in (m.group(2) or "").replace("\n", " ").split(",") if a.strip()]
        axioms[m.group(1)] = ax
    for t in thms:
        if t not in axioms:
            problems.append(f"no axiom report for {t}")
        else:
            bad = [a for a in axioms[t] if a not in ALLOWED_AXIOMS]
            if bad:
                problems.append(f"{t} depends on non-allowed axioms {bad}")
    if rc != 0 and not problems:
        problems.append("audit file failed: " + out[-500:])
    # forbidden tokens in every project file the theorems depend on
    for m in import_closure(mods):
        src = strip_comments(open(module_path(m)).read())
        src = re.sub(r'"(?:[^"\\]|\\.)*"', '""', src)
        for hit in FORBIDDEN.finditer(src):
            problems.append(f"forbidden token {hit.group(0).strip()!r} in {m}")
    return axioms, problems


# ----------------------------------------------------------------------------- Rust side

def harness_bin(variant):
    return os.path.join(CACHE, "target-" + variant, VARIANTS[variant][3], "cxharness")


def cargo_build(variant, timeout=3600):
    prof, rf, feats, _ = VARIANTS[variant]
    env = {"CARGO_TARGET_DIR": os.path.join(CACHE, "target-" + variant),
           "RUSTFLAGS": (f"--cfg {GUARD} " + rf).strip(), "CARGO_NET_OFFLINE": "true"}
    cmd = ["cargo", "build", "--offline", "--quiet"] + prof
    if feats:
        cmd += ["--features", ",".join(feats)]
    lock = os.path.join(HARNESS, "Cargo.lock")
    src_lock = os.path.join(REPO, "Cargo.lock")
    if not os.path.exists(lock) and os.path.exists(src_lock):
        import shutil
        shutil.copy(src_lock, lock)
    t0 = time.time()
    rc, out = sh(cmd, cwd=HARNESS, env=env, timeout=timeout)
    return rc, out, time.time() - t0


# ----------------------------------------------------------------------------- executors

def _run_shard(cmd, lines, timeout):
    p = subprocess.run(cmd, input="".join(l + "\n" for l in lines), stdout=subprocess.PIPE,
                       stderr=subprocess.PIPE, text=True, timeout=timeout)
    out = p.stdout.split("\n")
    if out and out[-1] == "":
        out.pop()
    return p.returncode, out, p.stderr[-2000:]


def run_exec(cmd, lines, shards=None, timeout=3600):
    """run one executor over all lines, sharded over the cores; returns list of answers
    (`CRASH` for every line of a shard whose process died, bisected down to the culprit)"""
    if not lines:
        return []
    shards = shards or min(NCPU, max(1, len(lines) // 8))
    idx = [list(range(i, len(lines), shards)) for i in range(shards)]
    res = [None] * len(lines)

    def work(ix):
        sub = [lines[i] for i in ix]
        rc, out, err = _run_shard(cmd, sub, timeout)
        if rc == 0 and len(out) == len(sub):
            return list(zip(ix, out))
        # the process died (abort, stack overflow, OOM): answers up to the crash are valid
        done = list(zip(ix, out[:len(sub)]))
        k = len(out)
        if k < len(sub):
            done = list(zip(ix[:k], out[:k]))
            done.append((ix[k], "CRASH"))
            rest = ix[k + 1:]
            if rest:
                done += work(rest)
        return done

    with cf.ThreadPoolExecutor(max_workers=shards) as ex:
        for part in ex.map(work, idx):
            for i, o in part:
                res[i] = o
    return res


# ----------------------------------------------------------------------------- known findings

def load_known():
    p = os.path.join(VERIF, "known_findings.json")
    if not os.path.exists(p):
        return []
    return json.load(open(p)).get("findings", [])


def known_match(prop, line, entries):
    for e in entries:
        if e.get("property") != prop or e.get("status") != "open":
            continue
        if re.search(e["case_regex"], line):
            return e
    return None


# ----------------------------------------------------------------------------- PRNG

class Rng(random.Random):
    def bytes_hex(self, n):
        return "-" if n == 0 else bytes(self.getrandbits(8) for _ in range(n)).hex()

    def rbytes(self, n):
        return bytes(self.getrandbits(8) for _ in range(n))


def hx(b):
    return "-" if len(b) == 0 else bytes(b).hex()
