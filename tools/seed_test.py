#!/usr/bin/env python3
"""seed_test.py <patch.diff> <PROP>[,<PROP>…] [--tier quick|thorough]

Runs the registered checks against a MUTATED copy of the repository without touching /repo (builder agents use
/repo concurrently): a scratch worktree of /repo's HEAD + the patch, and a scratch copy of /verif whose harness
points at that worktree. Prints, per property, the exit status and the VIOLATION line."""
import os
import subprocess
import sys

V = os.path.dirname(os.path.dirname(os.path.abspath(__file__)))
S = os.environ.get("SEEDRUN", "/tmp/seedrun")


def sh(cmd, **kw):
    return subprocess.run(cmd, shell=True, text=True, capture_output=True, **kw)


def main():
    patch = os.path.abspath(sys.argv[1])
    props = sys.argv[2].split(",")
    tier = "quick"
    if "--tier" in sys.argv:
        tier = sys.argv[sys.argv.index("--tier") + 1]
    os.makedirs(S, exist_ok=True)
    repo = os.path.join(S, "repo")
    if not os.path.exists(repo):
        r = sh(f"git -C /repo worktree add --detach {repo} HEAD")
        if r.returncode:
            print(r.stderr); sys.exit(2)
    sh(f"git -C {repo} checkout -q --detach $(git -C /repo rev-parse HEAD) && git -C {repo} checkout -- . && git -C {repo} clean -fdq -e target")
    vv = os.path.join(S, "verif")
    sh(f"mkdir -p {vv} && rsync -a --delete --exclude .git --exclude replays {V}/ {vv}/")
    sh(f"sed -i 's#path = \"/repo\"#path = \"{repo}\"#' {vv}/harness/Cargo.toml && rm -f {vv}/harness/Cargo.lock")
    r = sh(f"git -C {repo} apply {patch}")
    if r.returncode:
        print("patch does not apply:", r.stderr); sys.exit(2)
    env = dict(os.environ, CX_REPO=repo)
    results = {}
    for p in props:
        r = subprocess.run(["python3", "tools/run_check.py", p, "--tier", tier], cwd=vv, env=env, text=True, capture_output=True)
        viol = [l for l in r.stdout.splitlines() if l.startswith("VIOLATION") or l.startswith("KNOWN-FINDING") or l.startswith("ERROR")]
        results[p] = (r.returncode, viol)
        print(f"{p}: exit={r.returncode} {viol[:2]}")
        last = [l for l in r.stderr.splitlines() if l.startswith(f"[{p}] tier=")]
        if last:
            print("   ", last[-1])
        for v in viol:
            if "replay=" in v:
                rp = v.split("replay=")[1].split()[0]
                try:
                    import json
                    d = json.load(open(rp))
                    for c in d.get("cases", [])[:2]:
                        print("    case:", c.get("line", "")[:140], "|", c.get("why", "")[:160])
                    for b in d.get("broken_obligations", [])[:3]:
                        print("    broken:", b.get("theorem") or b.get("file"), "|", str(b.get("message"))[:160])
                except Exception as e:  # noqa
                    print("    (cannot read replay)", e)
    sh(f"git -C {repo} checkout -- .")
    return results


if __name__ == "__main__":
    main()
