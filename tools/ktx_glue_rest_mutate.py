#!/usr/bin/env python3
"""Mutation test of the leftover-glue tie (tools/ktx_glue_rest.py, Props/C20/GlueTieRest.lean): apply one textual mutation at a time to a
SCRATCH COPY of the Rust sources (never /repo), regenerate Extracted/ with CX_REPO pointing at the copy, rebuild the tie and report
whether the generated file changed and whether the tie still builds.  Run in a private copy of /verif (it rewrites
lean/CxVerif/Extracted and restores it at the end):   python3 tools/ktx_glue_rest_mutate.py [M1 M7 H1 …]
Expected: every semantic mutation M1 … M22 changes the generated definition (or makes the extraction fail) and breaks the build of the
tie; H1 (comments / whitespace / blank lines in six files) changes nothing."""
import os, subprocess, sys, shutil, time, hashlib, tempfile
V = os.path.dirname(os.path.dirname(os.path.abspath(__file__)))
REPO = os.environ.get("CX_REPO_ORIG", "/repo")
RC = os.path.join(tempfile.gettempdir(), "ktx_glue_rest_mutate_repo")
os.makedirs(os.path.join(RC, "src"), exist_ok=True)
MUT = [
 ("M1 chacha verif block: add_back omitted", "src/chacha/mod.rs", "                    st.add_back(&self.0);\n", "", True),
 ("M2 ct verif swap wrapper: arguments swapped", "src/constant_time.rs", "super::ct_array64_maybe_swap_with(a, b, swap)", "super::ct_array64_maybe_swap_with(b, a, swap)", True),
 ("M3 CtOption::into_option: is_false", "src/constant_time.rs", "if self.present.is_true() {", "if self.present.is_false() {", True),
 ("M4 check_s_lt_l: `<` made `<=`", "src/curve25519/scalar/scalar32.rs", "c |= ((((s[i] as i32) - (L[i] as i32)) >> 8) as u8) & n;", "c |= ((((s[i] as i32) - (L[i] as i32) - 1) >> 8) as u8) & n;", True),
 ("M5 load_3u drops the third byte", "src/curve25519/fe/load.rs", "    (s[0] as u64) | ((s[1] as u64) << 8) | ((s[2] as u64) << 16)\n}", "    (s[0] as u64) | ((s[1] as u64) << 8)\n}", True),
 ("M6 salsa20_8 feed-forward omitted", "src/scrypt.rs", "x[i].wrapping_add(read_u32_le(&input[i * 4..(i + 1) * 4])),", "x[i],", True),
 ("M7 blake2b hook presets the low word only", "src/hashing/blake2b.rs", "self.eng.t = [t0, t1];", "self.eng.t = [t0, 0];", True),
 ("M8 sha2 hook truncates to u64 first", "src/hashing/sha2/mod.rs", "self.engine.processed_bytes = n as _;", "self.engine.processed_bytes = n as u64 as _;", True),
 ("M9 muladd: column term a0*b1 -> a0*b0", "src/curve25519/scalar/scalar32.rs", "    s1 = c1 + a0*b1 + a1*b0;", "    s1 = c1 + a0*b0 + a1*b0;", True),
 ("M10 muladd: reduction constant in the tail", "src/curve25519/scalar/scalar32.rs", "@LAST s5 -= s12 * 683901;", "s5 -= s12 * 683900;", True),
 ("M11 keccak finalize_reset without reset", "src/hashing/keccak.rs", "                self.0.output(&mut out);\n                self.0.reset();\n", "                self.0.output(&mut out);\n", True),
 ("M12 nibbles: high nibble shift 3", "src/curve25519/scalar/scalar32.rs", "es[2 * i + 1] = ((a[i] >> 4) & 0b1111) as i8;", "es[2 * i + 1] = ((a[i] >> 3) & 0b1111) as i8;", True),
 ("M13 fe32 is_negative tests bit 1", "src/curve25519/fe/fe32/mod.rs", "(self.to_bytes()[0] & 1) != 0", "(self.to_bytes()[0] & 2) != 0", True),
 ("M14 fe32 square_repeatdly one iteration too many", "src/curve25519/fe/fe32/mod.rs", "        for _ in 0..n {\n            acc = acc.square();", "        for _ in 0..n + 1 {\n            acc = acc.square();", True),
 ("M15 argon2 BLOCK_SIZE = 4 * BLOCK_SIZE_U64 (view no longer covers the block)", "src/kdf/argon2.rs", "const BLOCK_SIZE: usize = BLOCK_SIZE_U64 * 8;", "const BLOCK_SIZE: usize = BLOCK_SIZE_U64 * 4;", True),
 ("M16 chacha cfg: the sse2 engine only with avx2", "src/chacha/mod.rs", "    target_feature = \"sse2\",\n))]\npub(crate) type ChaChaEngine<const R: usize> = sse2::State<R>;", "    target_feature = \"avx2\",\n))]\npub(crate) type ChaChaEngine<const R: usize> = sse2::State<R>;", True),
 ("M17 Tag::ct_ne without negate", "src/chacha20poly1305.rs", "    fn ct_ne(self, b: Self) -> Choice {\n        self.ct_eq(b).negate()\n    }\n}\n\nimpl PartialEq for Tag", "    fn ct_ne(self, b: Self) -> Choice {\n        self.ct_eq(b)\n    }\n}\n\nimpl PartialEq for Tag", True),
 ("M18 poly1305 verif_from_state: leftover 1", "src/poly1305.rs", "            h,\n            pad,\n            leftover: 0,", "            h,\n            pad,\n            leftover: 1,", True),
 ("M19 xor_array64_mut: |= instead of ^=", "src/cryptoutil.rs", "        *left ^= *right", "        *left |= *right", True),
 ("M20 bits: wrong byte index shift", "src/curve25519/scalar/scalar32.rs", "r[i] = (1 & (a[i >> 3] >> (i & 7))) as i8;", "r[i] = (1 & (a[i >> 2] >> (i & 7))) as i8;", True),
 ("M21 chacha reference output_ad_bytes: words 8..12 instead of 12..16", "src/chacha/reference.rs", "write_u32v_le(&mut output[16..32], &self.state[12..16]);", "write_u32v_le(&mut output[16..32], &self.state[8..12]);", True),
 ("M22 simd u32x4 add: lane 3 uses lane 2 of rhs", "src/simd.rs", "                self.3.wrapping_add(rhs.3),", "                self.3.wrapping_add(rhs.2),", True),
 ("H1 harmless: comments / whitespace / blank lines in six files", None, None, None, False),
]
HARMLESS = [("src/chacha/mod.rs", "                    let mut st = self.0.clone();", "                    // a copy of the state\n                    let   mut st = self.0.clone( );"),
            ("src/constant_time.rs", "        if self.present.is_true() {", "        /* present? */ if self.present.is_true()  {"),
            ("src/curve25519/scalar/scalar32.rs", "            let mut i = 31;", "            let mut i = 31; // from the most significant byte\n"),
            ("src/scrypt.rs", "    let rounds = 8;", "\n    let rounds  =  8;   // Salsa20/8\n"),
            ("src/hashing/keccak.rs", "                self.0.reset();\n                out", "                self.0.reset();   // ready for reuse\n\n                out"),
            ("src/curve25519/fe/load.rs", "pub(crate) const fn load_3i(s: &[u8]) -> i64 {", "/// signed view\npub(crate) const fn load_3i( s: &[u8] ) -> i64 {")]

def sh(cmd, **kw):
    return subprocess.run(cmd, shell=True, capture_output=True, text=True, **kw)

def restore():
    sh(f"rsync -a --delete {REPO}/src/ {RC}/src/"); sh(f"cp {REPO}/Cargo.toml {RC}/")

def gen_hash():
    return hashlib.sha256(open(f"{V}/lean/CxVerif/Extracted/GlueRest.lean", "rb").read()).hexdigest()

def run(which=None):
    restore()
    sh(f"cd {V} && python3 tools/extract_tables.py")
    base = gen_hash()
    rows = []
    for (name, f, old, new, expect_fail) in MUT:
        if which and not any(name.startswith(w + " ") for w in which):
            continue
        restore()
        if f is None:
            for (hf, o, n) in HARMLESS:
                p = os.path.join(RC, hf); s = open(p).read(); assert s.count(o) >= 1, (hf, o); open(p, "w").write(s.replace(o, n, 1))
        else:
            p = os.path.join(RC, f); s = open(p).read()
            if old.startswith("@LAST "):
                old = old[6:]; i = s.rindex(old); s2 = s[:i] + new + s[i + len(old):]
            else:
                assert s.count(old) >= 1, (name, "pattern not found"); s2 = s.replace(old, new, 1)
            open(p, "w").write(s2)
        t0 = time.time()
        r = sh(f"cd {V} && CX_REPO={RC} python3 tools/extract_tables.py")
        errs = "errors': []" not in r.stdout
        changed = gen_hash() != base
        b = sh(f"cd {V}/lean && lake build CxVerif.Props.C20.GlueTieRest")
        failed = b.returncode != 0
        first = next((l for l in b.stdout.split("\n") if l.startswith("error:")), "")[:150]
        rows.append((name, changed, errs, failed, round(time.time() - t0), first))
        ok = (failed and changed) if expect_fail else (not failed and not changed)
        print(("OK  " if ok else "BAD ") + f"{name}: generated def changed={changed} extraction errors={errs} tie build failed={failed} ({rows[-1][4]} s) {first}", flush=True)
    restore()
    sh(f"cd {V} && python3 tools/extract_tables.py")
    b = sh(f"cd {V}/lean && lake build CxVerif.Props.C20.GlueTieRest")
    print("restored; tie builds:", b.returncode == 0)

if __name__ == "__main__":
    run(sys.argv[1:] or None)
