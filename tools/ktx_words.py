#!/usr/bin/env python3
"""Word-kernel translator: the word-oriented hash compression cores of /repo/src  ->  Lean definitions on
`UInt32`/`UInt64`, regenerated on every run (a kernel spec module tools/kernels/<x>.py sets
`TRANSLATE = ktx_words.translate`; see kernel_translate.generate_all).

Method: a *symbolic executor* for a subset of Rust.  The function body is lexed, `macro_rules!` macros (local to
the function or at file level; positional fragments `$x:expr|ident|literal|ty|tt` and `$( … ) sep *` repetitions)
are expanded at token level with hygiene for `let`-bound macro locals, the result is parsed (parser class `P` of
kernel_translate.py, extended here) and executed with
  * compile-time values: integers (indices, loop counters, shift/rotate amounts, table entries), arrays, tuples /
    tuple structs (`u64x2`, `u32x4`), constants looked up BY NAME in the source files (`const X: T = …;`, also inside
    `mod b { … }`), static `if`/`match`/`while`/`for a..b` (unrolled),
  * run-time values: words (`u32`/`u64`) as Lean terms.  Every `let`/assignment of a compound word expression emits
    one Lean `let` (SSA: `x`, `x_1`, …; array elements `w16`, lanes `w4_0`); helper functions of the crate are
    inlined (their parameters are let-bound first), operator impls of the portable `simd` structs are inlined from
    `impl Add for u64x2 { fn add … }`.
The output is ONE straight-line `def <fn>_src … :=` of `let`s: exactly the data flow the source prescribes NOW.
The tie theorem (`lean/CxVerif/Props/C01/KernelTie*.lean`) proves it equal to the hand model for all inputs by
kernel evaluation (`kernel_rfl`).  A changed rotation constant, operand, index, loop bound or table entry changes the
generated definition and the theorem no longer checks.

Everything that is not understood raises TranslateError (reported as a broken extraction).  What IS skipped: attributes other than
`cfg` / `cfg_attr` (`#[inline]`, `#[allow]`, …), non-renaming `use` items inside a body, and nested `fn` items (translated when they are
called; one that is named like a primitive of the spec or like a tuple struct is refused).  Renaming imports (`use … as …`) are
refused: inside a body always, at file level when the renamed name occurs in the file.  `#[cfg(…)]` on a STATEMENT is evaluated with
the spec's `cfg` table (unknown keys are errors), `#[cfg_attr]` is refused; `#[cfg]` on ITEMS (fn / const / macro / mod lookups) is
evaluated with kernel_translate.cfg_atom (x86_64 + SSE2, `cryptoxide_verif`, default cargo features, not test) and an item that is
not compiled is never chosen.
`unsafe { … }` is a plain block, `get_unchecked(i)` is indexing with a statically checked index (out of range = error,
as is every slice/array index the source would panic on).  Checked arithmetic (`+ - *`) on run-time words is refused
(the kernels use `wrapping_*`); on compile-time integers it is exact and range-checked against the declared type.
Name resolution is conservative: a `const` or `fn` that has two different definitions in the file it is found in is
an error (qualify it), `module::f(…)` is searched only in the source file that IS that module, `&mut` may only alias
arrays (struct fields / locals; assignment to the whole array writes THROUGH the alias; re-binding an alias by assignment is
refused), a run-time `if` is only allowed on a condition the kernel spec declares (`conds`) and both branches are executed and
merged value by value (`if c then a else b`); a `return` inside a run-time `if` is refused.
Macros: expansion is textual at the call site, which is faithful only without capture — refused are a `macro_rules!` defined twice
(in a body, or a body-local one shadowing a file-level one), an invocation before the local definition, a `let`/`for` binding after a
local macro definition of a name its body mentions, and a file-level macro whose body mentions a name that is a local / parameter of
the invoking function.  A load primitive applied to a buffer a store primitive has already written is refused (stale words).
Compile-time integer arithmetic follows rustc: `<<` wraps to the width (sign included), `/ %` truncate toward zero.
Primitives outside the crate's kernels are named by the kernel spec: loads/stores (`read_u32v_be`, …: `load_prim`,
`store_prim` — the destination words become parameters of the generated definition) and the std word methods
(`rotate_left/right` → `render`, `wrapping_add` → `+`, `^ & | ! << >>` → `^^^ &&& ||| ~~~ <<< >>>`).

Tie theorems: a FAILING kernel check of such a theorem can run for minutes (the kernel explores unfoldings of UInt32/64
arithmetic down to unary naturals); the tie files therefore set `set_option maxHeartbeats 20000` (a passing check
needs < 1000), which turns a failure into `(kernel) deterministic timeout` after ~30 s.
"""
import copy
import os
import re

import kernel_translate as kt
from kernel_translate import P, TranslateError, strip_comments, find_fn

WORD_BITS = {"u32": 32, "u64": 64}
INT_RANGE = {"u8": (0, 2**8), "u16": (0, 2**16), "u32": (0, 2**32), "u64": (0, 2**64), "u128": (0, 2**128),
             "usize": (0, 2**64), "i8": (-2**7, 2**7), "i16": (-2**15, 2**15), "i32": (-2**31, 2**31),
             "i64": (-2**63, 2**63), "isize": (-2**63, 2**63)}
LEAN_WORD = {"u32": "UInt32", "u64": "UInt64"}
LEAN_RESERVED = {"at", "from", "end", "fun", "do", "then", "else", "in", "if", "let", "have", "show", "by", "open", "with",
                 "match", "where", "def", "theorem", "at", "then", "for", "mut", "return", "this", "Type", "Prop",
                 "instance", "class", "structure", "namespace", "section", "variable", "universe", "import", "macro",
                 "syntax", "notation", "infix", "prefix", "postfix", "deriving", "extends", "using", "calc", "suffices",
                 "nomatch", "nofun", "forall", "exists", "true", "false", "set_option", "attribute", "local"}

# ----------------------------------------------------------------------------------------------- lexer

TOKEN = re.compile(
    r"\s*(?:"
    r"(0x[0-9a-fA-F_]+|0b[01_]+|0o[0-7_]+|[0-9][0-9_]*)((?:_?[ui](?:8|16|32|64|128|size))?)"
    r"|(b?\"(?:[^\"\\]|\\.)*\")"
    r"|([A-Za-z_][A-Za-z0-9_]*)"
    r"|(\.\.=|\.\.\.|\.\.|<<=|>>=|=>|<<|>>|\+=|-=|\*=|/=|%=|&=|\|=|\^=|==|!=|<=|>=|&&|\|\||->|::|[-+*/%&|^!=<>()\[\]{};:,.#$?@])"
    r")")


def lex(src):
    """tokens (kind, value, suffix) with kind in int | id | op | str; comments must already be stripped"""
    out, i, n = [], 0, len(src)
    while i < n:
        if src[i:].strip() == "":
            break
        m = TOKEN.match(src, i)
        if not m:
            raise TranslateError(f"cannot lex near {src[i:i+30]!r}")
        if m.group(1) is not None:
            out.append(("int", int(m.group(1).replace("_", ""), 0), m.group(2).lstrip("_") or None))
        elif m.group(3) is not None:
            out.append(("str", m.group(3), None))
        elif m.group(4) is not None:
            out.append(("id", m.group(4), None))
        else:
            out.append(("op", m.group(5), None))
        i = m.end()
    return out


OPEN = {"(": ")", "[": "]", "{": "}"}
CLOSE = {")", "]", "}"}


def isop(t, *v):
    return t[0] == "op" and t[1] in v


def match_close(toks, i):
    """toks[i] is an opening delimiter; index of its matching closer"""
    if not (toks[i][0] == "op" and toks[i][1] in OPEN):
        raise TranslateError(f"expected a delimiter, got {toks[i][1]!r}")
    stack = [OPEN[toks[i][1]]]
    j = i + 1
    while j < len(toks):
        t = toks[j]
        if t[0] == "op":
            if t[1] in OPEN:
                stack.append(OPEN[t[1]])
            elif t[1] in CLOSE:
                if t[1] != stack[-1]:
                    raise TranslateError("unbalanced delimiters")
                stack.pop()
                if not stack:
                    return j
        j += 1
    raise TranslateError("unbalanced delimiters (eof)")


def toks_text(toks):
    return " ".join(str(t[1]) for t in toks)


# ----------------------------------------------------------------------------------------------- source files

class Sources:
    """the Rust files a kernel may refer to (searched in order); comments stripped once"""

    def __init__(self, files):
        self.files = list(files)
        self.text = {}
        for f in self.files:
            path = os.path.join(kt.repo(), f)
            try:
                self.text[f] = strip_comments(open(path).read())
            except OSError as e:
                raise TranslateError(f"cannot read {f}: {e}")

    @staticmethod
    def balanced(text, i):
        """text[i] opens a group; index just after its closer"""
        stack = [OPEN[text[i]]]
        j = i + 1
        while j < len(text):
            c = text[j]
            if c == '"':
                j += 1
                while j < len(text) and text[j] != '"':
                    j += 2 if text[j] == "\\" else 1
            elif c in OPEN:
                stack.append(OPEN[c])
            elif c in CLOSE:
                if c != stack[-1]:
                    raise TranslateError("unbalanced delimiters in source")
                stack.pop()
                if not stack:
                    return j + 1
            j += 1
        raise TranslateError("unbalanced delimiters in source (eof)")

    @staticmethod
    def live(text, matches):
        """the regex matches whose item is compiled under the translators' configuration (kernel_translate.cfg_atom)"""
        groups = kt.scan_braces(text)
        return [m for m in matches if kt.compiled_at(text, m.start(), groups) is not False]

    def mod_span(self, text, mod):
        ms = self.live(text, list(re.finditer(r"\bmod\s+" + re.escape(mod) + r"\s*\{", text)))
        if not ms:
            return None
        if len(ms) > 1:
            raise TranslateError(f"module {mod} is defined {len(ms)} times")
        m = ms[0]
        return m.end() - 1, self.balanced(text, m.end() - 1)

    def find_macro(self, name, prefer=None, file_level=True):
        """(file, tokens of the delimited rules group) of the FILE-LEVEL `macro_rules! name` (a macro defined inside another
        function's body is not visible; macros local to the translated body are handled by Expander.expand)"""
        for f in ([prefer] if prefer else []) + [x for x in self.files if x != prefer]:
            text = self.text[f]
            ms = self.live(text, list(re.finditer(r"\bmacro_rules\s*!\s*" + re.escape(name) + r"\s*([\(\[\{])", text)))
            if file_level:
                groups = kt.scan_braces(text)
                ms = [m for m in ms if kt.depth_at(groups, m.start()) == 0]
            if len(ms) > 1:
                # textual scoping: an invocation sees the latest definition BEFORE it; which one that is is not modelled
                raise TranslateError(f"macro {name} is defined {len(ms)} times in {f}")
            if ms:
                m = ms[0]
                end = self.balanced(text, m.end() - 1)
                return f, lex(text[m.end() - 1:end])
        return None

    def find_const(self, path, prefer=None):
        """(file, type text, init text) of `const|static NAME: T = init;`; `a::NAME` searches inside `mod a {…}`"""
        segs = path.split("::")
        name, mods = segs[-1], [s for s in segs[:-1] if s not in ("self", "super", "crate", "common")]
        for f in ([prefer] if prefer else []) + [x for x in self.files if x != prefer]:
            text = self.text[f]
            lo, hi = 0, len(text)
            ok = True
            for md in mods:
                sp = self.mod_span(text[lo:hi], md)
                if sp is None:
                    ok = False
                    break
                lo, hi = lo + sp[0], lo + sp[1]
            if not ok:
                continue
            found = []
            region = text[lo:hi]
            for m in self.live(region, list(re.finditer(r"\b(?:const|static)\s+" + re.escape(name) + r"\s*:", region))):
                j = lo + m.end()
                depth, k = 0, j
                eq = None
                while k < hi:
                    c = text[k]
                    if c in OPEN:
                        depth += 1
                    elif c in CLOSE:
                        depth -= 1
                    elif c == "=" and depth == 0 and eq is None and text[k + 1] != "=":
                        eq = k
                    elif c == ";" and depth == 0:
                        break
                    k += 1
                if eq is None:
                    raise TranslateError(f"const {path}: no initialiser")
                found.append((text[j:eq], text[eq + 1:k]))
            if found:
                norm = {(re.sub(r"\s+", "", a), re.sub(r"\s+", "", b)) for a, b in found}
                if len(norm) > 1:
                    raise TranslateError(f"const {path} is ambiguous in {f}: {len(norm)} different definitions (qualify it)")
                return f, found[0][0], found[0][1]
        return None

    def fn_bodies(self, f, name):
        """all `fn name … { body }` of file f as (header, body)"""
        text, out = self.text[f], []
        for m in self.live(text, list(re.finditer(r"\bfn\s+" + re.escape(name) + r"\b", text))):
            depth, j = 0, m.end()
            while j < len(text):
                c = text[j]
                if c in "([":
                    depth += 1
                elif c in ")]":
                    depth -= 1
                elif c == "{" and depth == 0:
                    end = self.balanced(text, j)
                    out.append((text[m.start():j + 1], text[j + 1:end - 1]))
                    break
                elif c == ";" and depth == 0:
                    break
                j += 1
        return out

    def module_files(self, qual):
        """files that ARE the module `qual` (…/qual.rs or …/qual/mod.rs)"""
        return [f for f in self.files if f.endswith("/" + qual + ".rs") or f.endswith("/" + qual + "/mod.rs")]

    def find_fn(self, name, scope=None, prefer=None, qual=None):
        """(file, header, body).  With `scope` (regex, e.g. an impl header): the unique compiled fn INSIDE the braces of the item the
        regex matches (kernel_translate.find_fn).
        Without: the fn must be unique in the file it is found in (else ambiguous -> error).  `qual`: module qualifier of
        the call path (`reference::f`): only files that are that module are searched."""
        files = ([prefer] if prefer else []) + [x for x in self.files if x != prefer]
        if qual is not None:
            files = self.module_files(qual)
            if not files:
                raise TranslateError(f"module `{qual}` of `{qual}::{name}` is not among the kernel's source files")
        for f in files:
            if scope is not None:
                try:
                    hdr, body = find_fn(self.text[f], name, scope)
                    return f, hdr, body
                except TranslateError as err:
                    if "ambiguous" in str(err) or "not decided" in str(err):
                        raise
                    continue
            bodies = self.fn_bodies(f, name)
            if not bodies:
                continue
            norm = {re.sub(r"\s+", "", h + b) for h, b in bodies}
            if len(norm) > 1:
                raise TranslateError(f"fn {name} is ambiguous in {f}: {len(norm)} different definitions")
            return f, bodies[0][0], bodies[0][1]
        return None

    def has_tuple_struct(self, name):
        for f in self.files:
            m = re.search(r"\bstruct\s+" + re.escape(name) + r"\s*\(([^)]*)\)", self.text[f])
            if m:
                return len([x for x in m.group(1).split(",") if x.strip()])
        return None


# ----------------------------------------------------------------------------------------------- macro_rules!

class Macro:
    def __init__(self, name, group_toks):
        self.name = name
        self.rules = []
        inner = group_toks[1:-1]
        i = 0
        while i < len(inner):
            if isop(inner[i], ";"):
                i += 1
                continue
            j = match_close(inner, i)
            pat = inner[i + 1:j]
            if not (j + 1 < len(inner) and isop(inner[j + 1], "=>")):
                raise TranslateError(f"macro {name}: expected =>")
            k = match_close(inner, j + 2)
            body = inner[j + 3:k]
            self.rules.append((self.parse_pattern(pat), body))
            i = k + 1
        if not self.rules:
            raise TranslateError(f"macro {name}: no rules")

    # pattern tree: ("var", name, frag) | ("rep", sub, sep|None, op) | ("tok", token)
    def parse_pattern(self, toks):
        out, i = [], 0
        while i < len(toks):
            t = toks[i]
            if isop(t, "$"):
                nx = toks[i + 1]
                if isop(nx, "("):
                    j = match_close(toks, i + 1)
                    sub = self.parse_pattern(toks[i + 2:j])
                    sep, k = None, j + 1
                    if not isop(toks[k], "*", "+", "?"):
                        sep = toks[k]
                        k += 1
                    if not isop(toks[k], "*", "+", "?"):
                        raise TranslateError(f"macro {self.name}: bad repetition operator")
                    out.append(("rep", sub, sep, toks[k][1]))
                    i = k + 1
                    continue
                if nx[0] != "id" or not isop(toks[i + 2], ":") or toks[i + 3][0] != "id":
                    raise TranslateError(f"macro {self.name}: bad metavariable")
                out.append(("var", nx[1], toks[i + 3][1]))
                i += 4
                continue
            out.append(("tok", t))
            i += 1
        return out

    @staticmethod
    def pattern_vars(pat):
        vs = []
        for p in pat:
            if p[0] == "var":
                vs.append(p[1])
            elif p[0] == "rep":
                vs += Macro.pattern_vars(p[1])
        return vs

    def match_frag(self, frag, toks, i):
        """number of tokens of fragment `frag` starting at toks[i], or None"""
        if i >= len(toks):
            return None
        t = toks[i]
        if frag == "ident":
            return 1 if t[0] == "id" else None
        if frag == "literal":
            if t[0] in ("int", "str"):
                return 1
            if isop(t, "-") and i + 1 < len(toks) and toks[i + 1][0] == "int":
                return 2
            return None
        if frag == "tt":
            if t[0] == "op" and t[1] in OPEN:
                return match_close(toks, i) - i + 1
            return None if (t[0] == "op" and t[1] in CLOSE) else 1
        if frag in ("expr", "ty"):
            p = P2(toks[i:])
            try:
                p.expr() if frag == "expr" else p.ty()
            except (TranslateError, IndexError):
                return None
            return p.i if p.i > 0 else None
        raise TranslateError(f"macro {self.name}: fragment specifier `{frag}` not supported")

    def match(self, pat, toks, i, top=True):
        """-> (bindings, next index) or None; bindings: name -> ("toks", frag, [...]) | [bindings of repetitions]"""
        b = {}
        for idx, p in enumerate(pat):
            if p[0] == "tok":
                if i < len(toks) and toks[i][:2] == p[1][:2]:
                    i += 1
                    continue
                return None
            if p[0] == "var":
                n = self.match_frag(p[2], toks, i)
                if n is None:
                    return None
                b[p[1]] = ("toks", p[2], toks[i:i + n])
                i += n
                continue
            # repetition (greedy)
            _, sub, sep, op = p
            reps = []
            while True:
                j = i
                if reps and sep is not None:
                    if j < len(toks) and toks[j][:2] == sep[:2]:
                        j += 1
                    else:
                        break
                r = self.match(sub, toks, j, top=False)
                if r is None or r[1] == j:
                    break
                reps.append(r[0])
                i = r[1]
                if op == "?":
                    break
            if op == "+" and not reps:
                return None
            for v in self.pattern_vars(sub):
                b[v] = [r[v] for r in reps]
        if top and i != len(toks):
            return None
        return b, i

    def body_let_names(self, body):
        """identifiers bound by `let` patterns written in the macro body itself (hygiene: they are local)"""
        names, i = set(), 0
        while i < len(body):
            if body[i][0] == "id" and body[i][1] in ("let", "for"):
                j = i + 1
                while j < len(body) and not isop(body[j], "=", ":", ";") and not (body[j][0] == "id" and body[j][1] == "in"):
                    t = body[j]
                    if t[0] == "id" and t[1] not in ("mut", "ref", "_") and not (j + 1 < len(body) and isop(body[j + 1], "(", "::")) \
                            and not (j > 0 and isop(body[j - 1], "$")):
                        names.add(t[1])
                    j += 1
                i = j
            else:
                i += 1
        return names

    KEYWORDS = {"let", "mut", "ref", "for", "in", "if", "else", "while", "loop", "match", "return", "break", "continue", "as", "unsafe",
                "fn", "const", "static", "use", "self", "Self", "super", "crate", "true", "false", "move", "pub", "impl", "struct",
                "u8", "u16", "u32", "u64", "u128", "usize", "i8", "i16", "i32", "i64", "i128", "isize", "bool", "_"}

    def free_idents(self):
        """identifiers written in the rule bodies that denote VARIABLES of the definition site (not metavariables, not bound by a
        `let` of the body, not keywords / types, not function, macro, method, field or path-segment names)"""
        free = set()
        for pat, body in self.rules:
            bound = self.body_let_names(body)
            for j, t in enumerate(body):
                if t[0] != "id" or t[1] in self.KEYWORDS or t[1] in bound:
                    continue
                prev = body[j - 1] if j > 0 else ("op", ";", None)
                nxt = body[j + 1] if j + 1 < len(body) else ("op", ";", None)
                if isop(prev, "$", ".", "::") or isop(nxt, "(", "!", "::") or (nxt[0] == "op" and nxt[1] == "{" and t[1][:1].isupper()):
                    continue
                if t[1][:1].isupper() and t[1].upper() == t[1]:
                    continue                   # SCREAMING_CASE: a const / static item (items are not subject to hygiene)
                free.add(t[1])
        return free

    def transcribe(self, body, b, mark, local):
        out, i = [], 0
        while i < len(body):
            t = body[i]
            if isop(t, "$") and i + 1 < len(body):
                nx = body[i + 1]
                if isop(nx, "("):
                    j = match_close(body, i + 1)
                    sub = body[i + 2:j]
                    sep, k = None, j + 1
                    if not isop(body[k], "*", "+", "?"):
                        sep = body[k]
                        k += 1
                    used = [sub[x + 1][1] for x in range(len(sub) - 1) if isop(sub[x], "$") and sub[x + 1][0] == "id"]
                    lists = {v: b[v] for v in used if v in b and isinstance(b[v], list)}
                    if not lists:
                        raise TranslateError(f"macro {self.name}: repetition without repeated metavariable")
                    counts = {len(v) for v in lists.values()}
                    if len(counts) != 1:
                        raise TranslateError(f"macro {self.name}: repetition counts differ")
                    for r in range(counts.pop()):
                        if r and sep is not None:
                            out.append(sep)
                        sb = dict(b)
                        for v in lists:
                            sb[v] = lists[v][r]
                        out += self.transcribe(sub, sb, mark, local)
                    i = k + 1
                    continue
                if nx[0] == "id":
                    if nx[1] not in b:
                        raise TranslateError(f"macro {self.name}: unbound ${nx[1]}")
                    v = b[nx[1]]
                    if isinstance(v, list):
                        raise TranslateError(f"macro {self.name}: ${nx[1]} used outside its repetition")
                    _, frag, ts = v
                    if frag == "expr" and len(ts) > 1:
                        out += [("op", "(", None)] + list(ts) + [("op", ")", None)]
                    else:
                        out += list(ts)
                    i += 2
                    continue
                raise TranslateError(f"macro {self.name}: stray $")
            if t[0] == "id" and t[1] in local:
                out.append(("id", f"{t[1]}#{mark}", None))
            else:
                out.append(t)
            i += 1
        return out


class Expander:
    """token-level macro expansion of one function body (or macro result)"""
    BUILTIN = {"panic", "assert", "assert_eq", "assert_ne", "debug_assert", "debug_assert_eq", "unreachable", "unimplemented"}

    def __init__(self, sources, file, params=()):
        self.src, self.file = sources, file
        self.counter = 0
        self.file_macros = {}
        self.params = set(params)         # parameter names of the function whose body is expanded (locals, like its `let`s)

    def lookup(self, name, local):
        if name in local:
            return local[name]
        if name not in self.file_macros:
            r = self.src.find_macro(name, self.file)
            self.file_macros[name] = Macro(name, r[1]) if r else None
        return self.file_macros[name]

    def expand(self, toks, local=None, depth=0):
        if depth > 64:
            raise TranslateError("macro recursion too deep")
        inherited = dict(local or {})
        local = dict(inherited)
        # 1. local macro_rules! definitions (lexically scoped to this token sequence; removed from it)
        out, i, defined_here = [], 0, {}
        while i < len(toks):
            t = toks[i]
            if t[0] == "id" and t[1] == "macro_rules" and i + 3 < len(toks) and isop(toks[i + 1], "!"):
                name = toks[i + 2][1]
                j = match_close(toks, i + 3)
                # `macro_rules!` scoping is TEXTUAL (an invocation sees the latest definition before it); here all definitions of a
                # sequence are collected first.  That is the same thing only if a name has one definition and no use before it.
                if name in defined_here or name in inherited or self.src.find_macro(name, self.file) is not None:    # (file level)
                    raise TranslateError(f"macro {name}! is re-defined inside a body (textual macro scoping is not modelled)")
                if any(x[0] == "id" and x[1] == name and k + 1 < len(out) and isop(out[k + 1], "!") for k, x in enumerate(out[:-1])) \
                        or (out and out[-1][:2] == ("id", name)):
                    raise TranslateError(f"macro {name}! is invoked before its definition")
                local[name] = Macro(name, toks[i + 3:j + 1])
                defined_here[name] = len(out)
                i = j + 1
                if i < len(toks) and isop(toks[i], ";"):
                    i += 1
                continue
            out.append(t)
            i += 1
        toks = out
        # hygiene: an identifier in a macro body denotes the variable visible where the macro is DEFINED.  Expansion is textual at
        # the call site, so a `let`/`for` binding of that name AFTER the definition would capture it: refused.
        for name, at in defined_here.items():
            later = Macro.body_let_names(local[name], toks[at:])
            clash = sorted(local[name].free_idents() & later)
            if clash:
                raise TranslateError(f"`let {clash[0]}` after the definition of macro {name}! would capture the `{clash[0]}` its body mentions "
                                     "(macro hygiene; textual expansion is not faithful here)")
        if depth == 0:
            self.body_lets = Macro.body_let_names(None, toks) | self.params
        # 2. invocations
        out, i = [], 0
        while i < len(toks):
            t = toks[i]
            if t[0] == "id" and i + 2 < len(toks) and isop(toks[i + 1], "!") and toks[i + 2][0] == "op" and toks[i + 2][1] in OPEN \
                    and t[1] not in self.BUILTIN:
                mac = self.lookup(t[1], local)
                if mac is None:
                    raise TranslateError(f"macro {t[1]}! not found")
                if t[1] not in local:
                    # file-level macro: its body cannot see ANY local of the function it is invoked in
                    clash = sorted(mac.free_idents() & getattr(self, "body_lets", set()))
                    if clash:
                        raise TranslateError(f"file-level macro {t[1]}! mentions `{clash[0]}`, which is also a local variable of the invoking "
                                             "function (macro hygiene; textual expansion would capture it)")
                j = match_close(toks, i + 2)
                args = toks[i + 3:j]
                for pat, body in mac.rules:
                    r = mac.match(pat, args, 0)
                    if r is not None:
                        self.counter += 1
                        res = mac.transcribe(body, r[0], self.counter, mac.body_let_names(body))
                        res = self.expand(res, local, depth + 1)
                        # the expansion is one syntactic unit: an expression / block / statement list.
                        out.append(("op", "{", "macro"))
                        out += res
                        out.append(("op", "}", "macro"))
                        break
                else:
                    raise TranslateError(f"macro {t[1]}!: no rule matches `{toks_text(args)[:80]}`")
                i = j + 1
                continue
            if t[0] == "op" and t[1] in OPEN:
                j = match_close(toks, i)
                out.append(t)
                out += self.expand(toks[i + 1:j], local, depth + 1)
                out.append(toks[j])
                i = j + 1
                continue
            out.append(t)
            i += 1
        return out


# ----------------------------------------------------------------------------------------------- parser

class P2(P):
    """kernel_translate.P + blocks, unsafe, while, match, else-if, refs/derefs kept, tuple-struct patterns,
    local const items, cfg attributes, macro-expansion groups `{macro … }macro` (transparent blocks)"""

    def block(self):
        stmts = []
        while self.peek()[0] != "eof" and not self.at("}"):
            if self.at(";"):
                self.eat(); continue
            if self.at("#"):
                self.eat()
                if self.at("!"):
                    self.eat()
                self.eat("["); start = self.i; d = 1
                while d:
                    t = self.eat()[1]; d += (t == "[") - (t == "]")
                attr = self.t[start:self.i - 1]
                if attr and attr[0][1] == "cfg_attr":
                    raise TranslateError("`#[cfg_attr(..)]` inside a function body is outside the translated subset")
                if attr and attr[0][1] == "cfg":
                    st = self.item_or_stmt()
                    stmts.append(("cfg", attr[1:], st))
                continue
            st = self.item_or_stmt()
            if st is not None:
                stmts.append(st)
        return stmts

    def item_or_stmt(self):
        if self.atid("pub"):
            self.eat()
            if self.at("("):
                self.i = match_close(self.t, self.i) + 1
        if self.atid("fn") or ((self.atid("const") or self.atid("unsafe")) and self.peek(1)[1] == "fn"):
            # nested fn item: ("fnitem", name) when self.fnitems (the executor checks that it shadows no primitive; the item itself is
            # translated when it is called, found by Sources.find_fn); legacy consumers: skipped, name recorded in self.skipped_fns
            while not self.atid("fn"):
                self.eat()
            self.eat(); name = self.eat()[1]
            while not self.at("{"):
                self.eat()
            self.i = match_close(self.t, self.i) + 1
            if self.fnitems:
                return ("fnitem", name)
            self.skipped_fns.append(name)
            return None
        if self.atid("use"):
            start = self.i
            while not self.at(";"):
                self.eat()
            if any(t[0] == "id" and t[1] == "as" for t in self.t[start:self.i]):
                raise TranslateError("renaming import (`use … as …`) inside a function body: names are resolved by spelling")
            self.eat(";")
            return None
        return self.stmt()

    def braced(self):
        self.eat("{"); b = self.block(); self.eat("}")
        return b

    def pattern(self):
        if self.at("&"):
            self.eat()
            if self.atid("mut"):
                self.eat()
            return self.pattern()
        if self.atid("mut"):
            self.eat(); return ("var", self.eat()[1])
        if self.at("(") or self.at("["):
            close = ")" if self.at("(") else "]"
            self.eat(); items = []
            while not self.at(close):
                items.append(self.pattern())
                if self.at(","):
                    self.eat()
            self.eat(close)
            return ("tuple", items)
        p = self.peek()
        if p[0] == "int":
            self.eat(); return ("litpat", p[1])
        if p[0] != "id":
            raise TranslateError(f"bad pattern at {p}")
        name = self.eat()[1]
        while self.at("::"):
            self.eat(); name += "::" + self.eat()[1]
        if self.at("("):
            self.eat(); items = []
            while not self.at(")"):
                items.append(self.pattern())
                if self.at(","):
                    self.eat()
            self.eat(")")
            return ("tstruct", name, items)
        if name == "_":
            return ("wild",)
        if "::" in name:
            return ("pathpat", name)
        return ("var", name)

    BLOCKLIKE = ("if", "match", "unsafe", "loop")

    def expr(self, lvl=0):
        if lvl == 0 and self.at("..", "..="):
            op = self.eat()[1]
            hi = None if self.at("]", ")", "{", ";", ",") else self.expr(1)
            return ("range", None, hi, op)
        return super().expr(lvl)

    def stmt(self):
        if self.atid("let"):
            self.eat()
            pat = self.pattern()
            ty = None
            if self.at(":"):
                self.eat(); ty = self.ty()
            init = None
            if self.at("="):
                self.eat(); init = self.expr()
            self.eat(";")
            return ("let", pat, ty, init)          # `&mut` initialisers stay visible as ("ref", True, place) nodes (see Ex.exec_stmts)
        if self.atid("const") or self.atid("static"):
            self.eat(); name = self.eat()[1]; self.eat(":"); ty = self.ty(); self.eat("="); init = self.expr(); self.eat(";")
            return ("let", ("var", name), ty, init)
        if self.atid("for"):
            self.eat(); pat = self.pattern(); self.eat("in")
            rng = self.expr()
            return ("for", pat, rng, self.braced())
        if self.atid("while"):
            self.eat(); c = self.expr()
            return ("while", c, self.braced())
        if self.atid("return"):
            self.eat()
            e = None if self.at(";") else self.expr()
            if self.at(";"):
                self.eat()
            return ("return", e)
        if self.atid("break") or self.atid("continue") or self.atid("loop"):
            raise TranslateError(f"`{self.peek()[1]}` not supported")
        blocklike = (self.peek()[0] == "id" and self.peek()[1] in self.BLOCKLIKE) or self.at("{")
        e = self.expr()
        if self.at("=", "+=", "-=", "*=", "&=", "|=", "^=", "<<=", ">>="):
            op = self.eat()[1]; rhs = self.expr(); self.eat(";")
            return ("assign", e, op, rhs)
        if self.at(";"):
            self.eat(); return ("expr", e)
        if blocklike and not self.at("}") and self.peek()[0] != "eof":
            return ("expr", e)
        if not self.at("}") and self.peek()[0] != "eof":
            raise TranslateError(f"expected `;` or `}}`, got {self.peek()[1]!r}")
        return ("ret", e)

    def unary(self):
        if self.at("-"):
            self.eat(); return ("neg", self.unary())
        if self.at("!"):
            self.eat(); return ("not", self.unary())
        if self.at("&"):
            self.eat(); mut = False
            if self.atid("mut"):
                self.eat(); mut = True
            return ("ref", mut, self.unary())
        if self.at("*"):
            self.eat(); return ("deref", self.unary())
        return self.postfix()

    def atom(self):
        p = self.peek()
        if self.at("{"):
            return ("mblock" if p[2] == "macro" else "block", self.braced())
        if self.atid("unsafe"):
            self.eat(); return ("block", self.braced())
        if self.atid("if"):
            self.eat(); c = self.expr(); a = self.braced(); b = None
            if self.atid("else"):
                self.eat()
                if self.atid("if"):
                    b = [("ret", self.atom())]
                else:
                    b = self.braced()
            return ("if", c, a, b)
        if self.atid("match"):
            self.eat(); scrut = self.expr(); self.eat("{"); arms = []
            while not self.at("}"):
                pats = [self.pattern()]
                while self.at("|"):
                    self.eat(); pats.append(self.pattern())
                if self.atid("if"):
                    raise TranslateError("match guards not supported")
                self.eat("=>")
                body = self.expr()
                if self.at(","):
                    self.eat()
                arms.append((pats, body))
            self.eat("}")
            return ("match", scrut, arms)
        if p[0] == "id" and self.peek(1)[0] == "op" and self.peek(1)[1] == "!" and self.peek(2)[0] == "op" and self.peek(2)[1] in OPEN:
            name = self.eat()[1]; self.eat("!")
            j = match_close(self.t, self.i)
            inner = self.t[self.i + 1:j]
            self.i = j + 1
            return ("bmacro", name, inner)
        if p[0] == "str":
            self.eat(); return ("str", p[1])
        if p[0] == "id" and p[1] in ("let", "for", "while", "return", "fn", "struct", "impl", "mod", "loop", "break", "continue", "move"):
            raise TranslateError(f"unexpected keyword `{p[1]}` in expression")
        return super().atom()


def parse_block(toks):
    p = P2(toks)
    p.fnitems = True
    b = p.block()
    if p.peek()[0] != "eof":
        raise TranslateError(f"trailing tokens after block: {p.peek()[1]!r}")
    return b


# ----------------------------------------------------------------------------------------------- values

class Int:
    """compile-time integer (index, counter, shift amount, table entry, typed literal)"""
    __slots__ = ("v", "ty")

    def __init__(self, v, ty=None):
        self.v, self.ty = v, ty
        if ty is not None:
            if ty not in INT_RANGE:
                raise TranslateError(f"unknown integer type {ty}")
            lo, hi = INT_RANGE[ty]
            if not lo <= v < hi:
                raise TranslateError(f"compile-time integer {v} out of range for {ty} (overflow in the source)")
        elif v < 0:
            pass

    def __eq__(self, o):
        return isinstance(o, Int) and (self.v, self.ty) == (o.v, o.ty)

    def __repr__(self):
        return f"Int({self.v},{self.ty})"


class Word:
    """run-time machine word as a Lean term"""
    __slots__ = ("text", "ty", "atomic", "top")

    def __init__(self, text, ty, atomic=False, top=None):
        self.text, self.ty, self.atomic, self.top = text, ty, atomic, top

    def __eq__(self, o):
        return isinstance(o, Word) and (self.text, self.ty) == (o.text, o.ty)

    def __repr__(self):
        return f"Word({self.text}:{self.ty})"


class Tup:
    """tuple or tuple struct (name = struct name or None)"""
    __slots__ = ("name", "items")

    def __init__(self, name, items):
        self.name, self.items = name, list(items)

    def __eq__(self, o):
        return isinstance(o, Tup) and self.name == o.name and self.items == o.items

    def __repr__(self):
        return f"Tup({self.name},{self.items})"


class Arr:
    """array with statically known length; mutable (aliasing through `&mut` is Python aliasing)"""
    __slots__ = ("items", "ety")

    def __init__(self, items, ety=None):
        self.items, self.ety = list(items), ety

    def __eq__(self, o):
        return isinstance(o, Arr) and self.items == o.items

    def __repr__(self):
        return f"Arr({self.items})"


class RtBool:
    """run-time boolean as a Lean `Bool` term"""
    __slots__ = ("text",)

    def __init__(self, text):
        self.text = text


class EnumV:
    __slots__ = ("path",)

    def __init__(self, path):
        self.path = path

    def __eq__(self, o):
        return isinstance(o, EnumV) and self.path == o.path


class Opaque:
    """a value the kernel only passes to a primitive (e.g. the byte slice `buf`)"""
    __slots__ = ("name",)

    def __init__(self, name):
        self.name = name

    def __eq__(self, o):
        return isinstance(o, Opaque) and self.name == o.name


class Rec:
    """struct with named fields (e.g. `self` of an engine: fields `h`, `t`)"""
    __slots__ = ("fields",)

    def __init__(self, fields):
        self.fields = dict(fields)

    def __eq__(self, o):
        return isinstance(o, Rec) and self.fields == o.fields


UNIT = Tup(None, [])


class ReturnEx(Exception):
    def __init__(self, val):
        self.val = val


def vcopy(v):
    if isinstance(v, Arr):
        return Arr([vcopy(x) for x in v.items], v.ety)
    if isinstance(v, Tup):
        return Tup(v.name, [vcopy(x) for x in v.items])
    if isinstance(v, Rec):
        return Rec({k: vcopy(x) for k, x in v.fields.items()})
    return v


# ----------------------------------------------------------------------------------------------- kernel spec

class WKernel:
    """spec of one word kernel

    file, fn, scope     where the Rust function is (scope: regex matching the header of the impl / mod the fn is INSIDE, e.g. r"impl\\s+EngineB")
    files               further source files searched for helper fns / consts / macros / operator impls
    lean_name, params, ret_type, doc
    args                rust parameter name -> value (use the helpers words()/word()/opaque())
    prims               rust fn name -> python handler(ex, arg_asts) -> value   (calls that are NOT inlined)
    conds               run-time test `<opaque parameter> <op> <Enum::Variant>` -> Lean Bool term, e.g. {"last == LastBlock::Yes": "last"}
                        (matched on the VALUES of the operands: the opaque argument named `last`, the enum constant)
    render              overrides of the Lean rendering of std word methods, e.g. {"rotate_right": "rotate_right {x} {n}"}
    result              python function (ex) -> Lean term of the result (ex.var(name), ex.outputs)
    cfg                 truth of cfg predicates, e.g. {'target_feature = "avx"': False}
    until               optional predicate(stmt AST): only the top-level statements before the first match are translated
                        (a prefix of the function, e.g. the message schedule; `result` then reads local variables)
    """

    def __init__(self, **kw):
        self.file = kw["file"]; self.fn = kw["fn"]; self.scope = kw.get("scope")
        self.files = [self.file] + [f for f in kw.get("files", []) if f != self.file]
        self.lean_name = kw["lean_name"]; self.params = kw["params"]; self.ret_type = kw["ret_type"]
        self.args = dict(kw.get("args", {})); self.prims = dict(kw.get("prims", {}))
        self.conds = dict(kw.get("conds", {})); self.render = dict(kw.get("render", {}))
        self.result = kw["result"]; self.cfg = dict(kw.get("cfg", {})); self.doc = kw.get("doc", "")
        self.reserved = set(kw.get("reserved", []))
        self.until = kw.get("until")      # optional predicate on top-level statements: translate only the statements BEFORE the first match
        self.attrs = kw.get("attrs", "")


def word(text, ty):
    return Word(text, ty, True)


def words(texts, ty):
    return Arr([Word(t, ty, True) for t in texts], ty)


def opaque(name):
    return Opaque(name)


def load_prim(src_name, names, ty):
    """`read_uNNv_xx(&mut dst[a..b] | &mut dst, src)`: dst elements become the Lean variables `names` (the words of `src`)"""
    def h(ex, args):
        if len(args) != 2:
            raise TranslateError("load primitive: arity")
        srcv = ex.ev(args[1])
        if not (isinstance(srcv, Opaque) and srcv.name == src_name):
            raise TranslateError(f"load primitive: source is not `{src_name}`")
        if src_name in ex.stored:
            raise TranslateError(f"load from `{src_name}` after a store to it: the words of the buffer are no longer the parameters of the kernel")
        arr, lo, hi = ex.slice_place(args[0])
        if hi - lo != len(names):
            raise TranslateError(f"load primitive: destination has {hi - lo} words, expected {len(names)}")
        if arr.ety is not None and arr.ety != ty:
            raise TranslateError(f"load primitive: destination element type {arr.ety}, expected {ty}")
        for i, n in enumerate(names):
            arr.items[lo + i] = Word(n, ty, True)
        return UNIT
    return h


def store_prim(dst_name, slot):
    """`write_uNNv_xx(dst, &src)`: records a copy of the array `src` as ex.outputs[slot]"""
    def h(ex, args):
        if len(args) != 2:
            raise TranslateError("store primitive: arity")
        d = ex.ev(args[0])
        if not (isinstance(d, Opaque) and d.name == dst_name):
            raise TranslateError(f"store primitive: destination is not `{dst_name}`")
        ex.stored.add(dst_name)
        arr, lo, hi = ex.slice_place(args[1])
        ex.outputs[slot] = [ex.atom(x, f"{slot}{i}") for i, x in enumerate(arr.items[lo:hi])]
        return UNIT
    return h


# ----------------------------------------------------------------------------------------------- executor

class Frame:
    def __init__(self, file):
        self.file = file
        self.scopes = [{}]


class Ex:
    def __init__(self, k: WKernel, sources: Sources):
        self.k, self.src = k, sources
        self.lines = []
        self.used = set(LEAN_RESERVED) | set(k.reserved)
        for m in re.finditer(r"[A-Za-z_][A-Za-z0-9_']*", k.params):
            self.used.add(m.group(0))
        self.frames = []
        self.outputs = {}
        self.ret = None
        self.const_cache = {}
        self.depth = 0
        self.steps = 0
        self.no_emit = 0
        self.stored = set()        # opaque buffers written by a store primitive (a later load of them would read stale parameters)

    # ---- names / emission
    def fresh(self, base):
        base = re.sub(r"#\d+", "", base)
        base = re.sub(r"[^A-Za-z0-9_]", "_", base) or "t"
        if base[0].isdigit():
            base = "t" + base
        name, n = base, 0
        while name in self.used:
            n += 1
            name = f"{base}_{n}"
        self.used.add(name)
        return name

    def emit(self, base, text):
        if self.no_emit:
            raise TranslateError("run-time computation in a constant initialiser")
        name = self.fresh(base)
        self.lines.append(f"  let {name} := {text}")
        return name

    def atom(self, v, base):
        """bind compound run-time terms to names (SSA), recursively through tuples/arrays"""
        if isinstance(v, Word):
            if v.atomic:
                return v
            return Word(self.emit(base, v.text), v.ty, True)
        if isinstance(v, Tup):
            return Tup(v.name, [self.atom(x, f"{base}_{i}") for i, x in enumerate(v.items)])
        if isinstance(v, Arr):
            return Arr([self.atom(x, self.elem_name(base, i)) for i, x in enumerate(v.items)], v.ety)
        return v

    @staticmethod
    def elem_name(base, i):
        base = re.sub(r"#\d+", "", base)
        return f"{base}_{i}" if base[-1:].isdigit() else f"{base}{i}"

    # ---- environment
    @property
    def fr(self):
        return self.frames[-1]

    def lookup(self, name):
        plain = re.sub(r"#\d+", "", name)
        for cand in ([name, plain] if plain != name else [name]):
            for sc in reversed(self.fr.scopes):
                if cand in sc:
                    return sc, cand
        return None

    def declare(self, name, val):
        self.fr.scopes[-1][name] = val

    def var(self, name):
        r = self.lookup(name)
        if r is None:
            raise TranslateError(f"unknown variable {name}")
        return r[0][r[1]]

    # ---- rendering of word operations
    def lit(self, v, ty):
        lo, hi = INT_RANGE[ty]
        if not lo <= v < hi:
            raise TranslateError(f"literal {v} does not fit {ty}")
        return Word(f"({hex(v) if v > 9 else v} : {LEAN_WORD[ty]})", ty, True)

    @staticmethod
    def par(w):
        """as an argument of a function application"""
        return w.text if w.atomic else f"({w.text})"

    @staticmethod
    def opd(w):
        """as an operand of an infix operator (function application binds tighter)"""
        return w.text if (w.atomic or w.top == "app") else f"({w.text})"

    def as_word(self, v, ty_hint=None):
        if isinstance(v, Word):
            return v
        if isinstance(v, Int):
            ty = v.ty if v.ty in WORD_BITS else ty_hint
            if v.ty is not None and v.ty not in WORD_BITS and v.ty != ty_hint:
                raise TranslateError(f"integer of type {v.ty} used as a {ty_hint} word")
            if ty not in WORD_BITS:
                raise TranslateError("cannot type integer literal as a word")
            return self.lit(v.v, ty)
        raise TranslateError(f"expected a word, got {v!r}")

    def word_bin(self, op, a, b):
        a = self.as_word(a, b.ty if isinstance(b, Word) else None)
        b = self.as_word(b, a.ty)
        if a.ty != b.ty:
            raise TranslateError(f"word type mismatch {a.ty} vs {b.ty}")
        sym = {"wadd": "+", "wsub": "-", "wmul": "*", "^": "^^^", "&": "&&&", "|": "|||"}[op]
        # left-associative chains are printed without redundant parentheses on the left (same operator only)
        lt = a.text if (a.atomic or a.top in (sym, "app")) else f"({a.text})"
        return Word(f"{lt} {sym} {self.opd(b)}", a.ty, False, sym)

    def render_method(self, name, x, n):
        tmpl = self.k.render.get(name)
        bits = WORD_BITS[x.ty]
        if tmpl is None:
            tmpl = {"rotate_left": f"rotl{bits} {{x}} {{n}}", "rotate_right": f"rotr{bits} {{x}} {{n}}"}[name]
        return Word(tmpl.format(x=self.par(x), n=n, bits=bits), x.ty, False, "app")

    def wt(self, v, ty=None):
        """Lean text of a word-valued result component (typed compile-time integers are literals)"""
        return self.as_word(v, ty).text

    def wts(self, vs, ty=None):
        return [self.wt(v, ty) for v in (vs.items if isinstance(vs, (Arr, Tup)) else vs)]

    # ---- constants of the source files
    def const_value(self, path):
        key = (self.fr.file, path)
        if key in self.const_cache:
            return vcopy(self.const_cache[key])
        r = self.src.find_const(path, self.fr.file)
        if r is None:
            return None
        f, tytext, inittext = r
        ty = P2(lex(tytext)).ty()
        init = P2(lex(inittext))
        e = init.expr()
        if init.peek()[0] != "eof":
            raise TranslateError(f"const {path}: trailing tokens")
        self.frames.append(Frame(f))
        self.no_emit += 1
        try:
            v = self.coerce(self.ev(e, ty), ty)
        finally:
            self.no_emit -= 1
            self.frames.pop()
        self.const_cache[key] = v
        return vcopy(v)

    def coerce(self, v, ty):
        """give untyped compile-time integers the declared type"""
        if ty is None:
            return v
        if isinstance(ty, tuple) and ty[0] == "arr":
            if isinstance(v, Arr):
                n = ty[2]
                if n is not None:
                    nv = self.ev(n)
                    if not isinstance(nv, Int) or nv.v != len(v.items):
                        raise TranslateError(f"array length {len(v.items)} does not match its type")
                ety = ty[1] if isinstance(ty[1], str) else None
                return Arr([self.coerce(x, ty[1]) for x in v.items], ety if ety in INT_RANGE else v.ety)
            return v
        if isinstance(ty, str) and isinstance(v, Int):
            if ty in INT_RANGE:
                if v.ty is not None and v.ty != ty:
                    raise TranslateError(f"integer of type {v.ty} where {ty} is declared")
                return Int(v.v, ty)
        if isinstance(ty, str) and isinstance(v, Word) and ty in WORD_BITS and v.ty != ty:
            raise TranslateError(f"word of type {v.ty} where {ty} is declared")
        return v

    # ---- places
    def static_index(self, e, n):
        i = self.ev(e)
        if not isinstance(i, Int):
            raise TranslateError("index is not a compile-time integer")
        if not 0 <= i.v < n:
            raise TranslateError(f"index {i.v} out of bounds (len {n}) — the source would panic / be UB")
        return i.v

    def arr_place(self, e):
        """the Arr OBJECT denoted by a place expression (no copy)"""
        k = e[0]
        if k in ("paren", "deref"):
            return self.arr_place(e[1])
        if k == "ref":
            return self.arr_place(e[2])
        if k in ("block", "mblock") and len(e[1]) == 1 and e[1][0][0] == "ret":      # macro-expansion group around a place
            return self.arr_place(e[1][0][1])
        if k == "path":
            v = self.var(e[1]) if self.lookup(e[1]) else None
            if isinstance(v, Arr):
                return v
            raise TranslateError(f"{e[1]} is not a mutable local array")
        if k == "index":
            base = self.arr_place(e[1])
            if e[2][0] == "range":
                raise TranslateError("sub-slice used as array place")
            v = base.items[self.static_index(e[2], len(base.items))]
            if isinstance(v, Arr):
                return v
            raise TranslateError("indexed element is not an array")
        if k == "field":
            b = self.ev(e[1])
            if isinstance(b, Rec) and isinstance(b.fields.get(e[2]), Arr):
                return b.fields[e[2]]
            raise TranslateError(f"field .{e[2]} is not an array of a struct value")
        raise TranslateError(f"unsupported array place {k}")

    def slice_place(self, e):
        """(Arr object, lo, hi) of `&mut a[lo..hi]`, `&mut a[..]`, `&mut a`, `&a`, `a`"""
        k = e[0]
        if k in ("paren", "deref"):
            return self.slice_place(e[1])
        if k == "ref":
            return self.slice_place(e[2])
        if k in ("block", "mblock") and len(e[1]) == 1 and e[1][0][0] == "ret":
            return self.slice_place(e[1][0][1])
        if k == "index" and e[2][0] == "range":
            arr, lo0, hi0 = self.slice_place(e[1])
            r = e[2]
            lo = self.ev(r[1]).v if r[1] is not None else 0
            hi = self.ev(r[2]).v if r[2] is not None else hi0 - lo0
            if len(r) > 3 and r[3] == "..=":
                hi += 1
            if not (0 <= lo <= hi <= hi0 - lo0):
                raise TranslateError(f"slice {lo}..{hi} out of bounds (len {hi0 - lo0})")
            return arr, lo0 + lo, lo0 + hi
        arr = self.arr_place(e)
        return arr, 0, len(arr.items)

    def assign(self, lhs, val, base_hint=None):
        k = lhs[0]
        if k in ("paren", "deref"):
            return self.assign(lhs[1], val, base_hint)
        if k in ("block", "mblock") and len(lhs[1]) == 1 and lhs[1][0][0] == "ret":
            return self.assign(lhs[1][0][1], val, base_hint)
        if k == "path":
            r = self.lookup(lhs[1])
            if r is None:
                raise TranslateError(f"assignment to unknown variable {lhs[1]}")
            sc, name = r
            old = sc[name]
            val = self.match_shape(old, val, name)
            if isinstance(old, Arr) and isinstance(val, Arr):
                # `a = [..]` / `*r = [..]` with r a `&mut` alias: the OBJECT is updated, so that every alias of it sees the write
                old.items[:] = self.atom(val, name).items
                return
            sc[name] = self.atom(val, name)
            return
        if k == "index":
            arr = self.arr_place(lhs[1])
            i = self.static_index(lhs[2], len(arr.items))
            val = self.match_shape(arr.items[i], val, "element")
            arr.items[i] = self.atom(val, self.elem_name(self.place_name(lhs[1]), i))
            return
        if k == "method" and lhs[2] == "get_unchecked_mut" and len(lhs[3]) == 1:
            return self.assign(("index", lhs[1], lhs[3][0]), val)
        if k == "field":
            base = self.ev(lhs[1])
            if isinstance(base, Tup) and lhs[2].isdigit():
                items = list(base.items)
                items[int(lhs[2])] = val
                return self.assign(lhs[1], Tup(base.name, items))
        raise TranslateError(f"unsupported assignment target {k}")

    def match_shape(self, old, new, what):
        """assignments keep the kind of value: word stays word (typed), array stays array of the same length"""
        if isinstance(old, (Word,)) or (isinstance(old, Int) and old.ty in WORD_BITS):
            ty = old.ty
            if isinstance(new, Int):
                if new.ty not in (None, ty):
                    raise TranslateError(f"assignment of {new.ty} integer to {ty} {what}")
                return Int(new.v, ty)
            if isinstance(new, Word) and new.ty != ty:
                raise TranslateError(f"assignment of {new.ty} word to {ty} {what}")
            return new
        if isinstance(old, Int) and isinstance(new, Int):
            if old.ty is not None and new.ty is None:
                return Int(new.v, old.ty)
            if old.ty is not None and new.ty != old.ty:
                raise TranslateError(f"assignment of {new.ty} integer to {old.ty} {what}")
            return new
        if isinstance(old, Arr):
            if not isinstance(new, Arr) or len(new.items) != len(old.items):
                raise TranslateError(f"assignment changes the array shape of {what}")
            return vcopy(new)
        if isinstance(old, Tup):
            if not isinstance(new, Tup) or len(new.items) != len(old.items):
                raise TranslateError(f"assignment changes the tuple shape of {what}")
            return new
        if old is None:
            return new
        if type(old) is not type(new):
            raise TranslateError(f"assignment changes the kind of {what}")
        return new

    def place_name(self, e):
        k = e[0]
        if k in ("paren", "deref"):
            return self.place_name(e[1])
        if k == "ref":
            return self.place_name(e[2])
        if k in ("block", "mblock") and len(e[1]) == 1 and e[1][0][0] == "ret":
            return self.place_name(e[1][0][1])
        if k == "path":
            return re.sub(r"#\d+", "", e[1].split("::")[-1])
        if k == "index":
            return self.place_name(e[1])
        if k == "field":
            return self.place_name(e[1])
        return "t"

    # ---- canonical source text of small expressions (for `conds`)
    def text(self, e):
        k = e[0]
        if k == "paren":
            return self.text(e[1])
        if k in ("block", "mblock") and len(e[1]) == 1 and e[1][0][0] == "ret":
            return self.text(e[1][0][1])
        if k == "path":
            return re.sub(r"#\d+", "", e[1])
        if k == "lit":
            return str(e[1])
        if k == "bin":
            return f"{self.text(e[2])} {e[1]} {self.text(e[3])}"
        if k == "not":
            return "!" + self.text(e[1])
        if k == "field":
            return self.text(e[1]) + "." + e[2]
        if k == "index":
            return self.text(e[1]) + "[" + self.text(e[2]) + "]"
        return f"<{k}>"

    # ---- expressions
    def ev(self, e, want=None):
        self.steps += 1
        if self.steps > 5_000_000:
            raise TranslateError("translation does not terminate (step limit)")
        k = e[0]
        if k == "lit":
            return Int(e[1], e[2])
        if k == "paren":
            return self.ev(e[1], want)
        if k == "ref":
            return self.ev(e[2], want)
        if k == "deref":
            return self.ev(e[1], want)
        if k == "str":
            return Opaque(e[1])
        if k == "path":
            return self.ev_path(e[1])
        if k == "block":
            return self.exec_block(e[1])
        if k == "mblock":                      # macro expansion: statements land in the invoking scope (hygiene by renaming)
            return self.exec_stmts(e[1])
        if k == "tuple":
            return Tup(None, [self.ev(x) for x in e[1]])
        if k == "array":
            return Arr([self.ev(x) for x in e[1]])
        if k == "repeat":
            n = self.ev(e[2])
            if not isinstance(n, Int):
                raise TranslateError("array repeat count is not a compile-time integer")
            ety = want[1] if isinstance(want, tuple) and want[0] == "arr" and isinstance(want[1], str) else None
            v = self.coerce(self.ev(e[1]), ety)
            return Arr([vcopy(v) for _ in range(n.v)], v.ty if isinstance(v, (Int, Word)) else None)
        if k == "field":
            b = self.ev(e[1])
            if isinstance(b, Tup) and e[2].isdigit():
                i = int(e[2])
                if i >= len(b.items):
                    raise TranslateError("tuple field out of range")
                return b.items[i]
            if isinstance(b, Rec) and e[2] in b.fields:
                return b.fields[e[2]]
            raise TranslateError(f"unsupported field access .{e[2]}")
        if k == "index":
            if e[2][0] == "range":
                arr, lo, hi = self.slice_place(e)
                return Arr([vcopy(x) for x in arr.items[lo:hi]], arr.ety)
            b = self.ev_noncopy(e[1])
            if not isinstance(b, Arr):
                raise TranslateError("indexing a non-array")
            return b.items[self.static_index(e[2], len(b.items))]
        if k == "cast":
            v = self.ev(e[1])
            to = e[2]
            if isinstance(v, Int) and isinstance(to, str) and to in INT_RANGE:
                lo, hi = INT_RANGE[to]
                return Int((v.v - lo) % (hi - lo) + lo, to)
            if isinstance(v, Word) and to == v.ty:
                return v
            raise TranslateError(f"unsupported cast to {to}")
        if k == "neg":
            v = self.ev(e[1])
            if isinstance(v, Int):
                return Int(-v.v, v.ty)
            raise TranslateError("unary minus on a run-time value")
        if k == "not":
            v = self.ev(e[1])
            if isinstance(v, bool):
                return not v
            if isinstance(v, RtBool):
                return RtBool(f"!{v.text}" if re.fullmatch(r"\w+", v.text) else f"!({v.text})")
            if isinstance(v, Int):
                if v.ty in WORD_BITS:
                    v = self.as_word(v)
                else:
                    raise TranslateError("`!` on an untyped compile-time integer")
            if isinstance(v, Word):
                return Word(f"~~~{self.par(v)}", v.ty)
            raise TranslateError("`!` on unsupported value")
        if k == "bin":
            return self.ev_bin(e)
        if k == "if":
            return self.ev_if(e)
        if k == "match":
            return self.ev_match(e)
        if k == "call":
            return self.ev_call(e)
        if k == "method":
            return self.ev_method(e)
        if k == "bmacro":
            return self.ev_bmacro(e)
        if k == "range":
            raise TranslateError("range expression outside of for/index")
        raise TranslateError(f"unsupported expression {k}")

    def ev_noncopy(self, e):
        """evaluate an array-valued expression without copying when it is a place"""
        try:
            return self.arr_place(e)
        except TranslateError:
            return self.ev(e)

    def ev_path(self, name):
        r = self.lookup(name)
        if r is not None:
            v = r[0][r[1]]
            if v is None:
                raise TranslateError(f"use of uninitialised variable {name}")
            return v
        plain = re.sub(r"#\d+", "", name)
        if plain in ("true", "false"):
            return plain == "true"
        v = self.const_value(plain)
        if v is not None:
            return v
        segs = plain.split("::")
        if len(segs) >= 2 and segs[-2][:1].isupper():
            return EnumV("::".join(segs[-2:]))
        raise TranslateError(f"unknown identifier {plain}")

    def ev_bin(self, e):
        op = e[1]
        ctext = self.text(e)
        if op in ("&&", "||"):
            a = self.ev(e[2])
            if isinstance(a, bool):
                if (op == "&&" and not a) or (op == "||" and a):
                    return a
                return self.ev(e[3])
            raise TranslateError("run-time && / || not supported")
        a, b = self.ev(e[2]), self.ev(e[3])
        if isinstance(a, EnumV) or isinstance(b, EnumV):
            if op in ("==", "!=") and isinstance(a, EnumV) and isinstance(b, EnumV):
                return (a == b) == (op == "==")
            if isinstance(a, Opaque) and isinstance(b, EnumV) and f"{a.name} {op} {b.path}" in self.k.conds:
                return RtBool(self.k.conds[f"{a.name} {op} {b.path}"])     # run-time test of an opaque parameter (by VALUE, not by text)
            raise TranslateError(f"comparison `{ctext}` of a run-time enum is not declared in the kernel spec (conds)")
        if isinstance(a, Int) and isinstance(b, Int):
            if op in ("==", "!=", "<", ">", "<=", ">="):
                return {"==": a.v == b.v, "!=": a.v != b.v, "<": a.v < b.v, ">": a.v > b.v, "<=": a.v <= b.v, ">=": a.v >= b.v}[op]
            ty = a.ty or b.ty
            if a.ty and b.ty and a.ty != b.ty and op not in ("<<", ">>"):
                raise TranslateError(f"integer type mismatch {a.ty} vs {b.ty}")
            if op in ("<<", ">>"):
                ty = a.ty
                if ty and b.v >= kt.INT_TYPES.get(ty, 64):
                    raise TranslateError("shift amount ≥ width (the source would panic)")
                if b.v < 0:
                    raise TranslateError("negative shift amount")
                v = a.v << b.v if op == "<<" else a.v >> b.v
                if op == "<<" and ty:
                    lo, hi = INT_RANGE[ty]
                    v = (v - lo) % (hi - lo) + lo          # bits shifted out are lost, bit width-1 is the sign: two's complement
                return Int(v, ty)
            if op == "/" or op == "%":
                if b.v == 0:
                    raise TranslateError("division by zero")
                q = abs(a.v) // abs(b.v) * (1 if (a.v < 0) == (b.v < 0) else -1)      # Rust truncates toward zero
                return Int(q if op == "/" else a.v - q * b.v, ty)
            fn = {"+": lambda x, y: x + y, "-": lambda x, y: x - y, "*": lambda x, y: x * y,
                  "&": lambda x, y: x & y, "|": lambda x, y: x | y, "^": lambda x, y: x ^ y}.get(op)
            if fn is None:
                raise TranslateError(f"operator {op} on integers")
            v = fn(a.v, b.v)
            if ty is None and v < 0:
                raise TranslateError("negative compile-time index arithmetic (usize underflow in the source)")
            return Int(v, ty)          # range-checked by Int (checked arithmetic: overflow = panic in the source)
        if isinstance(a, Tup) and isinstance(b, Tup) and a.name and a.name == b.name:
            return self.ev_operator_impl(op, a, b)
        if isinstance(a, (Word, Int)) and isinstance(b, (Word, Int)):
            if op in ("^", "&", "|"):
                return self.word_bin(op, a, b)
            if op in ("<<", ">>"):
                if not isinstance(b, Int):
                    raise TranslateError("run-time shift amount")
                a = self.as_word(a)
                if not 0 <= b.v < WORD_BITS[a.ty]:
                    raise TranslateError("shift amount ≥ width (the source would panic)")
                return Word(f"{self.opd(a)} {'<<<' if op == '<<' else '>>>'} {b.v}", a.ty)
            if op in ("+", "-", "*"):
                raise TranslateError(f"checked `{op}` on run-time words is not supported (use of wrapping_* expected)")
        raise TranslateError(f"unsupported operands for {op}: {a!r}, {b!r}")

    TRAITS = {"+": ("Add", "add"), "-": ("Sub", "sub"), "^": ("BitXor", "bitxor"), "&": ("BitAnd", "bitand"), "|": ("BitOr", "bitor")}

    def ev_operator_impl(self, op, a, b):
        if op not in self.TRAITS:
            raise TranslateError(f"operator {op} on {a.name}")
        trait, fn = self.TRAITS[op]
        scope = r"impl\s+" + trait + r"\s+for\s+" + re.escape(a.name) + r"\b"
        r = self.src.find_fn(fn, scope, None)
        if r is None:
            raise TranslateError(f"`impl {trait} for {a.name}` not found in the kernel's source files")
        return self.inline(r, [a, b], f"{a.name}::{fn}")

    def ev_if(self, e):
        c = self.ev(e[1])
        if isinstance(c, bool):
            if c:
                return self.exec_block(e[2])
            return self.exec_block(e[3]) if e[3] is not None else UNIT
        if isinstance(c, RtBool):
            # run-time condition: execute both branches on copies of the environment and merge with `if … then … else …`
            base_frames = self.frames
            fa = copy.deepcopy(base_frames)
            fb = copy.deepcopy(base_frames)
            try:
                self.frames = fa
                va = self.exec_block(e[2])
                self.frames = fb
                vb = self.exec_block(e[3]) if e[3] is not None else UNIT
            except ReturnEx:
                # a `return` under a run-time condition: only one of the two paths leaves the function — not a straight-line kernel
                raise TranslateError("`return` inside a run-time `if` is not translated (it would become unconditional)")
            finally:
                self.frames = base_frames
            self.merged = set()
            for fr, xa, xb in zip(base_frames, fa, fb):
                for sc, sa, sb in zip(fr.scopes, xa.scopes, xb.scopes):
                    for name in sc:
                        sc[name] = self.merge(c, sc[name], sa[name], sb[name], name)
            return self.merge(c, None, va, vb, "r")
        raise TranslateError("unsupported `if` condition")

    def merge(self, c, orig, a, b, base):
        """value after a run-time `if`: `a` / `b` are the values in the two branch copies of the environment, `orig` the
        object of the live environment (arrays and structs are updated IN PLACE so that `&mut` aliases stay aliases)"""
        if isinstance(a, Arr) and isinstance(b, Arr) and len(a.items) == len(b.items):
            tgt = orig if isinstance(orig, Arr) and len(orig.items) == len(a.items) else Arr(list(a.items), a.ety)
            if id(tgt) in self.merged:
                return tgt
            self.merged.add(id(tgt))
            for i, (x, y) in enumerate(zip(a.items, b.items)):
                tgt.items[i] = self.merge(c, tgt.items[i] if tgt is orig else None, x, y, self.elem_name(base, i))
            return tgt
        if isinstance(a, Rec) and isinstance(b, Rec) and set(a.fields) == set(b.fields):
            tgt = orig if isinstance(orig, Rec) else Rec(a.fields)
            if id(tgt) in self.merged:
                return tgt
            self.merged.add(id(tgt))
            for k_ in a.fields:
                tgt.fields[k_] = self.merge(c, tgt.fields.get(k_) if tgt is orig else None, a.fields[k_], b.fields[k_], k_)
            return tgt
        if isinstance(a, Tup) and isinstance(b, Tup) and len(a.items) == len(b.items):
            return Tup(a.name, [self.merge(c, None, x, y, f"{base}_{i}") for i, (x, y) in enumerate(zip(a.items, b.items))])
        if a is None and b is None:
            return None
        if type(a) is type(b) and a == b:
            return a
        if isinstance(a, (Word, Int)) and isinstance(b, (Word, Int)):
            ty = a.ty if isinstance(a, Word) else (b.ty if isinstance(b, Word) else (a.ty or b.ty))
            wa, wb = self.as_word(a, ty), self.as_word(b, ty)
            return Word(self.emit(base, f"if {c.text} then {wa.text} else {wb.text}"), wa.ty, True)
        raise TranslateError(f"cannot merge the two branches of a run-time `if` for {base}")

    def ev_match(self, e):
        s = self.ev(e[1])
        for pats, body in e[2]:
            for p in pats:
                if p[0] == "wild":
                    return self.ev(body)
                if p[0] == "litpat" and isinstance(s, Int):
                    if p[1] == s.v:
                        return self.ev(body)
                    continue
                if p[0] == "pathpat" and isinstance(s, EnumV):
                    if "::".join(p[1].split("::")[-2:]) == s.path:
                        return self.ev(body)
                    continue
                raise TranslateError("unsupported `match` (scrutinee must be a compile-time integer or enum constant)")
        raise TranslateError("non-exhaustive match")

    def ev_bmacro(self, e):
        name, toks = e[1], e[2]
        if name in ("panic", "unreachable", "unimplemented"):
            raise TranslateError(f"the translated path reaches `{name}!`")
        if name in ("assert", "debug_assert", "assert_eq", "debug_assert_eq", "assert_ne"):
            p = P2(list(toks))
            args = []
            while p.peek()[0] != "eof":
                args.append(p.expr())
                if p.at(","):
                    p.eat()
            if name in ("assert", "debug_assert"):
                c = self.ev(args[0])
            else:
                a, b = self.ev(args[0]), self.ev(args[1])
                if not (isinstance(a, Int) and isinstance(b, Int)):
                    raise TranslateError(f"`{name}!` on run-time values")
                c = (a.v == b.v) != (name == "assert_ne")
            if c is True:
                return UNIT
            raise TranslateError(f"`{name}!({toks_text(toks)[:60]})` is not statically true")
        raise TranslateError(f"macro {name}! not supported")

    # ---- calls
    def ev_call(self, e):
        if e[1][0] != "path":
            raise TranslateError("call of a non-path")
        full = re.sub(r"#\d+", "", e[1][1])
        fname = full.split("::")[-1]
        if fname in self.k.prims:
            return self.k.prims[fname](self, e[2])
        n = self.src.has_tuple_struct(fname)
        if n is not None:
            if len(e[2]) != n:
                raise TranslateError(f"{fname}(…): arity")
            return Tup(fname, [self.ev(a) for a in e[2]])
        quals = [q for q in full.split("::")[:-1] if q not in ("self", "super", "crate")]
        if len(quals) > 1 or (quals and quals[0][:1].isupper()):
            raise TranslateError(f"call of `{full}`: only `module::function` paths are supported")
        r = self.src.find_fn(fname, None, self.fr.file, quals[0] if quals else None)
        if r is None:
            raise TranslateError(f"unknown function {full}")
        args = []
        for a in e[2]:
            if a[0] == "ref" and a[1]:
                args.append(("alias", self.arr_place(a[2])))
            else:
                args.append(self.ev(a))
        return self.inline(r, args, fname)

    def parse_sig(self, hdr):
        toks = lex(hdr)
        i = 0
        while not isop(toks[i], "("):
            if isop(toks[i], "<"):
                raise TranslateError("generic functions are not supported")
            i += 1
        j = match_close(toks, i)
        p = P2(toks[i + 1:j])
        params = []
        while p.peek()[0] != "eof":
            if p.atid("self") or (p.atid("mut") and p.peek(1)[1] == "self"):
                if p.atid("mut"):
                    p.eat()
                p.eat(); params.append((("var", "self"), "Self"))
            elif p.at("&"):
                p.eat()
                if p.atid("mut"):
                    p.eat()
                if not p.atid("self"):
                    raise TranslateError("unsupported parameter pattern `&…`")
                p.eat(); params.append((("var", "self"), "Self"))
            else:
                pat = p.pattern(); p.eat(":"); ty = p.ty()
                params.append((pat, ty))
            if p.at(","):
                p.eat()
        return params

    def inline(self, found, args, label):
        f, hdr, body = found
        self.depth += 1
        if self.depth > 40:
            raise TranslateError("call depth limit (recursion?)")
        params = self.parse_sig(hdr)
        if len(params) != len(args):
            raise TranslateError(f"{label}: {len(args)} arguments for {len(params)} parameters")
        toks = Expander(self.src, f, [p_[1] for p_, _ in params if p_[0] == "var"]).expand(lex(body))
        stmts = parse_block(toks)
        fr = Frame(f)
        for (pat, ty), a in zip(params, args):
            if isinstance(a, tuple) and a[0] == "alias":
                if pat[0] != "var":
                    raise TranslateError("pattern parameter with &mut argument")
                fr.scopes[0][pat[1]] = a[1]
                continue
            a = self.coerce(vcopy(a), ty)
            pname = pat[1] if pat[0] == "var" else label
            a = self.atom(a, pname)
            self.frames.append(fr)
            try:
                self.bind_pattern(pat, a)
            finally:
                self.frames.pop()
        self.frames.append(fr)
        try:
            try:
                v = self.exec_stmts(stmts)
            except ReturnEx as r:
                v = r.val
        finally:
            self.frames.pop()
            self.depth -= 1
        return v

    def ev_method(self, e):
        recv_e, name, args = e[1], e[2], e[3]
        if name in ("get_unchecked", "get_unchecked_mut") and len(args) == 1:
            return self.ev(("index", recv_e, args[0]))
        if name == "copy_from_slice" and len(args) == 1:
            arr, lo, hi = self.slice_place(recv_e)
            srcv = self.ev(args[0])
            if not isinstance(srcv, Arr):
                raise TranslateError("copy_from_slice: source is not an array")
            if len(srcv.items) != hi - lo:
                raise TranslateError(f"copy_from_slice: lengths {hi - lo} and {len(srcv.items)} differ (the source would panic)")
            for i, x in enumerate(srcv.items):
                arr.items[lo + i] = self.match_shape(arr.items[lo + i], vcopy(x), "element")
            return UNIT
        recv = self.ev(recv_e)
        if name == "len" and not args and isinstance(recv, Arr):
            return Int(len(recv.items), "usize")
        if name == "clone" and not args:
            return vcopy(recv)
        if name in ("wrapping_add", "wrapping_sub", "wrapping_mul") and len(args) == 1:
            b = self.ev(args[0])
            if isinstance(recv, Int) and isinstance(b, Int) and not (recv.ty in WORD_BITS or b.ty in WORD_BITS):
                ty = recv.ty or b.ty
                if ty is None:
                    raise TranslateError("wrapping op on untyped integers")
                lo, hi = INT_RANGE[ty]
                v = {"wrapping_add": recv.v + b.v, "wrapping_sub": recv.v - b.v, "wrapping_mul": recv.v * b.v}[name]
                return Int((v - lo) % (hi - lo) + lo, ty)
            return self.word_bin({"wrapping_add": "wadd", "wrapping_sub": "wsub", "wrapping_mul": "wmul"}[name], recv, b)
        if name in ("rotate_left", "rotate_right") and len(args) == 1:
            n = self.ev(args[0])
            if not isinstance(n, Int):
                raise TranslateError("run-time rotation amount")
            x = self.as_word(recv)
            return self.render_method(name, x, n.v)
        raise TranslateError(f"unsupported method .{name}()")

    # ---- statements
    def bind_pattern(self, pat, val):
        k = pat[0]
        if k == "wild":
            return
        if k == "var":
            self.declare(pat[1], val)
            return
        if k == "tuple":
            items = val.items if isinstance(val, (Tup, Arr)) else None
            if items is None or len(items) != len(pat[1]):
                raise TranslateError("tuple pattern arity")
            for p, v in zip(pat[1], items):
                self.bind_pattern(p, v)
            return
        if k == "tstruct":
            if not isinstance(val, Tup) or val.name != pat[1].split("::")[-1] or len(val.items) != len(pat[2]):
                raise TranslateError(f"pattern {pat[1]}(…) does not match the value")
            for p, v in zip(pat[2], val.items):
                self.bind_pattern(p, v)
            return
        raise TranslateError(f"unsupported pattern {k}")

    def exec_block(self, stmts):
        self.fr.scopes.append({})
        try:
            return self.exec_stmts(stmts)
        finally:
            self.fr.scopes.pop()

    def cfg_true(self, toks):
        """evaluate a cfg predicate `( … )` with the spec's table"""
        def pred(ts):
            ts = list(ts)
            if ts and ts[0][0] == "id" and ts[0][1] in ("all", "any", "not") and len(ts) > 1 and isop(ts[1], "("):
                j = match_close(ts, 1)
                if j != len(ts) - 1:
                    raise TranslateError("cfg: trailing tokens")
                parts, cur, d = [], [], 0
                for t in ts[2:j]:
                    if t[0] == "op" and t[1] in OPEN:
                        d += 1
                    if t[0] == "op" and t[1] in CLOSE:
                        d -= 1
                    if isop(t, ",") and d == 0:
                        parts.append(cur); cur = []
                    else:
                        cur.append(t)
                if cur:
                    parts.append(cur)
                vals = [pred(p) for p in parts]
                return {"all": all(vals), "any": any(vals), "not": not vals[0]}[ts[0][1]]
            key = toks_text(ts)
            if key not in self.k.cfg:
                raise TranslateError(f"cfg predicate `{key}` is not declared in the kernel spec")
            return self.k.cfg[key]
        if not (toks and isop(toks[0], "(")):
            raise TranslateError("cfg: syntax")
        j = match_close(toks, 0)
        return pred(toks[1:j])

    def exec_stmts(self, stmts):
        val = UNIT
        for idx, s in enumerate(stmts):
            self.steps += 1
            kind = s[0]
            val = UNIT
            if kind == "cfg":
                if s[2] is None or not self.cfg_true(s[1]):
                    continue
                s = s[2]
                kind = s[0]
            if kind == "let":
                pat, ty, init = s[1], s[2], s[3]
                if init is None:
                    if pat[0] != "var":
                        raise TranslateError("uninitialised pattern")
                    self.declare(pat[1], None)
                    continue
                if init[0] == "ref" and init[1]:
                    v = self.arr_place(init[2])              # `let r = &mut a;` aliases an array; `&mut word` is refused (raises)
                else:
                    v = self.coerce(vcopy(self.ev(init, ty)), ty)
                base = pat[1] if pat[0] == "var" else "t"
                if not (init[0] == "ref" and init[1]):
                    v = self.atom(v, base) if pat[0] == "var" else self.atom_pattern(pat, v)
                self.bind_pattern(pat, v)
            elif kind == "assign":
                lhs, op, rhs = s[1], s[2], s[3]
                r0 = rhs
                while r0[0] == "paren":
                    r0 = r0[1]
                if r0[0] == "ref" and r0[1]:
                    raise TranslateError("`p = &mut <place>` re-binds a mutable alias by assignment (not translated)")
                if op == "=":
                    v = self.ev(rhs)
                else:
                    v = self.ev(("bin", op[:-1], lhs, rhs))
                self.assign(lhs, v)
            elif kind == "expr":
                self.ev(s[1])
            elif kind == "ret":
                val = self.ev(s[1])
                if idx != len(stmts) - 1:
                    raise TranslateError("value expression in the middle of a block")
            elif kind == "return":
                raise ReturnEx(self.ev(s[1]) if s[1] is not None else UNIT)
            elif kind == "fnitem":
                # the item is translated when it is called (Sources.find_fn demands ONE definition of that name in the file); a nested
                # fn named like a primitive of the spec would shadow it for this body: refused
                if s[1] in self.k.prims:
                    raise TranslateError(f"nested `fn {s[1]}` shadows the primitive `{s[1]}` the kernel spec declares")
                if self.src.has_tuple_struct(s[1]) is not None:
                    raise TranslateError(f"nested `fn {s[1]}` shadows a tuple-struct constructor")
            elif kind == "for":
                pat, rng, body = s[1], s[2], s[3]
                if rng[0] == "paren":
                    rng = rng[1]
                if rng[0] != "range" or rng[1] is None or rng[2] is None:
                    raise TranslateError("`for` over something that is not a constant range a..b")
                lo, hi = self.ev(rng[1]), self.ev(rng[2])
                if not (isinstance(lo, Int) and isinstance(hi, Int)):
                    raise TranslateError("`for` bounds are not compile-time integers")
                hiv = hi.v + 1 if (len(rng) > 3 and rng[3] == "..=") else hi.v
                ty = lo.ty or hi.ty or "usize"
                for i in range(lo.v, hiv):
                    self.fr.scopes.append({})
                    try:
                        self.bind_pattern(pat, Int(i, ty))
                        self.exec_stmts(body)
                    finally:
                        self.fr.scopes.pop()
            elif kind == "while":
                n = 0
                while True:
                    c = self.ev(s[1])
                    if not isinstance(c, bool):
                        raise TranslateError("`while` condition is not compile-time")
                    if not c:
                        break
                    n += 1
                    if n > 100000:
                        raise TranslateError("`while` does not terminate (100000 iterations)")
                    self.exec_block(s[2])
            else:
                raise TranslateError(f"unsupported statement {kind}")
        return val

    def atom_pattern(self, pat, v):
        """name the components of a destructured value after the pattern variables"""
        if pat[0] == "var":
            return self.atom(v, pat[1])
        if pat[0] == "wild":
            return v
        if pat[0] in ("tuple", "tstruct") and isinstance(v, (Tup, Arr)):
            subs = pat[1] if pat[0] == "tuple" else pat[2]
            if len(subs) != len(v.items):
                raise TranslateError("pattern arity")
            items = [self.atom_pattern(p, x) for p, x in zip(subs, v.items)]
            return Tup(v.name, items) if isinstance(v, Tup) else Arr(items, v.ety)
        return v


# ----------------------------------------------------------------------------------------------- entry point

def translate(k: WKernel):
    src = Sources(k.files)
    for f in k.files:
        # names are resolved by spelling: an import that RENAMES a name some code of the file uses changes what that spelling means
        text = src.text[f]
        body_text = re.sub(r"\buse\s+[^;]+;", "", text)
        kt.refuse_renaming_uses(text, set(re.findall(r"[A-Za-z_]\w*", body_text)), f)
    r = src.find_fn(k.fn, k.scope, k.file)
    if r is None or r[0] != k.file:
        raise TranslateError(f"fn {k.fn} not found in {k.file}")
    f, hdr, body = r
    ex = Ex(k, src)
    params = ex.parse_sig(hdr)
    names = []
    for pat, ty in params:
        if pat[0] != "var":
            raise TranslateError("pattern parameter in kernel signature")
        names.append(pat[1])
    if set(names) != set(k.args):
        raise TranslateError(f"fn {k.fn}: parameters {names} differ from the kernel spec {sorted(k.args)}")
    fr = Frame(f)
    for n in names:
        fr.scopes[0][n] = vcopy(k.args[n])
    toks = Expander(src, f, names).expand(lex(body))
    stmts = parse_block(toks)
    if k.until is not None:
        cut = [i for i, st in enumerate(stmts) if k.until(st)]
        if not cut:
            raise TranslateError(f"fn {k.fn}: the statement that ends the translated prefix was not found")
        stmts = stmts[:cut[0]]
    ex.frames.append(fr)
    try:
        ex.ret = ex.exec_stmts(stmts)
    except ReturnEx as rr:
        ex.ret = rr.val
    res = k.result(ex)
    ex.frames.pop()
    doc = f"/-- {k.doc} — GENERATED from `fn {k.fn}` in {k.file} -/\n"
    return ("set_option maxRecDepth 1000000 in\n" + doc + (k.attrs + "\n" if k.attrs else "")
            + f"def {k.lean_name} {k.params} : {k.ret_type} :=\n" + "\n".join(ex.lines) + ("\n" if ex.lines else "")
            + f"  {res}\n")
