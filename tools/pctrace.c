/* pctrace — single-step PC tracer for C19.
 *
 *   pctrace <begin_off_hex> <end_off_hex> [--dump FILE] -- <prog> <args...>
 *
 * Runs <prog> under ptrace with ASLR disabled, lets it run to the function at file offset
 * <begin_off> (symbol cx_marker_begin), then single-steps until the PC reaches <end_off>
 * (cx_marker_end), folding every PC (relative to the load base) into an FNV-1a hash.
 * Prints:  steps=<n> hash=<16 hex> exit=<status>
 * With --dump the PC sequence itself is written (binary u64 little-endian) for diffing.
 * stdin/stdout of the traced program are inherited.
 */
#define _GNU_SOURCE
#include <errno.h>
#include <fcntl.h>
#include <inttypes.h>
#include <stdint.h>
#include <stdio.h>
#include <stdlib.h>
#include <string.h>
#include <sys/personality.h>
#include <sys/ptrace.h>
#include <sys/types.h>
#include <sys/user.h>
#include <sys/wait.h>
#include <unistd.h>

static uint64_t load_base(pid_t pid, const char *prog) {
    char path[64], line[512], real[4096];
    snprintf(path, sizeof path, "/proc/%d/maps", pid);
    if (!realpath(prog, real)) strncpy(real, prog, sizeof real - 1);
    FILE *f = fopen(path, "r");
    if (!f) { perror("maps"); exit(3); }
    uint64_t base = 0;
    while (fgets(line, sizeof line, f)) {
        if (strstr(line, real)) { base = strtoull(line, NULL, 16); break; }
    }
    fclose(f);
    return base;
}

int main(int argc, char **argv) {
    if (argc < 5) { fprintf(stderr, "usage\n"); return 2; }
    uint64_t boff = strtoull(argv[1], NULL, 16), eoff = strtoull(argv[2], NULL, 16);
    int i = 3; const char *dump = NULL;
    if (!strcmp(argv[i], "--dump")) { dump = argv[i + 1]; i += 2; }
    if (strcmp(argv[i], "--")) { fprintf(stderr, "expected --\n"); return 2; }
    i++;
    pid_t pid = fork();
    if (pid == 0) {
        personality(ADDR_NO_RANDOMIZE);
        ptrace(PTRACE_TRACEME, 0, 0, 0);
        execv(argv[i], argv + i);
        perror("execv"); _exit(127);
    }
    int st;
    waitpid(pid, &st, 0);                       /* stopped at exec */
    if (!WIFSTOPPED(st)) { fprintf(stderr, "child did not stop\n"); return 3; }
    uint64_t base = load_base(pid, argv[i]);
    uint64_t baddr = base + boff, eaddr = base + eoff;
    /* breakpoint at marker_begin */
    errno = 0;
    long orig = ptrace(PTRACE_PEEKTEXT, pid, (void *)baddr, 0);
    if (errno) { perror("peek"); return 3; }
    long patched = (orig & ~0xffL) | 0xcc;
    ptrace(PTRACE_POKETEXT, pid, (void *)baddr, (void *)patched);
    for (;;) {
        ptrace(PTRACE_CONT, pid, 0, 0);
        waitpid(pid, &st, 0);
        if (WIFEXITED(st) || WIFSIGNALED(st)) { printf("steps=0 hash=0 exit=early\n"); return 1; }
        if (WIFSTOPPED(st) && WSTOPSIG(st) == SIGTRAP) break;
        /* forward other signals */
    }
    struct user_regs_struct regs;
    ptrace(PTRACE_GETREGS, pid, 0, &regs);
    regs.rip -= 1;
    ptrace(PTRACE_SETREGS, pid, 0, &regs);
    ptrace(PTRACE_POKETEXT, pid, (void *)baddr, (void *)orig);
    FILE *df = dump ? fopen(dump, "wb") : NULL;
    uint64_t h = 1469598103934665603ULL, steps = 0;
    for (;;) {
        if (ptrace(PTRACE_SINGLESTEP, pid, 0, 0) < 0) { perror("step"); break; }
        waitpid(pid, &st, 0);
        if (WIFEXITED(st) || WIFSIGNALED(st)) { printf("steps=%" PRIu64 " hash=%016" PRIx64 " exit=inside\n", steps, h); return 1; }
        ptrace(PTRACE_GETREGS, pid, 0, &regs);
        uint64_t pc = regs.rip;
        if (pc == eaddr) break;
        uint64_t rel = pc - base;
        for (int k = 0; k < 8; k++) { h ^= (rel >> (8 * k)) & 0xff; h *= 1099511628211ULL; }
        if (df) fwrite(&rel, 8, 1, df);
        steps++;
    }
    if (df) fclose(df);
    ptrace(PTRACE_CONT, pid, 0, 0);
    waitpid(pid, &st, 0);
    printf("steps=%" PRIu64 " hash=%016" PRIx64 " exit=%d\n", steps, h, WIFEXITED(st) ? WEXITSTATUS(st) : -1);
    return 0;
}
