#!/usr/bin/env python3
"""Kernel translator: straight-line integer Rust functions of /repo/src  ->  Lean definitions, regenerated on
every run (called by extract_tables.regenerate()).  This is the *translator tie* for the limb-arithmetic kernels,
where sampling is weakest (rare carries): the generated definition `<name>_src` is what the source says NOW, and a
theorem in lean/CxVerif/Props/…/KernelTie*.lean proves (by `rfl`-style unfolding, re-checked by the kernel on
every build) that it equals the hand-written Impl definition the big theorems are about.  A semantic change of the
Rust kernel therefore breaks a proof obligation even if no sampled input reaches it.

Supported Rust subset (enough for poly1305 block/finish, fe64 add/sub/neg/mul/square/…, scalar64 kernels):
  let [mut] x [: T] [= e];   let Fe([a, mut b, …]) = *self;   x = e;   x op= e;   self.h[i] = e;   trailing expr
  expressions: integer literals, paths/consts, + - * & | ^ << >> ! unary-, `as T`, calls f(a,b), methods
  .wrapping_add/.wrapping_sub/.wrapping_mul/.wrapping_neg, indexing a[i], a[i..j], &, *, field access, tuples/struct
  constructors `Fe([..])`, `if c { a } else { b }` as an expression on simple conditions.
Anything else raises TranslateError -> reported as a broken extraction (the tie cannot be established).  In particular (audit 3):
  * `return` has its own AST node ("return", e); in these straight-line kernels a `return` or a value expression that is not the
    LAST statement, and every `if` / `match` / block STATEMENT, is refused (only the value-`if` above is translated); a trailing
    expression the spec's result function does not look at must be a plain value (no call of an unknown function, no block);
  * `#[cfg(..)]` / `#[cfg_attr(..)]` on a statement is refused; other attributes (`#[inline]`, `#[rustfmt::skip]`) are skipped;
  * the function is looked up INSIDE the braces of the item the `scope` regex matches, must be unique there, and item-level
    `#[cfg]`s are evaluated against the table of `cfg_atom` (x86_64 + SSE2, `cryptoxide_verif`, default cargo features, not test);
  * a nested `fn` item is accepted only if a kernel of the same spec module translates that very item (check_nested_fn);
  * `let x = &mut <place>` / `p = &mut <place>` (a mutable alias) is refused;
  * names are resolved by spelling: a renaming import (`use a::b as c`) of a name the body mentions is refused, and a spec may pin
    the import path of its helpers (`uses=`).
What is NOT checked here: that a helper named in `calls` (e.g. `mul128`, `shl128`) is the function of that name the Rust call reaches
when it is neither imported by a `use` nor nested in the body (it is then the module-level item of the file; its own tie is the
spec's business), and trait dispatch.

Two backends (chosen per kernel so that the output has the *same shape* as the hand model):
  "natlet": every value a Nat, checked + and * are the mathematical operations (no-overflow is a separate
            theorem of the unit), truncations explicit: `as uN` narrowing = `% 2 ^ N`, `<<` = `(a <<< k) % 2 ^ N`,
            wrapping_add = `(a + b) % 2 ^ N`, wrapping_sub = `(a + (2 ^ N - b)) % 2 ^ N`, `!a` = `a ^^^ (2^N-1)`.
  "optchk": three-address code in the Option monad: checked `+ - *` of width N become `← addN a b` / `subN` /
            `mulN` (left-to-right, operands first), other operators are pure lets.
"""
import os
import re

REPO = os.environ.get("CX_REPO", "/repo")


class TranslateError(Exception):
    pass


# ----------------------------------------------------------------------------------------------- lexer

TOKEN = re.compile(r"\s*(?:(0x[0-9a-fA-F_]+|0b[01_]+|[0-9][0-9_]*)((?:_?[ui](?:8|16|32|64|128|size))?)"
                   r"|([A-Za-z_][A-Za-z0-9_]*)|(\.\.=|\.\.|<<=|>>=|<<|>>|\+=|-=|\*=|&=|\|=|\^=|==|!=|<=|>=|&&|\|\||->|::|[-+*/%&|^!=<>()\[\]{};:,.#]))")
_STRLIT = re.compile(r'\s*("(?:[^"\\\n]|\\.)*")')
INT_TYPES = {"u8": 8, "u16": 16, "u32": 32, "u64": 64, "u128": 128, "usize": 64, "i8": 8, "i16": 16, "i32": 32, "i64": 64}


def strip_comments(src):
    src = re.sub(r"/\*.*?\*/", " ", src, flags=re.S)
    return re.sub(r"//[^\n]*", "", src)


def lex(src):
    out, i = [], 0
    src = strip_comments(src)
    while i < len(src):
        if src[i:].strip() == "":
            break
        ms = _STRLIT.match(src, i)
        if ms:
            # an ordinary string literal (assert!/panic! message): its own token kind, which no expression parser accepts —
            # it is harmless only where a whole macro argument is ignored (the message arguments of assert!/assert_eq!/panic!)
            out.append(("str", ms.group(1), None))
            i = ms.end()
            continue
        m = TOKEN.match(src, i)
        if not m:
            raise TranslateError(f"cannot lex near {src[i:i+30]!r}")
        if m.group(1) is not None:
            suf = m.group(2).lstrip("_") or None
            out.append(("int", int(m.group(1).replace("_", ""), 0), suf))
        elif m.group(3) is not None:
            out.append(("id", m.group(3), None))
        else:
            out.append(("op", m.group(4), None))
        i = m.end()
    return out


# ----------------------------------------------------------------------------------------------- source structure
#
# Item lookup is by STRUCTURE, not by "first textual match": the scope of a lookup is a bounded region (the braces of the impl /
# fn / mod the scope regex names), a match must be unique among the items that are COMPILED under the configuration below, and a
# `#[cfg(..)]` on the item or on any enclosing item is evaluated against that explicit table.

def repo():
    """the crate under translation (CX_REPO is read at call time so that tools can point the translators at a scratch copy)"""
    return os.environ.get("CX_REPO", REPO)


_CHARLIT = re.compile(r"'(?:\\.[^']*|[^\\'])'")


def scan_braces(text):
    """all `{ … }` groups of comment-stripped Rust text: list of (open index, close index, index of the parent group or -1),
    in order of the opening brace; braces inside string / char literals are ignored"""
    groups, stack, i, n = [], [], 0, len(text)
    while i < n:
        c = text[i]
        if c == '"':
            i += 1
            while i < n and text[i] != '"':
                i += 2 if text[i] == "\\" else 1
        elif c == "'":
            m = _CHARLIT.match(text, i)
            if m:
                i = m.end() - 1
        elif c == "{":
            groups.append([i, None, stack[-1] if stack else -1])
            stack.append(len(groups) - 1)
        elif c == "}":
            if not stack:
                raise TranslateError("unbalanced `}` in source")
            groups[stack.pop()][1] = i
        i += 1
    if stack:
        raise TranslateError("unbalanced `{` in source")
    return [tuple(g) for g in groups]


def item_header(text, pos):
    """the text of the item header that ends at `pos` (attributes, visibility, qualifiers): back to the previous `;` `{` `}`"""
    depth, j = 0, pos - 1
    while j >= 0:
        c = text[j]
        if c in ")]":
            depth += 1
        elif c in "([":
            depth -= 1
        elif depth <= 0 and c in ";{}":
            break
        j -= 1
    return text[j + 1:pos]


def attr_list(header):
    """[(name, argument text)] of the `#[name(args)]` / `#![name(args)]` attributes in a header text"""
    out, i = [], 0
    while True:
        m = re.compile(r"#\s*!?\s*\[").search(header, i)
        if not m:
            return out
        d, j = 1, m.end()
        while j < len(header) and d:
            d += (header[j] == "[") - (header[j] == "]")
            j += 1
        inner = header[m.end():j - 1].strip()
        nm = re.match(r"[\w:]+", inner)
        out.append((nm.group(0) if nm else "", inner[nm.end():].strip() if nm else inner))
        i = j


_FEATURES = {}


def cargo_features():
    """(enabled default features incl. transitive ones, all declared features) of the crate's Cargo.toml; (None, None) if unreadable"""
    root = repo()
    if root not in _FEATURES:
        try:
            txt = open(os.path.join(root, "Cargo.toml")).read()
        except OSError:
            _FEATURES[root] = (None, None)
            return _FEATURES[root]
        m = re.search(r"^\[features\]\s*$(.*?)(?=^\[|\Z)", txt, re.S | re.M)
        table = {}
        for fm in re.finditer(r"^\s*([\w-]+)\s*=\s*\[(.*?)\]", m.group(1) if m else "", re.S | re.M):
            table[fm.group(1)] = re.findall(r'"([^"]+)"', fm.group(2))
        on, todo = set(), list(table.get("default", []))
        while todo:
            f = todo.pop()
            if f not in on:
                on.add(f)
                todo += table.get(f, [])
        _FEATURES[root] = (on, set(table) - {"default"})
    return _FEATURES[root]


def cfg_atom(key, val):
    """truth of one cfg predicate under the configuration the translators model: target x86_64 with SSE2 (the baseline of that
    target), little endian, 64-bit pointers, `--cfg cryptoxide_verif`, the crate's DEFAULT cargo features, not `test`.
    None = not decided by this table (another target feature, the build profile, an undeclared feature, an unknown key)"""
    if val is None:
        return {"test": False, "cryptoxide_verif": True, "unix": None, "windows": None, "debug_assertions": None}.get(key)
    if key == "feature":
        on, declared = cargo_features()
        if on is None:
            return None
        return True if val in on else (False if val in declared else None)
    if key == "target_arch":
        return val == "x86_64"
    if key == "target_feature":
        return True if val == "sse2" else None
    if key == "target_pointer_width":
        return val == "64"
    if key == "target_endian":
        return val == "little"
    return None


def eval_cfg(pred):
    """three-valued evaluation (True / False / None = unknown) of the predicate text inside `cfg( … )`"""
    pred = pred.strip()
    m = re.fullmatch(r"(all|any|not)\s*\((.*)\)", pred, re.S)
    if m:
        parts, cur, d, instr = [], "", 0, False
        for ch in m.group(2):
            if ch == '"':
                instr = not instr
            if not instr:
                d += (ch == "(") - (ch == ")")
            if ch == "," and d == 0 and not instr:
                parts.append(cur); cur = ""
            else:
                cur += ch
        if cur.strip():
            parts.append(cur)
        vals = [eval_cfg(x) for x in parts]
        if m.group(1) == "not":
            if len(vals) != 1:
                raise TranslateError(f"cfg: not() of {len(vals)} predicates")
            return None if vals[0] is None else not vals[0]
        if m.group(1) == "all":
            return False if False in vals else (None if None in vals else True)
        return True if True in vals else (None if None in vals else False)
    m = re.fullmatch(r"(\w+)\s*(?:=\s*\"([^\"]*)\")?", pred)
    if not m:
        raise TranslateError(f"cfg: cannot parse predicate `{pred}`")
    return cfg_atom(m.group(1), m.group(2))


def header_cfg(header):
    """conjunction of the `#[cfg(..)]` attributes of an item header (three-valued); `cfg_attr` that could add a cfg is refused"""
    val = True
    for name, args in attr_list(header):
        if name == "cfg_attr" and re.search(r"\bcfg\s*\(", args):
            raise TranslateError("`cfg_attr(.., cfg(..))` on an item is outside the translated subset")
        if name != "cfg":
            continue
        if not (args.startswith("(") and args.endswith(")")):
            raise TranslateError("cfg attribute: syntax")
        v = eval_cfg(args[1:-1])
        val = False if (v is False or val is False) else (None if (v is None or val is None) else True)
    return val


def compiled_at(text, pos, groups=None):
    """is the item whose keyword is at `pos` compiled?  (its own `#[cfg]`s and those of every enclosing item; three-valued)"""
    groups = scan_braces(text) if groups is None else groups
    val = header_cfg(item_header(text, pos))
    for o, c, _ in groups:
        if o < pos < c:
            v = header_cfg(item_header(text, o))
            val = False if (v is False or val is False) else (None if (v is None or val is None) else True)
    return val


def depth_at(groups, pos, lo=-1):
    return sum(1 for o, c, _ in groups if o < pos < c and o > lo)


def fn_candidates(text, fn, lo=0, hi=None, groups=None):
    """every `fn <fn> … { body }` whose keyword lies in text[lo:hi]: (header start, body open + 1, body end, keyword position)"""
    hi = len(text) if hi is None else hi
    out = []
    for m in re.compile(r"\bfn\s+" + re.escape(fn) + r"\b").finditer(text, lo, hi):
        # scan the signature: the body opens at the first `{` outside ( ) [ ]; a `;` outside them = declaration only
        depth, j = 0, m.end()
        while j < len(text):
            c = text[j]
            if c in "([":
                depth += 1
            elif c in ")]":
                depth -= 1
            elif c == "{" and depth == 0:
                end = next((c2 for o2, c2, _ in (groups or scan_braces(text)) if o2 == j), None)
                if end is None:
                    raise TranslateError(f"fn {fn}: unbalanced body")
                out.append((m.start(), j + 1, end, m.start()))
                break
            elif c == ";" and depth == 0:
                break
            j += 1
    return out


def select_unique(text, cands, groups, what, lo=-1):
    """among candidate items (tuples ending with the keyword position): drop those not compiled, prefer the shallowest nesting
    level (an item directly in the scope shadows nothing that is nested deeper), demand exactly one"""
    live = []
    for c in cands:
        v = compiled_at(text, c[-1], groups)
        if v is not False:
            live.append((c, v))
    if not live:
        return None
    d0 = min(depth_at(groups, c[-1], lo) for c, _ in live)
    top = [(c, v) for c, v in live if depth_at(groups, c[-1], lo) == d0]
    if len(top) > 1:
        raise TranslateError(f"{what} is ambiguous: {len(top)} definitions that may be compiled in the same scope")
    if top[0][1] is None and len(cands) > 1:
        raise TranslateError(f"{what}: {len(cands)} definitions and the `#[cfg]` of the candidate is not decided by the translators' "
                             "configuration table (kernel_translate.cfg_atom)")
    return top[0][0]


def scope_regions(text, scope, groups):
    """the brace groups (open, close) opened by the items the scope regex matches (impl / fn / mod headers), compiled ones only"""
    out = []
    for m in re.finditer(scope, text):
        depth, j = 0, m.start()
        while j < len(text):
            c = text[j]
            if c in "([":
                depth += 1
            elif c in ")]":
                depth -= 1
            elif c == "{" and depth == 0:
                break
            elif c == ";" and depth == 0 and j >= m.end():
                j = None
                break
            j += 1
        if j is None or j >= len(text):
            continue
        close = next(c2 for o2, c2, _ in groups if o2 == j)
        kw = m.start()
        if compiled_at(text, kw, groups) is False:
            continue
        if (j, close) not in out:
            out.append((j, close))
    return out


def find_fn(src, fn, scope=None):
    """(header, body text) of `fn <fn>`; `scope` (a regex matching the header of an impl / fn / mod) BOUNDS the search to the braces
    of that item.  The definition must be unique among the compiled candidates (see select_unique); items under a false
    `#[cfg(..)]` (e.g. `#[cfg(test)] mod tests`, `#[cfg(not(cryptoxide_verif))] impl …`) are never chosen."""
    text = strip_comments(src)
    groups = scan_braces(text)
    if scope:
        regions = scope_regions(text, scope, groups)
        if not regions:
            raise TranslateError(f"scope {scope!r} not found (or not compiled)")
    else:
        regions = [(-1, len(text))]
    found = []
    for lo, hi in regions:
        cands = fn_candidates(text, fn, lo + 1, hi, groups)
        pick = select_unique(text, cands, groups, f"fn {fn}" + (f" in scope {scope!r}" if scope else ""), lo)
        if pick is not None and pick not in found:
            found.append(pick)
    if not found:
        raise TranslateError(f"fn {fn} not found" + (f" in scope {scope!r}" if scope else ""))
    if len(found) > 1:
        raise TranslateError(f"fn {fn} is ambiguous: the scope {scope!r} matches {len(found)} items that define it")
    h0, b0, b1, _ = found[0]
    return text[h0:b0], text[b0:b1]


# ---- `use` declarations

def use_decls(text):
    """every compiled `use …;` of comment-stripped text as leaves (position, full path, bound name | None for a glob, renamed?)"""
    groups = scan_braces(text)
    out = []

    def leaves(prefix, tree, pos):
        tree = tree.strip()
        if not tree:
            return
        m = re.match(r"((?:[\w]+\s*::\s*)*)\{", tree)
        if m and tree.endswith("}"):
            pre = prefix + [x.strip() for x in m.group(1).split("::") if x.strip()]
            inner, parts, cur, d = tree[m.end():-1], [], "", 0
            for ch in inner:
                d += (ch == "{") - (ch == "}")
                if ch == "," and d == 0:
                    parts.append(cur); cur = ""
                else:
                    cur += ch
            parts.append(cur)
            for part in parts:
                leaves(pre, part, pos)
            return
        m = re.fullmatch(r"([\w:\s*]+?)(?:\s+as\s+(\w+))?", tree)
        if not m:
            raise TranslateError(f"cannot parse `use` tree `{tree[:60]}`")
        segs = prefix + [x.strip() for x in m.group(1).split("::") if x.strip()]
        if segs[-1] == "*":
            out.append((pos, "::".join(segs), None, False))
            return
        if segs[-1] == "self":
            segs = segs[:-1]
        alias = m.group(2)
        out.append((pos, "::".join(segs), alias or segs[-1], alias is not None and alias != segs[-1]))
    for m in re.finditer(r"\buse\s+([^;]+);", text):
        if compiled_at(text, m.start(), groups) is False:
            continue
        leaves([], m.group(1), m.start())
    return out


def refuse_renaming_uses(text, names, what):
    """a `use a::b as c;` changes what the NAME c (or b) means: refused when the translated code mentions either name"""
    for pos, path, name, renamed in use_decls(text):
        if renamed and name != "_" and (name in names or path.split("::")[-1] in names):
            raise TranslateError(f"{what}: the import `use {path} as {name}` renames a name the translated code uses "
                                 "(names are resolved by spelling; renaming imports are outside the translated subset)")


def check_expected_uses(text, expected, what, allow_globs=None):
    """token-check of the imports against the list the spec expects: `expected` maps a bound name to the full path it must be
    imported from.  Every expected name must be imported explicitly, from that path and nowhere else; renaming imports are refused;
    with `allow_globs` (a list of paths) every other glob import is refused too (None: globs are not looked at — an explicit import
    takes precedence over a glob)"""
    seen = set()
    for pos, path, name, renamed in use_decls(text):
        if name is None:
            if allow_globs is not None and path not in allow_globs:
                raise TranslateError(f"{what}: glob import `use {path};` is not in the list of expected imports")
            continue
        if renamed and name != "_":
            if name in expected or path.split("::")[-1] in expected or allow_globs is not None:
                raise TranslateError(f"{what}: renaming import `use {path} as {name}`")
            continue
        if name in expected:
            if path not in ([expected[name]] if isinstance(expected[name], str) else list(expected[name])):
                raise TranslateError(f"{what}: `{name}` is imported from `{path}`, the spec expects `{expected[name]}`")
            seen.add(name)
    missing = sorted(set(expected) - seen)
    if missing:
        raise TranslateError(f"{what}: the expected import of `{missing[0]}` (from `{expected[missing[0]]}`) is missing")


def sibling_kernels(k):
    """the kernel specs registered next to `k` (same tools/kernels module)"""
    import sys
    for mod in list(sys.modules.values()):
        ks = getattr(mod, "KERNELS", None)
        if isinstance(ks, list) and any(x is k or getattr(x, "misc", None) is k for x in ks):
            return [getattr(x, "misc", None) or x for x in ks]
    return []


def norm_toks(toks):
    return [(t[0], re.sub(r"^__bstr\d+$", "__bstr", t[1]) if t[0] == "id" else t[1], t[2]) for t in toks]


def check_nested_fn(k, name, body_toks, src, lexer=None):
    """a `fn` item nested in a translated body shadows every outer function of that name for the calls of this body.  It is accepted
    only when a kernel of the same spec module translates exactly THIS item (same file, same name, identical body tokens) — so that
    the definition a call is rendered by is tied to the code the call really reaches; otherwise TranslateError."""
    lexer = lexer or lex
    for sib in sibling_kernels(k):
        if getattr(sib, "fn", None) != name or getattr(sib, "file", None) != k.file or getattr(sib, "kind", "fn") != "fn":
            continue
        try:
            _, b = find_fn(src, name, getattr(sib, "scope", None))
        except TranslateError:
            continue
        if norm_toks(lexer(b)) == norm_toks(body_toks):
            return
    raise TranslateError(f"nested `fn {name}` inside the translated body: no kernel of this spec translates that very item "
                         "(it would shadow the function the spec's call table means)")


# ----------------------------------------------------------------------------------------------- parser (AST)

class P:
    fnitems = False       # True: a nested `fn` item becomes a ("fnitem", name, body tokens) statement; False (legacy): skipped, name recorded

    def __init__(self, toks):
        self.t, self.i = toks, 0
        self.skipped_fns = []
        self.dropped_generics = []      # generic argument lists dropped from type / path syntax by a subclass (ktx_misc.P2), for refusal

    def peek(self, k=0):
        return self.t[self.i + k] if self.i + k < len(self.t) else ("eof", None, None)

    def at(self, *ops):
        p = self.peek()
        return p[0] == "op" and p[1] in ops

    def atid(self, name=None):
        p = self.peek()
        return p[0] == "id" and (name is None or p[1] == name)

    def eat(self, v=None):
        p = self.peek()
        if v is not None and p[1] != v:
            raise TranslateError(f"expected {v!r}, got {p[1]!r} at token {self.i}")
        self.i += 1
        return p

    # --- types
    def ty(self):
        if self.at("&"):
            self.eat()
            if self.atid("mut"):
                self.eat()
            return self.ty()
        if self.at("["):
            self.eat(); e = self.ty()
            n = None
            if self.at(";"):
                self.eat(); n = self.expr()
            self.eat("]")
            return ("arr", e, n)
        name = self.eat()[1]
        while self.at("::"):
            self.eat(); name = self.eat()[1]
        return name

    # --- statements
    def attribute(self):
        """`#[…]` / `#![…]` in a body: conditional compilation is refused (the statement it gates would otherwise be translated
        unconditionally); other attributes (`#[inline]`, `#[allow(..)]`, `#[rustfmt::skip]`) do not change the meaning"""
        self.eat("#")
        if self.at("!"):
            self.eat()
        self.eat("["); d = 1
        first = self.peek()
        if first[0] == "id" and first[1] in ("cfg", "cfg_attr"):
            raise TranslateError(f"`#[{first[1]}(..)]` inside a function body is outside the translated subset")
        while d:
            t = self.eat()
            if t[0] == "eof":
                raise TranslateError("unterminated attribute")
            d += (t[1] == "[") - (t[1] == "]")

    def at_fn_item(self):
        j = 0
        while self.peek(j)[0] == "id" and self.peek(j)[1] in ("pub", "const", "unsafe", "async", "extern"):
            j += 1
            if self.peek(j)[0] == "op" and self.peek(j)[1] == "(" and self.peek(j - 1)[1] == "pub":     # pub(crate)
                while not (self.peek(j)[0] == "op" and self.peek(j)[1] == ")"):
                    j += 1
                j += 1
        return self.peek(j)[0] == "id" and self.peek(j)[1] == "fn" and self.peek(j + 1)[0] == "id"

    def fn_item(self):
        """nested `fn` item -> ("fnitem", name, body tokens): never skipped; the translator decides (see check_nested_fn)"""
        while not self.atid("fn"):
            self.eat()
        self.eat(); name = self.eat()[1]
        while not self.at("{"):
            if self.peek()[0] == "eof":
                raise TranslateError("nested fn item without a body")
            self.eat()
        self.eat("{"); d, start = 1, self.i
        while d:
            t = self.eat()
            if t[0] == "eof":
                raise TranslateError("unterminated nested fn item")
            d += (t[1] == "{" and t[0] == "op") - (t[1] == "}" and t[0] == "op")
        return ("fnitem", name, self.t[start:self.i - 1])

    def block(self):
        stmts = []
        while self.peek()[0] != "eof" and not self.at("}"):
            if self.at(";"):
                self.eat(); continue
            if self.at("#"):
                self.attribute()
                continue
            if self.at_fn_item():
                item = self.fn_item()
                if self.fnitems:
                    stmts.append(item)
                else:                     # legacy consumers: skipped as before, but on record (a consumer should refuse or check them)
                    self.skipped_fns.append(item[1])
                continue
            stmts.append(self.stmt())
        return stmts

    def pattern(self):
        if self.atid("mut"):
            self.eat(); return ("var", self.eat()[1])
        if self.at("("):
            self.eat(); items = []
            while not self.at(")"):
                items.append(self.pattern())
                if self.at(","):
                    self.eat()
            self.eat(")")
            return ("tuple", items)
        if self.at("["):
            self.eat(); items = []
            while not self.at("]"):
                items.append(self.pattern())
                if self.at(","):
                    self.eat()
            self.eat("]")
            return ("tuple", items)
        name = self.eat()[1]
        if self.at("("):                  # Fe([a, b, …])
            self.eat(); inner = self.pattern(); self.eat(")")
            return inner
        return ("var", name)

    def refmut_init(self, i0, i1):
        """does the initialiser tokens[i0:i1] CREATE a mutable alias (`&mut place`, `&mut *p`, a tuple of them)?  `&mut` inside the
        argument list of a call is an ordinary argument, not an alias that outlives the statement"""
        depth = []
        for j in range(i0, i1):
            t = self.t[j]
            if t[0] == "op" and t[1] in "([":
                prev = self.t[j - 1] if j > i0 else ("op", "=", None)
                depth.append(prev[0] == "id" or (prev[0] == "op" and prev[1] in (")", "]", ">")))      # call / index / turbofish call
            elif t[0] == "op" and t[1] in ")]":
                if depth:
                    depth.pop()
            elif t[0] == "op" and t[1] in ("&", "&&") and j + 1 < i1 and self.t[j + 1][:2] == ("id", "mut") and not any(depth):
                return True
        return False

    def let_stmt(self):
        """`let pat [: T] [= init];` -> ("let", pat, ty, init) — with a 5th component "refmut" when the initialiser creates a `&mut` alias"""
        self.eat()
        pat = self.pattern()
        ty = None
        if self.at(":"):
            self.eat(); ty = self.ty()
        init, alias = None, False
        if self.at("="):
            self.eat(); i0 = self.i; init = self.expr()
            alias = self.refmut_init(i0, self.i)
        self.eat(";")
        return ("let", pat, ty, init, "refmut") if alias else ("let", pat, ty, init)

    def assign_node(self, lhs, op, rhs, i0):
        """("assign", lhs, op, rhs) — with a 5th component "refmut" when the right-hand side creates a `&mut` alias (`p = &mut x;`)"""
        if self.refmut_init(i0, self.i):
            return ("assign", lhs, op, rhs, "refmut")
        return ("assign", lhs, op, rhs)

    def return_stmt(self):
        """`return [e][;]` -> ("return", e | None): its own node kind — a `return` is NOT the value of the block it stands in"""
        self.eat()
        e = None if (self.at(";") or self.at("}") or self.peek()[0] == "eof") else self.expr()
        if self.at(";"):
            self.eat()
        return ("return", e)

    def stmt(self):
        if self.atid("let"):
            return self.let_stmt()
        if self.atid("for"):
            self.eat(); var = self.eat()[1]; self.eat("in")
            lo = self.expr_nostruct();
            body_open = self.eat("{")
            body = self.block(); self.eat("}")
            return ("for", var, lo, body)
        if self.atid("return"):
            return self.return_stmt()
        e = self.expr()
        if self.at("=", "+=", "-=", "*=", "&=", "|=", "^=", "<<=", ">>="):
            op = self.eat()[1]; i0 = self.i; rhs = self.expr(); self.eat(";")
            return self.assign_node(e, op, rhs, i0)
        if self.at(";"):
            self.eat(); return ("expr", e)
        return ("ret", e)               # expression without `;`: the trailing value of the block, or a block-like statement (`if c {…}`)

    # --- expressions (Rust precedence)
    BIN = [["||"], ["&&"], ["==", "!=", "<", ">", "<=", ">="], ["|"], ["^"], ["&"], ["<<", ">>"], ["+", "-"], ["*", "/", "%"]]

    def expr_nostruct(self):
        return self.expr()

    def expr(self, lvl=0):
        if lvl == 0 and (self.at("..") ):
            self.eat(); hi = self.expr(1); return ("range", None, hi)
        if lvl == len(self.BIN):
            return self.cast()
        left = self.expr(lvl + 1)
        while self.at(*self.BIN[lvl]):
            op = self.eat()[1]
            right = self.expr(lvl + 1)
            left = ("bin", op, left, right)
        if lvl == 0 and self.at("..", "..="):
            op = self.eat()[1]
            hi = None if self.at("]", ")", "{") else self.expr(1)
            left = ("range", left, hi, op)
        return left

    def cast(self):
        e = self.unary()
        while self.atid("as"):
            self.eat(); e = ("cast", e, self.ty())
        return e

    def unary(self):
        if self.at("-"):
            self.eat(); return ("neg", self.unary())
        if self.at("!"):
            self.eat(); return ("not", self.unary())
        if self.at("&"):
            self.eat()
            if self.atid("mut"):
                self.eat()
            return self.unary()
        if self.at("*"):
            self.eat(); return self.unary()
        return self.postfix()

    def postfix(self):
        e = self.atom()
        while True:
            if self.at("("):
                self.eat(); args = []
                while not self.at(")"):
                    args.append(self.expr())
                    if self.at(","):
                        self.eat()
                self.eat(")")
                e = ("call", e, args)
            elif self.at("["):
                self.eat(); ix = self.expr(); self.eat("]")
                e = ("index", e, ix)
            elif self.at("."):
                self.eat(); name = self.eat()
                if name[0] == "int":
                    e = ("field", e, str(name[1]))
                elif self.at("("):
                    self.eat(); args = []
                    while not self.at(")"):
                        args.append(self.expr())
                        if self.at(","):
                            self.eat()
                    self.eat(")")
                    e = ("method", e, name[1], args)
                else:
                    e = ("field", e, name[1])
            else:
                return e

    def atom(self):
        p = self.peek()
        if p[0] == "int":
            self.eat(); return ("lit", p[1], p[2])
        if self.at("("):
            self.eat(); e = self.expr()
            if self.at(","):
                items = [e]
                while self.at(","):
                    self.eat()
                    if self.at(")"):
                        break
                    items.append(self.expr())
                self.eat(")")
                return ("tuple", items)
            self.eat(")")
            return ("paren", e)
        if self.at("["):
            self.eat(); items = []
            while not self.at("]"):
                items.append(self.expr())
                if self.at(";"):
                    self.eat(); n = self.expr(); self.eat("]")
                    return ("repeat", items[0], n)
                if self.at(","):
                    self.eat()
            self.eat("]")
            return ("array", items)
        if self.atid("if"):
            self.eat(); c = self.expr(); self.eat("{"); a = self.block(); self.eat("}")
            b = None
            if self.atid("else"):
                self.eat(); self.eat("{"); b = self.block(); self.eat("}")
            return ("if", c, a, b)
        if p[0] == "id":
            self.eat(); name = p[1]
            while self.at("::"):
                self.eat(); name += "::" + self.eat()[1]
            return ("path", name)
        raise TranslateError(f"unexpected token {p} at {self.i}")


# ----------------------------------------------------------------------------------------------- translation

class Kernel:
    """spec of one kernel to translate

    file, fn, scope     where the Rust function is
    backend             "natlet" | "optchk"
    lean_name           generated def name
    params              Lean binder text, e.g. "(r h : L5) (m : Bytes) (hibit : Nat)"
    ret_type            Lean result type text
    env                 initial environment: rust expression text -> (lean text, rust type), e.g. {"self.r[0]": ("r.l0","u32")}
    consts              rust const name -> (lean text, type)
    calls               rust fn name -> (lean template with {0},{1}… | python handler(tr, args) -> lean text, result type, [arg types])
                        (pure helper calls; a slice argument `&m[a..b]` is passed as three texts base, a, b)
    uses                optional: bound name -> path it must be imported from by a `use` of the file (checked on the source)
    stores              rust lvalue text -> output slot name (for `self.h[0] = h0` style results)
    result              python function (outputs dict, ret value text) -> Lean result expression text
    stmt_filter         optional predicate (index, stmt) -> keep?  (statements the spec deliberately leaves to another kernel; it must
                        name them precisely — a filter like "every `if`" would also hide an `if` added later)
    select              optional function stmts -> stmts (e.g. the body of the first `for`)
    """

    def __init__(self, **kw):
        self.file = kw["file"]; self.fn = kw["fn"]; self.scope = kw.get("scope")
        self.backend = kw.get("backend", "natlet"); self.lean_name = kw["lean_name"]
        self.params = kw["params"]; self.ret_type = kw["ret_type"]
        self.env = dict(kw.get("env", {})); self.consts = dict(kw.get("consts", {}))
        self.calls = dict(kw.get("calls", {})); self.stores = dict(kw.get("stores", {}))
        self.result = kw["result"]; self.stmt_filter = kw.get("stmt_filter")
        self.widths = kw.get("widths", {})   # optchk: width -> (add, sub, mul) function names
        self.doc = kw.get("doc", "")
        self.select = kw.get("select")       # optional: python function stmts -> stmts (e.g. body of the first `for`)
        self.agg_calls = dict(kw.get("agg_calls", {}))   # fn name -> (lean fn, field names of the returned aggregate, elem type, monadic?)
        self.agg_fields = kw.get("agg_fields", ["l0", "l1", "l2", "l3", "l4"])
        self.uses = dict(kw.get("uses", {}))


def show(e):
    """canonical text of simple lvalue / env-key expressions"""
    k = e[0]
    if k == "path":
        return e[1]
    if k == "field":
        return show(e[1]) + "." + e[2]
    if k == "index":
        return show(e[1]) + "[" + show(e[2]) + "]"
    if k == "lit":
        return str(e[1])
    if k == "range":
        return (show(e[1]) if e[1] else "") + ".." + (show(e[2]) if e[2] else "")
    if k == "paren":
        return show(e[1])
    raise TranslateError(f"cannot show {e}")


def file_int_const(file, name):
    """(value, type) of the UNIQUE module-level `const NAME: uN = <integer literal>;` of `file` (brace depth 0, not under an
    attribute such as #[cfg]); None when there is no such item, it is not unique, or its right-hand side is not a plain literal"""
    try:
        text = strip_comments(open(os.path.join(repo(), file)).read())
    except OSError:
        return None
    if len(re.findall(r"\bconst\s+%s\b" % re.escape(name), text)) != 1:
        return None
    m = re.search(r"(^|\n)([ \t]*)((?:pub(?:\([a-z]+\))?\s+)?)const\s+%s\s*:\s*(u8|u16|u32|u64|u128|usize)\s*=\s*(0x[0-9a-fA-F_]+|0b[01_]+|[0-9][0-9_]*)\s*;"
                  % re.escape(name), text)
    if not m:
        return None
    before = text[:m.start(3)]
    if before.count("{") != before.count("}"):
        return None
    prev = [l for l in before.split("\n") if l.strip()]
    if prev and prev[-1].strip().startswith("#"):
        return None
    return (int(m.group(5).replace("_", ""), 0), m.group(4))


def is_const_expr(e, consts):
    k = e[0]
    if k == "lit":
        return True
    if k == "paren":
        return is_const_expr(e[1], consts)
    if k == "path":
        return e[1].split("::")[-1] in consts
    if k == "bin" and e[1] in ("+", "-", "*", "<<", ">>"):
        return is_const_expr(e[2], consts) and is_const_expr(e[3], consts)
    return False


def const_text(e, consts):
    k = e[0]
    if k == "lit":
        return str(e[1])
    if k == "paren":
        return "(" + const_text(e[1], consts) + ")"
    if k == "path":
        return consts[e[1].split("::")[-1]][0]
    sym = {"+": "+", "-": "-", "*": "*", "<<": "<<<", ">>": ">>>"}[e[1]]
    return f"{const_text(e[2], consts)} {sym} {const_text(e[3], consts)}"


class Tr:
    def __init__(self, k: Kernel):
        self.k = k
        self.vars = {}            # rust var -> (lean name, type)
        self.lines = []
        self.counter = {}
        self.outputs = {}
        self.tmp = 0

    def fresh(self, base):
        n = self.counter.get(base, 0)
        self.counter[base] = n + 1
        return base if n == 0 else f"{base}_{n}"

    def emit_let(self, name, text):
        self.lines.append(f"  let {name} := {text}")

    def emit_bind(self, name, text):
        self.lines.append(f"  let {name} ← {text}")

    def bind_var(self, rust, text, ty, atomic=False):
        ln = self.fresh(rust)
        self.emit_let(ln, text)
        self.vars[rust] = (ln, ty)

    # ---- types
    @staticmethod
    def unify(a, b):
        if a is None:
            return b
        if b is None:
            return a
        if a != b:
            raise TranslateError(f"type mismatch {a} vs {b}")
        return a

    def width(self, ty):
        if ty not in INT_TYPES:
            raise TranslateError(f"unknown integer type {ty}")
        return INT_TYPES[ty]

    # ---- expressions: returns (lean text, type, atomic?)
    def ex(self, e, want=None):
        k = e[0]
        if k == "bin" and isinstance(self, OptChk) and is_const_expr(e, self.k.consts) and not (e[2][0] == "lit" and e[3][0] == "lit"):
            ty = want
            for sub in (e[2], e[3]):
                if sub[0] == "path":
                    ty = self.k.consts[sub[1].split("::")[-1]][1]
            return (const_text(e, self.k.consts), ty, False)
        if k == "lit":
            return (hex(e[1]) if e[1] > 9 and self.hexlit else str(e[1]), e[2] or want, True)
        if k == "paren":
            t, ty, _ = self.ex(e[1], want)
            return (t, ty, False if not _ else True)
        if k in ("path", "field", "index"):
            key = None
            try:
                key = show(e)
            except TranslateError:
                pass
            if key is not None and key in self.k.env:
                t, ty = self.k.env[key]
                return (t, ty, True)
            if k == "path":
                name = e[1]
                if name in self.vars:
                    ln, ty = self.vars[name]
                    return (ln, ty, True)
                base = name.split("::")[-1]
                if base in self.k.consts:
                    t, ty = self.k.consts[base]
                    return (t, ty, True)
                lit = file_int_const(self.k.file, base) if "::" not in name else None
                if lit is not None:
                    # a module-level `const NAME: <int type> = <integer literal>;` of the kernel's own file: translated as the
                    # literal it names (so that naming a magic number does not change the generated text)
                    return self.ex(("lit", lit[0], lit[1]), want)
                raise TranslateError(f"unknown identifier {name}")
            if k == "index":
                # array variable indexed by literal: model arrays as python-side tuples of vars
                base = show(e[1])
                if base in self.vars and isinstance(self.vars[base][0], list):
                    ix = e[2]
                    if ix[0] != "lit":
                        raise TranslateError("non-literal index")
                    ln, ty = self.vars[base][0][ix[1]], self.vars[base][1]
                    return (ln, ty, True)
            raise TranslateError(f"unknown place {key}")
        if k == "cast":
            t, ty, at = self.ex(e[1])
            to = e[2]
            if ty is None:
                return (t, to, at)
            return self.cast(t, ty, to, at)
        if k == "bin":
            return self.binop(e[1], e[2], e[3], want)
        if k == "not":
            t, ty, at = self.ex(e[1], want)
            return self.bnot(t, ty, at)
        if k == "call":
            fname = show(e[1]).split("::")[-1]
            if fname not in self.k.calls:
                raise TranslateError(f"unknown function {fname}")
            tmpl, rty, argtys = self.k.calls[fname]
            args = []
            for a, aty in zip(e[2], argtys + [None] * len(e[2])):
                if a[0] == "index" and a[2][0] == "range":       # &m[0..4]
                    args.append((show(a[1]), show(a[2][1]) if a[2][1] else "0", show(a[2][2]) if a[2][2] else ""))
                else:
                    t, ty, at = self.ex(a, aty)
                    args.append(self.par(t, at))
            if callable(tmpl):
                # a python handler: gets the argument texts (a slice argument `&m[a..b]` as the tuple (base, lo, hi)) and can CHECK them
                return (tmpl(self, args), rty, False)
            flat = []
            for a in args:
                flat += list(a) if isinstance(a, tuple) else [a]
            return (tmpl.format(*flat), rty, False)
        if k == "method":
            return self.method(e[1], e[2], e[3], want)
        if k == "if":
            return self.ifexpr(e, want)
        raise TranslateError(f"unsupported expression {k}")

    hexlit = True

    @staticmethod
    def par(t, atomic):
        return t if atomic else f"({t})"

    def ifexpr(self, e, want):
        c = e[1]
        key = show(c) if c[0] in ("path", "field", "index") else None
        if key is None or key not in self.k.env:
            raise TranslateError("unsupported if condition")
        ct, _ = self.k.env[key]
        def val(blk):
            if len(blk) != 1 or blk[0][0] != "ret":
                raise TranslateError("unsupported if branch")
            return self.ex(blk[0][1], want)
        a = val(e[2]); b = val(e[3])
        ty = self.unify(a[1], b[1])
        return (f"if {ct} then {a[0]} else {b[0]}", ty, False)


class NatLet(Tr):
    """mathematical Nat values; explicit truncation only where Rust truncates"""

    def cast(self, t, ty, to, at):
        if to not in INT_TYPES:
            raise TranslateError(f"cast to {to}")
        if self.width(to) < self.width(ty):
            return (f"{self.par(t, at)} % 2 ^ {self.width(to)}", to, False)
        return (t, to, at)

    def bnot(self, t, ty, at):
        return (f"{self.par(t, at)} ^^^ {hex(2 ** self.width(ty) - 1)}", ty, False)

    def binop(self, op, l, r, want):
        if op in ("<<", ">>"):
            lt, lty, lat = self.ex(l, want)
            rt, _, rat = self.ex(r, None)
            if op == ">>":
                return (f"{self.par(lt, lat)} >>> {self.par(rt, rat)}", lty, False)
            if l[0] == "lit" and r[0] in ("lit",):
                return (f"{lt} <<< {rt}", lty, False)
            if lty is None:
                raise TranslateError("cannot type shl")
            return (f"({self.par(lt, lat)} <<< {self.par(rt, rat)}) % 2 ^ {self.width(lty)}", lty, False)
        lt, lty, lat = self.ex(l, want)
        rt, rty, rat = self.ex(r, lty or want)
        if lty is None and rty is not None:
            lt, lty, lat = self.ex(l, rty)
        ty = self.unify(lty, rty)
        sym = {"+": "+", "*": "*", "-": "-", "&": "&&&", "|": "|||", "^": "^^^"}.get(op)
        if sym is None:
            raise TranslateError(f"operator {op}")
        ltxt = lt if lat else f"({lt})"
        rtxt = rt if rat else f"({rt})"
        return (f"{ltxt} {sym} {rtxt}", ty, False)

    def method(self, recv, name, args, want):
        t, ty, at = self.ex(recv, want)
        if name in ("wrapping_add", "wrapping_sub", "wrapping_mul"):
            a, aty, aat = self.ex(args[0], ty)
            ty = self.unify(ty, aty)
            w = self.width(ty)
            if name == "wrapping_add":
                return (f"({self.par(t, at)} + {self.par(a, aat)}) % 2 ^ {w}", ty, False)
            if name == "wrapping_mul":
                return (f"({self.par(t, at)} * {self.par(a, aat)}) % 2 ^ {w}", ty, False)
            return (f"({self.par(t, at)} + (2 ^ {w} - {self.par(a, aat)})) % 2 ^ {w}", ty, False)
        if name == "wrapping_neg":
            w = self.width(ty)
            return (f"(2 ^ {w} - {self.par(t, at)}) % 2 ^ {w}", ty, False)
        raise TranslateError(f"method {name}")

    def assign_op(self, cur, ty, op, rhs):
        base = op[:-1]
        e = ("bin", base, ("path", cur), rhs)
        return self.ex(e, ty)


class OptChk(Tr):
    """three-address code in the Option monad; checked + - * become binds"""
    hexlit = False

    def atomize(self, t, ty, at, hint="t"):
        if at:
            return t
        n = self.fresh(hint)
        self.emit_let(n, t)
        return n

    def cast(self, t, ty, to, at):
        if self.width(to) < self.width(ty):
            return (f"{self.par(t, at)} % 2^{self.width(to)}", to, False)
        return (t, to, at)

    def bnot(self, t, ty, at):
        return (f"{self.par(t, at)} ^^^ {2 ** self.width(ty) - 1}", ty, False)

    def binop(self, op, l, r, want):
        if op in ("<<", ">>"):
            lt, lty, lat = self.ex(l, want)
            rt, _, rat = self.ex(r, None)
            if op == ">>":
                return (f"{self.par(lt, lat)} >>> {self.par(rt, rat)}", lty, False)
            return (f"({self.par(lt, lat)} <<< {self.par(rt, rat)}) % 2^{self.width(lty)}", lty, False)
        lt, lty, lat = self.ex(l, want)
        rt, rty, rat = self.ex(r, lty or want)
        if lty is None and rty is not None:
            lt, lty, lat = self.ex(l, rty)
        ty = self.unify(lty, rty)
        if op in ("+", "-", "*"):
            w = self.width(ty)
            fn = self.k.widths[w][{"+": 0, "-": 1, "*": 2}[op]]
            la = self.par(lt, lat); ra = self.par(rt, rat)
            n = self.fresh(self.hint or "a")
            self.emit_bind(n, f"{fn} {la} {ra}")
            return (n, ty, True)
        sym = {"&": "&&&", "|": "|||", "^": "^^^"}[op]
        return (f"{self.par(lt, lat)} {sym} {self.par(rt, rat)}", ty, False)

    hint = None

    def method(self, recv, name, args, want):
        t, ty, at = self.ex(recv, want)
        if name in ("wrapping_add", "wrapping_sub", "wrapping_mul"):
            a, aty, aat = self.ex(args[0], ty)
            ty = self.unify(ty, aty)
            w = self.width(ty)
            if name == "wrapping_add":
                return (f"({self.par(t, at)} + {self.par(a, aat)}) % 2^{w}", ty, False)
            if name == "wrapping_mul":
                return (f"({self.par(t, at)} * {self.par(a, aat)}) % 2^{w}", ty, False)
            return (f"({self.par(t, at)} + (2^{w} - {self.par(a, aat)})) % 2^{w}", ty, False)
        raise TranslateError(f"method {name}")

    def assign_op(self, cur, ty, op, rhs):
        e = ("bin", op[:-1], ("path", cur), rhs)
        return self.ex(e, ty)


class CkSum(OptChk):
    """style of Impl/Scalar64.lean: a left-nested chain of checked `+` is ONE overflow check `← ckN (a + b + …)` (partial sums of
    naturals overflow iff the total does); helper functions for the truncating operators: shr64/shl64/asU64/wsub64/wadd64"""

    def cast(self, t, ty, to, at):
        if self.width(to) < self.width(ty):
            return (f"asU{self.width(to)} {self.par(t, at)}", to, False)
        return (t, to, at)

    def bnot(self, t, ty, at):
        return (f"{self.par(t, at)} ^^^ {2 ** self.width(ty) - 1}", ty, False)

    def flatten_add(self, e):
        if e[0] == "bin" and e[1] == "+":
            return self.flatten_add(e[2]) + [e[3]]
        return [e]

    def binop(self, op, l, r, want):
        if op in ("<<", ">>"):
            lt, lty, lat = self.ex(l, want)
            rt, _, rat = self.ex(r, None)
            w = self.width(lty)
            # a raw shift of a u128 is `shrU128`/`shlU128`: `shr128` is the name of the crate's own helper FUNCTION (which truncates to u64)
            fn = ("shr" if op == ">>" else "shl") + ("U128" if w == 128 else str(w))
            return (f"{fn} {self.par(lt, lat)} {self.par(rt, rat)}", lty, False)
        if op == "+":
            terms = self.flatten_add(("bin", op, l, r))
            texts, ty = [], want
            for t_ in terms:
                hint, self.hint = self.hint, None
                tt, tty, tat = self.ex(t_, ty)
                self.hint = hint
                ty = self.unify(ty, tty) if tty else ty
                texts.append(tt if tat or self.is_app(tt) else f"({tt})")
            w = self.width(ty)
            n = self.fresh(self.hint or "a")
            self.emit_bind(n, f"ck{w} (" + " + ".join(texts) + ")")
            return (n, ty, True)
        if op == "*":
            lt, lty, lat = self.ex(l, want)
            rt, rty, rat = self.ex(r, lty or want)
            ty = self.unify(lty, rty)
            n = self.fresh(self.hint or "a")
            self.emit_bind(n, f"ck{self.width(ty)} ({self.par(lt, lat)} * {self.par(rt, rat)})")
            return (n, ty, True)
        if op == "==":
            lt, lty, lat = self.ex(l, want)
            rt, rty, rat = self.ex(r, lty)
            return (f"{self.par(lt, lat)} == {self.par(rt, rat)}", "bool", False)
        lt, lty, lat = self.ex(l, want)
        rt, rty, rat = self.ex(r, lty or want)
        if lty is None and rty is not None:
            lt, lty, lat = self.ex(l, rty)
        ty = self.unify(lty, rty)
        sym = {"&": "&&&", "|": "|||", "^": "^^^"}[op]
        lp = lt if (lat or self.is_app(lt) or (l[0] == "bin" and l[1] == op)) else f"({lt})"
        rp = rt if (rat or self.is_app(rt)) else f"({rt})"
        return (f"{lp} {sym} {rp}", ty, False)

    @staticmethod
    def is_app(t):
        """function application `f a b` binds tighter than any infix operator"""
        return bool(re.fullmatch(r"[A-Za-z_][\w.]*( (\([^()]*\)|[\w.]+))+", t))

    def method(self, recv, name, args, want):
        t, ty, at = self.ex(recv, want)
        if name in ("wrapping_add", "wrapping_sub"):
            a, aty, aat = self.ex(args[0], ty)
            ty = self.unify(ty, aty)
            fn = ("wadd" if name == "wrapping_add" else "wsub") + str(self.width(ty))
            return (f"{fn} {self.par(t, at)} {self.par(a, aat)}", ty, False)
        raise TranslateError(f"method {name}")


def body_idents(toks):
    return {t[1] for t in toks if t[0] == "id"}


class TailExpr(tuple):
    """the trailing expression handed to the spec's result function; remembers whether the function looked at it"""
    used = False

    def __getitem__(self, i):
        self.used = True
        return tuple.__getitem__(self, i)

    def __iter__(self):
        self.used = True
        return tuple.__iter__(self)


def pure_tail(e, k):
    """a trailing expression the kernel's result function may ignore must be free of effects and of statements: refuse blocks,
    `if` with statement branches, `match`, macros and calls of functions the spec does not name"""
    if not isinstance(e, tuple) or not e:
        return
    kind = e[0]
    if kind in ("lit", "path"):
        return
    if kind == "if":
        for blk in (e[2], e[3]):
            if blk is None or len(blk) != 1 or blk[0][0] != "ret":
                raise TranslateError("`if` with statement branches (or without `else`) in tail position is not a value expression")
            pure_tail(blk[0][1], k)
        return pure_tail(e[1], k)
    if kind == "call":
        fname = show(e[1]).split("::")[-1] if e[1][0] == "path" else None
        if fname is None or not (fname in k.calls or fname in k.agg_calls or fname[:1].isupper()):
            raise TranslateError(f"trailing call of `{fname}`: not a function named by the kernel spec")
        for a in e[2]:
            pure_tail(a, k)
        return
    if kind == "method":
        if not e[2].startswith("wrapping_"):
            raise TranslateError(f"trailing method call .{e[2]}()")
        pure_tail(e[1], k)
        for a in e[3]:
            pure_tail(a, k)
        return
    if kind in ("paren", "not", "neg", "cast", "field"):
        return pure_tail(e[1], k)
    if kind == "bin":
        pure_tail(e[2], k); return pure_tail(e[3], k)
    if kind == "index":
        pure_tail(e[1], k); return pure_tail(e[2], k)
    if kind == "range":
        for x in e[1:3]:
            if x is not None:
                pure_tail(x, k)
        return
    if kind in ("tuple", "array"):
        for x in e[1]:
            pure_tail(x, k)
        return
    if kind == "repeat":
        pure_tail(e[1], k); return pure_tail(e[2], k)
    raise TranslateError(f"trailing expression of kind `{kind}` is not a plain value")


def translate(k: Kernel):
    path = os.path.join(repo(), k.file)
    src = open(path).read()
    _, body = find_fn(src, k.fn, k.scope)
    toks = lex(body)
    refuse_renaming_uses(strip_comments(src), body_idents(toks) | set(k.calls) | set(k.agg_calls), f"{k.file}: fn {k.fn}")
    if k.uses:
        check_expected_uses(strip_comments(src), k.uses, k.file)
    parser = P(toks)
    parser.fnitems = True
    stmts = parser.block()
    for s in stmts:
        if s[0] == "fnitem":
            check_nested_fn(k, s[1], s[2], src)
    stmts = [s for s in stmts if s[0] != "fnitem"]
    if k.select:
        stmts = k.select(stmts)
    tr = NatLet(k) if k.backend == "natlet" else (CkSum(k) if k.backend == "cksum" else OptChk(k))
    for key, (val, ty) in k.env.items():
        if isinstance(val, list) and re.fullmatch(r"[A-Za-z_]\w*", key) and key not in ("self", "rhs"):
            tr.vars[key] = (list(val), ty)
    if k.stmt_filter:
        stmts = [s for idx, s in enumerate(stmts) if k.stmt_filter(idx, s)]
    ret = None
    for idx, s in enumerate(stmts):
        kind = s[0]
        last = idx == len(stmts) - 1
        if kind == "return":
            # `return e;` as the LAST statement of the body is the trailing value; anywhere else it is control flow
            if not last or s[1] is None:
                raise TranslateError("`return` before the end of a straight-line kernel (early return) is not translated")
            kind, s = "ret", ("ret", s[1])
        if kind == "ret" and not last:
            what = s[1][0]
            raise TranslateError(f"`{what}` statement in a straight-line kernel: control flow / value expression in the middle of the body "
                                 "is not translated (would be dropped)")
        if kind == "let" and len(s) > 4:
            raise TranslateError("`let x = &mut <place>` creates a mutable alias (writes through it would be lost)")
        if kind == "let":
            pat, ty, init = s[1], s[2], s[3]
            if pat[0] == "tuple":
                # destructuring of a known aggregate: `let Fe([f0, …]) = *self;`
                key = show(init) if init[0] in ("path", "field", "index") else None
                if key is None or key not in k.env or not isinstance(k.env[key][0], list):
                    raise TranslateError(f"unsupported destructuring of {init}")
                texts, ety = k.env[key]
                flat = pat[1]
                while len(flat) == 1 and flat[0][0] == "tuple":
                    flat = flat[0][1]
                if len(flat) != len(texts):
                    raise TranslateError("destructuring arity")
                for p_, t_ in zip(flat, texts):
                    tr.vars[p_[1]] = (t_, ety)
                continue
            name = pat[1]
            if init is None:
                tr.vars[name] = (None, ty)
                continue
            ikey = None
            if init[0] in ("path", "field", "index"):
                try:
                    ikey = show(init)
                except TranslateError:
                    ikey = None
            if ikey is not None and ikey in k.env and isinstance(k.env[ikey][0], list):
                tr.vars[name] = (list(k.env[ikey][0]), k.env[ikey][1])
                continue
            if ikey is not None and ikey in tr.vars and isinstance(tr.vars[ikey][0], list):
                tr.vars[name] = (list(tr.vars[ikey][0]), tr.vars[ikey][1])
                continue
            if init[0] == "repeat" and init[2][0] == "lit":
                et, ety, _ = tr.ex(init[1], ty[1] if isinstance(ty, tuple) else None)
                tr.vars[name] = ([et] * init[2][1], ety or (ty[1] if isinstance(ty, tuple) else None))
                continue
            if init[0] == "call" and show(init[1]).split("::")[-1] in k.agg_calls:
                fname = show(init[1]).split("::")[-1]
                lean_fn, fields, ety, monadic = k.agg_calls[fname]
                args = []
                for a in init[2]:
                    akey = show(a) if a[0] in ("path", "field", "index") else None
                    if akey in tr.vars and isinstance(tr.vars[akey][0], list):
                        args.append("⟨" + ", ".join(tr.vars[akey][0]) + "⟩")
                    else:
                        t_, _, at_ = tr.ex(a)
                        args.append(tr.par(t_, at_))
                ln = tr.fresh(name)
                if monadic:
                    tr.emit_bind(ln, f"{lean_fn} " + " ".join(args))
                else:
                    tr.emit_let(ln, f"{lean_fn} " + " ".join(args))
                tr.vars[name] = ([f"{ln}.{f}" for f in fields], ety)
                continue
            if isinstance(tr, OptChk):
                tr.hint = name
            t, ety, at = tr.ex(init, ty)
            if isinstance(tr, OptChk):
                tr.hint = None
            ety = ty or ety
            if at and isinstance(tr, OptChk) and t in [v[0] for v in tr.vars.values()] + list(tr.counter):
                # a bind already produced the variable under (possibly) another name: alias
                tr.vars[name] = (t, ety)
            else:
                tr.bind_var(name, t, ety)
        elif kind == "assign":
            lhs, op, rhs = s[1], s[2], s[3]
            if len(s) > 4:
                raise TranslateError("`p = &mut <place>` creates a mutable alias (writes through it would be lost)")
            try:
                key = show(lhs)
            except TranslateError:
                key = None
            if key in k.stores and k.stores[key].startswith("_"):
                continue
            if key in k.stores:
                if op != "=":
                    raise TranslateError("compound store")
                t, ty, at = tr.ex(rhs)
                tr.outputs[k.stores[key]] = t if at else f"({t})"
                continue
            if lhs[0] == "index" and lhs[2][0] == "lit":
                base = None
                try:
                    base = show(lhs[1])
                except TranslateError:
                    pass
                if base in tr.vars and isinstance(tr.vars[base][0], list):
                    elems, ety = tr.vars[base]
                    ix = lhs[2][1]
                    cur = elems[ix]
                    tmpname = f"{base}{ix}"
                    tr.vars[tmpname] = (cur, ety)
                    if isinstance(tr, OptChk):
                        tr.hint = tmpname
                    if op == "=":
                        t, _, at = tr.ex(rhs, ety)
                    else:
                        t, _, at = tr.assign_op(tmpname, ety, op, rhs)
                    if isinstance(tr, OptChk):
                        tr.hint = None
                    if not at:
                        ln = tr.fresh(tmpname)
                        tr.emit_let(ln, t)
                        t = ln
                    elems = list(elems)
                    elems[ix] = t
                    tr.vars[base] = (elems, ety)
                    del tr.vars[tmpname]
                    continue
            if lhs[0] != "path" or lhs[1] not in tr.vars:
                raise TranslateError(f"assignment to unknown place {key}")
            name = lhs[1]
            cur, ty = tr.vars[name]
            if isinstance(tr, OptChk):
                tr.hint = name
            if op == "=":
                t, ety, at = tr.ex(rhs, ty)
            else:
                t, ety, at = tr.assign_op(name, ty, op, rhs)
            if isinstance(tr, OptChk):
                tr.hint = None
            if at and isinstance(tr, OptChk):
                tr.vars[name] = (t, ty or ety)
            else:
                tr.bind_var(name, t, ty or ety)
        elif kind == "ret":
            ret = TailExpr(s[1])
        elif kind == "expr":
            raise TranslateError(f"unsupported expression statement {s[1][0]}")
        else:
            raise TranslateError(f"unsupported statement {kind}")
    res = k.result(tr, ret)
    if ret is not None and not ret.used:
        pure_tail(tuple(ret), k)          # the spec's result function ignored the trailing expression: it must be a plain value
    monadic = k.backend in ("optchk", "cksum")
    final = (res if res.startswith("  ") else f"  pure {res}") if monadic else f"  {res}"
    return (f"/-- {k.doc} — GENERATED from `fn {k.fn}` in {k.file} -/\n"
            f"def {k.lean_name} {k.params} : {k.ret_type} :={' do' if monadic else ''}\n"
            + "\n".join(tr.lines) + "\n" + final + "\n")


def generate_all():
    """translate every kernel registered in tools/kernels/*.py; returns (files dict, errors list)"""
    import importlib
    import pkgutil
    import sys
    here = os.path.dirname(os.path.abspath(__file__))
    sys.path.insert(0, here)
    files, errors, n = {}, [], 0
    for m in sorted(pkgutil.iter_modules([os.path.join(here, "kernels")])):
        mod = importlib.import_module("kernels." + m.name)
        parts = []
        # a kernel module may bring its own translator (`TRANSLATE(k) -> Lean text`), e.g. tools/ktx_words.py
        tr_fn = getattr(mod, "TRANSLATE", translate)
        for k in mod.KERNELS:
            try:
                parts.append(tr_fn(k))
                n += 1
            except (TranslateError, KeyError, IndexError, ValueError, TypeError, AttributeError, AssertionError) as e:
                errors.append({"table": f"{mod.LEAN_FILE}.{k.lean_name}", "error": f"kernel translation failed: {e}"[:300]})
                # keep the project buildable; the tie theorem about this definition then fails
                parts.append(f"/-- TRANSLATION FAILED: {str(e)[:200]} -/\ndef {k.lean_name} {k.params} : Option Unit := none\n")
        files[mod.LEAN_FILE] = ("-- GENERATED by tools/kernel_translate.py from /repo/src on every run. Do not edit.\n"
                                + mod.HEADER + "\n" + "\n".join(parts) + "\n" + mod.FOOTER)
    return files, errors, n
