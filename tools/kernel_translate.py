#!/usr/bin/env python3
"""Kernel translator: straight-line integer Rust functions of /repo/src  ->  Lean definitions, regenerated on
every run (called by extract_tables.regenerate()).  This is the *translator tie* for the limb-arithmetic kernels,
where sampling is weakest (rare carries): the generated definition `<name>_src` is what the source says NOW, and a
theorem in lean/CxVerif/Props/…/KernelTie*.lean proves (by `rfl`-style unfolding, re-checked by the kernel on
every build) that it equals the hand-written Impl definition the big theorems are about.  A semantic change of the
Rust kernel therefore breaks a proof obligation even if no sampled input reaches it.

Supported Rust subset (enough for poly1305 block/finish, fe64 add/sub/neg/mul/square/…, scalar64 kernels):
  let [mut] x [: T] [= e];   let Fe([a, mut b, …]) = *self;   x = e;   x op= e;   self.h[i] = e;   trailing expr
  expressions: integer literals, paths/consts, + - * & | ^ << >> ! unary-, `as T`, calls f(a,b), methods
  .wrapping_add/.wrapping_sub/.wrapping_mul/.wrapping_neg, indexing a[i], a[i..j], &, *, field access, tuples/struct
  constructors `Fe([..])`, `if c { a } else { b }` as an expression on simple conditions.
Anything else raises TranslateError -> reported as a broken extraction (the tie cannot be established).

Two backends (chosen per kernel so that the output has the *same shape* as the hand model):
  "natlet": every value a Nat, checked + and * are the mathematical operations (no-overflow is a separate
            theorem of the unit), truncations explicit: `as uN` narrowing = `% 2 ^ N`, `<<` = `(a <<< k) % 2 ^ N`,
            wrapping_add = `(a + b) % 2 ^ N`, wrapping_sub = `(a + (2 ^ N - b)) % 2 ^ N`, `!a` = `a ^^^ (2^N-1)`.
  "optchk": three-address code in the Option monad: checked `+ - *` of width N become `← addN a b` / `subN` /
            `mulN` (left-to-right, operands first), other operators are pure lets.
"""
import os
import re

REPO = os.environ.get("CX_REPO", "/repo")


class TranslateError(Exception):
    pass


# ----------------------------------------------------------------------------------------------- lexer

TOKEN = re.compile(r"\s*(?:(0x[0-9a-fA-F_]+|0b[01_]+|[0-9][0-9_]*)((?:_?[ui](?:8|16|32|64|128|size))?)"
                   r"|([A-Za-z_][A-Za-z0-9_]*)|(\.\.=|\.\.|<<=|>>=|<<|>>|\+=|-=|\*=|&=|\|=|\^=|==|!=|<=|>=|&&|\|\||->|::|[-+*/%&|^!=<>()\[\]{};:,.#]))")
INT_TYPES = {"u8": 8, "u16": 16, "u32": 32, "u64": 64, "u128": 128, "usize": 64, "i8": 8, "i16": 16, "i32": 32, "i64": 64}


def strip_comments(src):
    src = re.sub(r"/\*.*?\*/", " ", src, flags=re.S)
    return re.sub(r"//[^\n]*", "", src)


def lex(src):
    out, i = [], 0
    src = strip_comments(src)
    while i < len(src):
        if src[i:].strip() == "":
            break
        m = TOKEN.match(src, i)
        if not m:
            raise TranslateError(f"cannot lex near {src[i:i+30]!r}")
        if m.group(1) is not None:
            suf = m.group(2).lstrip("_") or None
            out.append(("int", int(m.group(1).replace("_", ""), 0), suf))
        elif m.group(3) is not None:
            out.append(("id", m.group(3), None))
        else:
            out.append(("op", m.group(4), None))
        i = m.end()
    return out


def find_fn(src, fn, scope=None):
    """body token text of `fn <fn>` (optionally inside `impl … <scope> …{`)"""
    text = strip_comments(src)
    start = 0
    if scope:
        m = re.search(scope, text)
        if not m:
            raise TranslateError(f"scope {scope!r} not found")
        start = m.end()
    hdr = None
    for m in re.compile(r"\bfn\s+" + re.escape(fn) + r"\b").finditer(text, start):
        # scan the signature: the body opens at the first `{` outside ( ) [ ]; a `;` outside them = declaration only
        depth, j = 0, m.end()
        while j < len(text):
            c = text[j]
            if c in "([":
                depth += 1
            elif c in ")]":
                depth -= 1
            elif c == "{" and depth == 0:
                hdr = (m.start(), j + 1)
                break
            elif c == ";" and depth == 0:
                break
            j += 1
        if hdr:
            break
    if not hdr:
        raise TranslateError(f"fn {fn} not found")
    depth, i = 1, hdr[1]
    while i < len(text) and depth:
        depth += {"{": 1, "}": -1}.get(text[i], 0)
        i += 1
    return text[hdr[0]:hdr[1]], text[hdr[1]:i - 1]


# ----------------------------------------------------------------------------------------------- parser (AST)

class P:
    def __init__(self, toks):
        self.t, self.i = toks, 0

    def peek(self, k=0):
        return self.t[self.i + k] if self.i + k < len(self.t) else ("eof", None, None)

    def at(self, *ops):
        p = self.peek()
        return p[0] == "op" and p[1] in ops

    def atid(self, name=None):
        p = self.peek()
        return p[0] == "id" and (name is None or p[1] == name)

    def eat(self, v=None):
        p = self.peek()
        if v is not None and p[1] != v:
            raise TranslateError(f"expected {v!r}, got {p[1]!r} at token {self.i}")
        self.i += 1
        return p

    # --- types
    def ty(self):
        if self.at("&"):
            self.eat()
            if self.atid("mut"):
                self.eat()
            return self.ty()
        if self.at("["):
            self.eat(); e = self.ty()
            n = None
            if self.at(";"):
                self.eat(); n = self.expr()
            self.eat("]")
            return ("arr", e, n)
        name = self.eat()[1]
        while self.at("::"):
            self.eat(); name = self.eat()[1]
        return name

    # --- statements
    def block(self):
        stmts = []
        while self.peek()[0] != "eof" and not self.at("}"):
            if self.at(";"):
                self.eat(); continue
            if self.at("#"):              # attribute
                self.eat(); self.eat("["); d = 1
                while d:
                    t = self.eat()[1]; d += (t == "[") - (t == "]")
                continue
            if self.atid("fn") or (self.atid("const") and self.peek(1)[1] == "fn"):   # nested item: skipped (tied separately)
                while not self.at("{"):
                    self.eat()
                self.eat("{"); d = 1
                while d:
                    t = self.eat()[1]; d += (t == "{") - (t == "}")
                continue
            stmts.append(self.stmt())
        return stmts

    def pattern(self):
        if self.atid("mut"):
            self.eat(); return ("var", self.eat()[1])
        if self.at("("):
            self.eat(); items = []
            while not self.at(")"):
                items.append(self.pattern())
                if self.at(","):
                    self.eat()
            self.eat(")")
            return ("tuple", items)
        if self.at("["):
            self.eat(); items = []
            while not self.at("]"):
                items.append(self.pattern())
                if self.at(","):
                    self.eat()
            self.eat("]")
            return ("tuple", items)
        name = self.eat()[1]
        if self.at("("):                  # Fe([a, b, …])
            self.eat(); inner = self.pattern(); self.eat(")")
            return inner
        return ("var", name)

    def stmt(self):
        if self.atid("let"):
            self.eat()
            pat = self.pattern()
            ty = None
            if self.at(":"):
                self.eat(); ty = self.ty()
            init = None
            if self.at("="):
                self.eat(); init = self.expr()
            self.eat(";")
            return ("let", pat, ty, init)
        if self.atid("for"):
            self.eat(); var = self.eat()[1]; self.eat("in")
            lo = self.expr_nostruct();
            body_open = self.eat("{")
            body = self.block(); self.eat("}")
            return ("for", var, lo, body)
        if self.atid("return"):
            self.eat(); e = self.expr();
            if self.at(";"):
                self.eat()
            return ("ret", e)
        e = self.expr()
        if self.at("=", "+=", "-=", "*=", "&=", "|=", "^=", "<<=", ">>="):
            op = self.eat()[1]; rhs = self.expr(); self.eat(";")
            return ("assign", e, op, rhs)
        if self.at(";"):
            self.eat(); return ("expr", e)
        return ("ret", e)               # trailing expression

    # --- expressions (Rust precedence)
    BIN = [["||"], ["&&"], ["==", "!=", "<", ">", "<=", ">="], ["|"], ["^"], ["&"], ["<<", ">>"], ["+", "-"], ["*", "/", "%"]]

    def expr_nostruct(self):
        return self.expr()

    def expr(self, lvl=0):
        if lvl == 0 and (self.at("..") ):
            self.eat(); hi = self.expr(1); return ("range", None, hi)
        if lvl == len(self.BIN):
            return self.cast()
        left = self.expr(lvl + 1)
        while self.at(*self.BIN[lvl]):
            op = self.eat()[1]
            right = self.expr(lvl + 1)
            left = ("bin", op, left, right)
        if lvl == 0 and self.at("..", "..="):
            op = self.eat()[1]
            hi = None if self.at("]", ")", "{") else self.expr(1)
            left = ("range", left, hi, op)
        return left

    def cast(self):
        e = self.unary()
        while self.atid("as"):
            self.eat(); e = ("cast", e, self.ty())
        return e

    def unary(self):
        if self.at("-"):
            self.eat(); return ("neg", self.unary())
        if self.at("!"):
            self.eat(); return ("not", self.unary())
        if self.at("&"):
            self.eat()
            if self.atid("mut"):
                self.eat()
            return self.unary()
        if self.at("*"):
            self.eat(); return self.unary()
        return self.postfix()

    def postfix(self):
        e = self.atom()
        while True:
            if self.at("("):
                self.eat(); args = []
                while not self.at(")"):
                    args.append(self.expr())
                    if self.at(","):
                        self.eat()
                self.eat(")")
                e = ("call", e, args)
            elif self.at("["):
                self.eat(); ix = self.expr(); self.eat("]")
                e = ("index", e, ix)
            elif self.at("."):
                self.eat(); name = self.eat()
                if name[0] == "int":
                    e = ("field", e, str(name[1]))
                elif self.at("("):
                    self.eat(); args = []
                    while not self.at(")"):
                        args.append(self.expr())
                        if self.at(","):
                            self.eat()
                    self.eat(")")
                    e = ("method", e, name[1], args)
                else:
                    e = ("field", e, name[1])
            else:
                return e

    def atom(self):
        p = self.peek()
        if p[0] == "int":
            self.eat(); return ("lit", p[1], p[2])
        if self.at("("):
            self.eat(); e = self.expr()
            if self.at(","):
                items = [e]
                while self.at(","):
                    self.eat()
                    if self.at(")"):
                        break
                    items.append(self.expr())
                self.eat(")")
                return ("tuple", items)
            self.eat(")")
            return ("paren", e)
        if self.at("["):
            self.eat(); items = []
            while not self.at("]"):
                items.append(self.expr())
                if self.at(";"):
                    self.eat(); n = self.expr(); self.eat("]")
                    return ("repeat", items[0], n)
                if self.at(","):
                    self.eat()
            self.eat("]")
            return ("array", items)
        if self.atid("if"):
            self.eat(); c = self.expr(); self.eat("{"); a = self.block(); self.eat("}")
            b = None
            if self.atid("else"):
                self.eat(); self.eat("{"); b = self.block(); self.eat("}")
            return ("if", c, a, b)
        if p[0] == "id":
            self.eat(); name = p[1]
            while self.at("::"):
                self.eat(); name += "::" + self.eat()[1]
            return ("path", name)
        raise TranslateError(f"unexpected token {p} at {self.i}")


# ----------------------------------------------------------------------------------------------- translation

class Kernel:
    """spec of one kernel to translate

    file, fn, scope     where the Rust function is
    backend             "natlet" | "optchk"
    lean_name           generated def name
    params              Lean binder text, e.g. "(r h : L5) (m : Bytes) (hibit : Nat)"
    ret_type            Lean result type text
    env                 initial environment: rust expression text -> (lean text, rust type), e.g. {"self.r[0]": ("r.l0","u32")}
    consts              rust const name -> (lean text, type)
    calls               rust fn name -> (lean template with {0},{1}…, result type, checked?)   (pure helper calls)
    stores              rust lvalue text -> output slot name (for `self.h[0] = h0` style results)
    result              python function (outputs dict, ret value text) -> Lean result expression text
    skip_prefix         number of leading statements to skip (handled by the hand model separately), or a predicate
    """

    def __init__(self, **kw):
        self.file = kw["file"]; self.fn = kw["fn"]; self.scope = kw.get("scope")
        self.backend = kw.get("backend", "natlet"); self.lean_name = kw["lean_name"]
        self.params = kw["params"]; self.ret_type = kw["ret_type"]
        self.env = dict(kw.get("env", {})); self.consts = dict(kw.get("consts", {}))
        self.calls = dict(kw.get("calls", {})); self.stores = dict(kw.get("stores", {}))
        self.result = kw["result"]; self.stmt_filter = kw.get("stmt_filter")
        self.widths = kw.get("widths", {})   # optchk: width -> (add, sub, mul) function names
        self.doc = kw.get("doc", "")
        self.select = kw.get("select")       # optional: python function stmts -> stmts (e.g. body of the first `for`)
        self.agg_calls = dict(kw.get("agg_calls", {}))   # fn name -> (lean fn, field names of the returned aggregate, elem type, monadic?)
        self.agg_fields = kw.get("agg_fields", ["l0", "l1", "l2", "l3", "l4"])


def show(e):
    """canonical text of simple lvalue / env-key expressions"""
    k = e[0]
    if k == "path":
        return e[1]
    if k == "field":
        return show(e[1]) + "." + e[2]
    if k == "index":
        return show(e[1]) + "[" + show(e[2]) + "]"
    if k == "lit":
        return str(e[1])
    if k == "range":
        return (show(e[1]) if e[1] else "") + ".." + (show(e[2]) if e[2] else "")
    if k == "paren":
        return show(e[1])
    raise TranslateError(f"cannot show {e}")


def is_const_expr(e, consts):
    k = e[0]
    if k == "lit":
        return True
    if k == "paren":
        return is_const_expr(e[1], consts)
    if k == "path":
        return e[1].split("::")[-1] in consts
    if k == "bin" and e[1] in ("+", "-", "*", "<<", ">>"):
        return is_const_expr(e[2], consts) and is_const_expr(e[3], consts)
    return False


def const_text(e, consts):
    k = e[0]
    if k == "lit":
        return str(e[1])
    if k == "paren":
        return "(" + const_text(e[1], consts) + ")"
    if k == "path":
        return consts[e[1].split("::")[-1]][0]
    sym = {"+": "+", "-": "-", "*": "*", "<<": "<<<", ">>": ">>>"}[e[1]]
    return f"{const_text(e[2], consts)} {sym} {const_text(e[3], consts)}"


class Tr:
    def __init__(self, k: Kernel):
        self.k = k
        self.vars = {}            # rust var -> (lean name, type)
        self.lines = []
        self.counter = {}
        self.outputs = {}
        self.tmp = 0

    def fresh(self, base):
        n = self.counter.get(base, 0)
        self.counter[base] = n + 1
        return base if n == 0 else f"{base}_{n}"

    def emit_let(self, name, text):
        self.lines.append(f"  let {name} := {text}")

    def emit_bind(self, name, text):
        self.lines.append(f"  let {name} ← {text}")

    def bind_var(self, rust, text, ty, atomic=False):
        ln = self.fresh(rust)
        self.emit_let(ln, text)
        self.vars[rust] = (ln, ty)

    # ---- types
    @staticmethod
    def unify(a, b):
        if a is None:
            return b
        if b is None:
            return a
        if a != b:
            raise TranslateError(f"type mismatch {a} vs {b}")
        return a

    def width(self, ty):
        if ty not in INT_TYPES:
            raise TranslateError(f"unknown integer type {ty}")
        return INT_TYPES[ty]

    # ---- expressions: returns (lean text, type, atomic?)
    def ex(self, e, want=None):
        k = e[0]
        if k == "bin" and isinstance(self, OptChk) and is_const_expr(e, self.k.consts) and not (e[2][0] == "lit" and e[3][0] == "lit"):
            ty = want
            for sub in (e[2], e[3]):
                if sub[0] == "path":
                    ty = self.k.consts[sub[1].split("::")[-1]][1]
            return (const_text(e, self.k.consts), ty, False)
        if k == "lit":
            return (hex(e[1]) if e[1] > 9 and self.hexlit else str(e[1]), e[2] or want, True)
        if k == "paren":
            t, ty, _ = self.ex(e[1], want)
            return (t, ty, False if not _ else True)
        if k in ("path", "field", "index"):
            key = None
            try:
                key = show(e)
            except TranslateError:
                pass
            if key is not None and key in self.k.env:
                t, ty = self.k.env[key]
                return (t, ty, True)
            if k == "path":
                name = e[1]
                if name in self.vars:
                    ln, ty = self.vars[name]
                    return (ln, ty, True)
                base = name.split("::")[-1]
                if base in self.k.consts:
                    t, ty = self.k.consts[base]
                    return (t, ty, True)
                raise TranslateError(f"unknown identifier {name}")
            if k == "index":
                # array variable indexed by literal: model arrays as python-side tuples of vars
                base = show(e[1])
                if base in self.vars and isinstance(self.vars[base][0], list):
                    ix = e[2]
                    if ix[0] != "lit":
                        raise TranslateError("non-literal index")
                    ln, ty = self.vars[base][0][ix[1]], self.vars[base][1]
                    return (ln, ty, True)
            raise TranslateError(f"unknown place {key}")
        if k == "cast":
            t, ty, at = self.ex(e[1])
            to = e[2]
            if ty is None:
                return (t, to, at)
            return self.cast(t, ty, to, at)
        if k == "bin":
            return self.binop(e[1], e[2], e[3], want)
        if k == "not":
            t, ty, at = self.ex(e[1], want)
            return self.bnot(t, ty, at)
        if k == "call":
            fname = show(e[1]).split("::")[-1]
            if fname not in self.k.calls:
                raise TranslateError(f"unknown function {fname}")
            tmpl, rty, argtys = self.k.calls[fname]
            args = []
            for a, aty in zip(e[2], argtys + [None] * len(e[2])):
                if a[0] == "index" and a[2][0] == "range":       # &m[0..4]
                    args.append((show(a[1]), show(a[2][1]) if a[2][1] else "0", show(a[2][2]) if a[2][2] else ""))
                else:
                    t, ty, at = self.ex(a, aty)
                    args.append(self.par(t, at))
            flat = []
            for a in args:
                flat += list(a) if isinstance(a, tuple) else [a]
            return (tmpl.format(*flat), rty, False)
        if k == "method":
            return self.method(e[1], e[2], e[3], want)
        if k == "if":
            return self.ifexpr(e, want)
        raise TranslateError(f"unsupported expression {k}")

    hexlit = True

    @staticmethod
    def par(t, atomic):
        return t if atomic else f"({t})"

    def ifexpr(self, e, want):
        c = e[1]
        key = show(c) if c[0] in ("path", "field", "index") else None
        if key is None or key not in self.k.env:
            raise TranslateError("unsupported if condition")
        ct, _ = self.k.env[key]
        def val(blk):
            if len(blk) != 1 or blk[0][0] != "ret":
                raise TranslateError("unsupported if branch")
            return self.ex(blk[0][1], want)
        a = val(e[2]); b = val(e[3])
        ty = self.unify(a[1], b[1])
        return (f"if {ct} then {a[0]} else {b[0]}", ty, False)


class NatLet(Tr):
    """mathematical Nat values; explicit truncation only where Rust truncates"""

    def cast(self, t, ty, to, at):
        if to not in INT_TYPES:
            raise TranslateError(f"cast to {to}")
        if self.width(to) < self.width(ty):
            return (f"{self.par(t, at)} % 2 ^ {self.width(to)}", to, False)
        return (t, to, at)

    def bnot(self, t, ty, at):
        return (f"{self.par(t, at)} ^^^ {hex(2 ** self.width(ty) - 1)}", ty, False)

    def binop(self, op, l, r, want):
        if op in ("<<", ">>"):
            lt, lty, lat = self.ex(l, want)
            rt, _, rat = self.ex(r, None)
            if op == ">>":
                return (f"{self.par(lt, lat)} >>> {self.par(rt, rat)}", lty, False)
            if l[0] == "lit" and r[0] in ("lit",):
                return (f"{lt} <<< {rt}", lty, False)
            if lty is None:
                raise TranslateError("cannot type shl")
            return (f"({self.par(lt, lat)} <<< {self.par(rt, rat)}) % 2 ^ {self.width(lty)}", lty, False)
        lt, lty, lat = self.ex(l, want)
        rt, rty, rat = self.ex(r, lty or want)
        if lty is None and rty is not None:
            lt, lty, lat = self.ex(l, rty)
        ty = self.unify(lty, rty)
        sym = {"+": "+", "*": "*", "-": "-", "&": "&&&", "|": "|||", "^": "^^^"}.get(op)
        if sym is None:
            raise TranslateError(f"operator {op}")
        ltxt = lt if lat else f"({lt})"
        rtxt = rt if rat else f"({rt})"
        return (f"{ltxt} {sym} {rtxt}", ty, False)

    def method(self, recv, name, args, want):
        t, ty, at = self.ex(recv, want)
        if name in ("wrapping_add", "wrapping_sub", "wrapping_mul"):
            a, aty, aat = self.ex(args[0], ty)
            ty = self.unify(ty, aty)
            w = self.width(ty)
            if name == "wrapping_add":
                return (f"({self.par(t, at)} + {self.par(a, aat)}) % 2 ^ {w}", ty, False)
            if name == "wrapping_mul":
                return (f"({self.par(t, at)} * {self.par(a, aat)}) % 2 ^ {w}", ty, False)
            return (f"({self.par(t, at)} + (2 ^ {w} - {self.par(a, aat)})) % 2 ^ {w}", ty, False)
        if name == "wrapping_neg":
            w = self.width(ty)
            return (f"(2 ^ {w} - {self.par(t, at)}) % 2 ^ {w}", ty, False)
        raise TranslateError(f"method {name}")

    def assign_op(self, cur, ty, op, rhs):
        base = op[:-1]
        e = ("bin", base, ("path", cur), rhs)
        return self.ex(e, ty)


class OptChk(Tr):
    """three-address code in the Option monad; checked + - * become binds"""
    hexlit = False

    def atomize(self, t, ty, at, hint="t"):
        if at:
            return t
        n = self.fresh(hint)
        self.emit_let(n, t)
        return n

    def cast(self, t, ty, to, at):
        if self.width(to) < self.width(ty):
            return (f"{self.par(t, at)} % 2^{self.width(to)}", to, False)
        return (t, to, at)

    def bnot(self, t, ty, at):
        return (f"{self.par(t, at)} ^^^ {2 ** self.width(ty) - 1}", ty, False)

    def binop(self, op, l, r, want):
        if op in ("<<", ">>"):
            lt, lty, lat = self.ex(l, want)
            rt, _, rat = self.ex(r, None)
            if op == ">>":
                return (f"{self.par(lt, lat)} >>> {self.par(rt, rat)}", lty, False)
            return (f"({self.par(lt, lat)} <<< {self.par(rt, rat)}) % 2^{self.width(lty)}", lty, False)
        lt, lty, lat = self.ex(l, want)
        rt, rty, rat = self.ex(r, lty or want)
        if lty is None and rty is not None:
            lt, lty, lat = self.ex(l, rty)
        ty = self.unify(lty, rty)
        if op in ("+", "-", "*"):
            w = self.width(ty)
            fn = self.k.widths[w][{"+": 0, "-": 1, "*": 2}[op]]
            la = self.par(lt, lat); ra = self.par(rt, rat)
            n = self.fresh(self.hint or "a")
            self.emit_bind(n, f"{fn} {la} {ra}")
            return (n, ty, True)
        sym = {"&": "&&&", "|": "|||", "^": "^^^"}[op]
        return (f"{self.par(lt, lat)} {sym} {self.par(rt, rat)}", ty, False)

    hint = None

    def method(self, recv, name, args, want):
        t, ty, at = self.ex(recv, want)
        if name in ("wrapping_add", "wrapping_sub", "wrapping_mul"):
            a, aty, aat = self.ex(args[0], ty)
            ty = self.unify(ty, aty)
            w = self.width(ty)
            if name == "wrapping_add":
                return (f"({self.par(t, at)} + {self.par(a, aat)}) % 2^{w}", ty, False)
            if name == "wrapping_mul":
                return (f"({self.par(t, at)} * {self.par(a, aat)}) % 2^{w}", ty, False)
            return (f"({self.par(t, at)} + (2^{w} - {self.par(a, aat)})) % 2^{w}", ty, False)
        raise TranslateError(f"method {name}")

    def assign_op(self, cur, ty, op, rhs):
        e = ("bin", op[:-1], ("path", cur), rhs)
        return self.ex(e, ty)


class CkSum(OptChk):
    """style of Impl/Scalar64.lean: a left-nested chain of checked `+` is ONE overflow check `← ckN (a + b + …)` (partial sums of
    naturals overflow iff the total does); helper functions for the truncating operators: shr64/shl64/asU64/wsub64/wadd64"""

    def cast(self, t, ty, to, at):
        if self.width(to) < self.width(ty):
            return (f"asU{self.width(to)} {self.par(t, at)}", to, False)
        return (t, to, at)

    def bnot(self, t, ty, at):
        return (f"{self.par(t, at)} ^^^ {2 ** self.width(ty) - 1}", ty, False)

    def flatten_add(self, e):
        if e[0] == "bin" and e[1] == "+":
            return self.flatten_add(e[2]) + [e[3]]
        return [e]

    def binop(self, op, l, r, want):
        if op in ("<<", ">>"):
            lt, lty, lat = self.ex(l, want)
            rt, _, rat = self.ex(r, None)
            w = self.width(lty)
            fn = ("shr" if op == ">>" else "shl") + str(w)
            return (f"{fn} {self.par(lt, lat)} {self.par(rt, rat)}", lty, False)
        if op == "+":
            terms = self.flatten_add(("bin", op, l, r))
            texts, ty = [], want
            for t_ in terms:
                hint, self.hint = self.hint, None
                tt, tty, tat = self.ex(t_, ty)
                self.hint = hint
                ty = self.unify(ty, tty) if tty else ty
                texts.append(tt if tat or self.is_app(tt) else f"({tt})")
            w = self.width(ty)
            n = self.fresh(self.hint or "a")
            self.emit_bind(n, f"ck{w} (" + " + ".join(texts) + ")")
            return (n, ty, True)
        if op == "*":
            lt, lty, lat = self.ex(l, want)
            rt, rty, rat = self.ex(r, lty or want)
            ty = self.unify(lty, rty)
            n = self.fresh(self.hint or "a")
            self.emit_bind(n, f"ck{self.width(ty)} ({self.par(lt, lat)} * {self.par(rt, rat)})")
            return (n, ty, True)
        if op == "==":
            lt, lty, lat = self.ex(l, want)
            rt, rty, rat = self.ex(r, lty)
            return (f"{self.par(lt, lat)} == {self.par(rt, rat)}", "bool", False)
        lt, lty, lat = self.ex(l, want)
        rt, rty, rat = self.ex(r, lty or want)
        if lty is None and rty is not None:
            lt, lty, lat = self.ex(l, rty)
        ty = self.unify(lty, rty)
        sym = {"&": "&&&", "|": "|||", "^": "^^^"}[op]
        lp = lt if (lat or self.is_app(lt) or (l[0] == "bin" and l[1] == op)) else f"({lt})"
        rp = rt if (rat or self.is_app(rt)) else f"({rt})"
        return (f"{lp} {sym} {rp}", ty, False)

    @staticmethod
    def is_app(t):
        """function application `f a b` binds tighter than any infix operator"""
        return bool(re.fullmatch(r"[A-Za-z_][\w.]*( (\([^()]*\)|[\w.]+))+", t))

    def method(self, recv, name, args, want):
        t, ty, at = self.ex(recv, want)
        if name in ("wrapping_add", "wrapping_sub"):
            a, aty, aat = self.ex(args[0], ty)
            ty = self.unify(ty, aty)
            fn = ("wadd" if name == "wrapping_add" else "wsub") + str(self.width(ty))
            return (f"{fn} {self.par(t, at)} {self.par(a, aat)}", ty, False)
        raise TranslateError(f"method {name}")


def translate(k: Kernel):
    path = os.path.join(REPO, k.file)
    src = open(path).read()
    _, body = find_fn(src, k.fn, k.scope)
    stmts = P(lex(body)).block()
    if k.select:
        stmts = k.select(stmts)
    tr = NatLet(k) if k.backend == "natlet" else (CkSum(k) if k.backend == "cksum" else OptChk(k))
    for key, (val, ty) in k.env.items():
        if isinstance(val, list) and re.fullmatch(r"[A-Za-z_]\w*", key) and key not in ("self", "rhs"):
            tr.vars[key] = (list(val), ty)
    ret = None
    for idx, s in enumerate(stmts):
        if k.stmt_filter and not k.stmt_filter(idx, s):
            continue
        kind = s[0]
        if kind == "let":
            pat, ty, init = s[1], s[2], s[3]
            if pat[0] == "tuple":
                # destructuring of a known aggregate: `let Fe([f0, …]) = *self;`
                key = show(init) if init[0] in ("path", "field", "index") else None
                if key is None or key not in k.env or not isinstance(k.env[key][0], list):
                    raise TranslateError(f"unsupported destructuring of {init}")
                texts, ety = k.env[key]
                flat = pat[1]
                while len(flat) == 1 and flat[0][0] == "tuple":
                    flat = flat[0][1]
                if len(flat) != len(texts):
                    raise TranslateError("destructuring arity")
                for p_, t_ in zip(flat, texts):
                    tr.vars[p_[1]] = (t_, ety)
                continue
            name = pat[1]
            if init is None:
                tr.vars[name] = (None, ty)
                continue
            ikey = None
            if init[0] in ("path", "field", "index"):
                try:
                    ikey = show(init)
                except TranslateError:
                    ikey = None
            if ikey is not None and ikey in k.env and isinstance(k.env[ikey][0], list):
                tr.vars[name] = (list(k.env[ikey][0]), k.env[ikey][1])
                continue
            if ikey is not None and ikey in tr.vars and isinstance(tr.vars[ikey][0], list):
                tr.vars[name] = (list(tr.vars[ikey][0]), tr.vars[ikey][1])
                continue
            if init[0] == "repeat" and init[2][0] == "lit":
                et, ety, _ = tr.ex(init[1], ty[1] if isinstance(ty, tuple) else None)
                tr.vars[name] = ([et] * init[2][1], ety or (ty[1] if isinstance(ty, tuple) else None))
                continue
            if init[0] == "call" and show(init[1]).split("::")[-1] in k.agg_calls:
                fname = show(init[1]).split("::")[-1]
                lean_fn, fields, ety, monadic = k.agg_calls[fname]
                args = []
                for a in init[2]:
                    akey = show(a) if a[0] in ("path", "field", "index") else None
                    if akey in tr.vars and isinstance(tr.vars[akey][0], list):
                        args.append("⟨" + ", ".join(tr.vars[akey][0]) + "⟩")
                    else:
                        t_, _, at_ = tr.ex(a)
                        args.append(tr.par(t_, at_))
                ln = tr.fresh(name)
                if monadic:
                    tr.emit_bind(ln, f"{lean_fn} " + " ".join(args))
                else:
                    tr.emit_let(ln, f"{lean_fn} " + " ".join(args))
                tr.vars[name] = ([f"{ln}.{f}" for f in fields], ety)
                continue
            if isinstance(tr, OptChk):
                tr.hint = name
            t, ety, at = tr.ex(init, ty)
            if isinstance(tr, OptChk):
                tr.hint = None
            ety = ty or ety
            if at and isinstance(tr, OptChk) and t in [v[0] for v in tr.vars.values()] + list(tr.counter):
                # a bind already produced the variable under (possibly) another name: alias
                tr.vars[name] = (t, ety)
            else:
                tr.bind_var(name, t, ety)
        elif kind == "assign":
            lhs, op, rhs = s[1], s[2], s[3]
            try:
                key = show(lhs)
            except TranslateError:
                key = None
            if key in k.stores and k.stores[key].startswith("_"):
                continue
            if key in k.stores:
                if op != "=":
                    raise TranslateError("compound store")
                t, ty, at = tr.ex(rhs)
                tr.outputs[k.stores[key]] = t if at else f"({t})"
                continue
            if lhs[0] == "index" and lhs[2][0] == "lit":
                base = None
                try:
                    base = show(lhs[1])
                except TranslateError:
                    pass
                if base in tr.vars and isinstance(tr.vars[base][0], list):
                    elems, ety = tr.vars[base]
                    ix = lhs[2][1]
                    cur = elems[ix]
                    tmpname = f"{base}{ix}"
                    tr.vars[tmpname] = (cur, ety)
                    if isinstance(tr, OptChk):
                        tr.hint = tmpname
                    if op == "=":
                        t, _, at = tr.ex(rhs, ety)
                    else:
                        t, _, at = tr.assign_op(tmpname, ety, op, rhs)
                    if isinstance(tr, OptChk):
                        tr.hint = None
                    if not at:
                        ln = tr.fresh(tmpname)
                        tr.emit_let(ln, t)
                        t = ln
                    elems = list(elems)
                    elems[ix] = t
                    tr.vars[base] = (elems, ety)
                    del tr.vars[tmpname]
                    continue
            if lhs[0] != "path" or lhs[1] not in tr.vars:
                raise TranslateError(f"assignment to unknown place {key}")
            name = lhs[1]
            cur, ty = tr.vars[name]
            if isinstance(tr, OptChk):
                tr.hint = name
            if op == "=":
                t, ety, at = tr.ex(rhs, ty)
            else:
                t, ety, at = tr.assign_op(name, ty, op, rhs)
            if isinstance(tr, OptChk):
                tr.hint = None
            if at and isinstance(tr, OptChk):
                tr.vars[name] = (t, ty or ety)
            else:
                tr.bind_var(name, t, ty or ety)
        elif kind == "ret":
            ret = s[1]
        elif kind == "expr":
            raise TranslateError(f"unsupported expression statement {s[1][0]}")
        else:
            raise TranslateError(f"unsupported statement {kind}")
    res = k.result(tr, ret)
    monadic = k.backend in ("optchk", "cksum")
    final = (res if res.startswith("  ") else f"  pure {res}") if monadic else f"  {res}"
    return (f"/-- {k.doc} — GENERATED from `fn {k.fn}` in {k.file} -/\n"
            f"def {k.lean_name} {k.params} : {k.ret_type} :={' do' if monadic else ''}\n"
            + "\n".join(tr.lines) + "\n" + final + "\n")


def generate_all():
    """translate every kernel registered in tools/kernels/*.py; returns (files dict, errors list)"""
    import importlib
    import pkgutil
    import sys
    here = os.path.dirname(os.path.abspath(__file__))
    sys.path.insert(0, here)
    files, errors, n = {}, [], 0
    for m in sorted(pkgutil.iter_modules([os.path.join(here, "kernels")])):
        mod = importlib.import_module("kernels." + m.name)
        parts = []
        # a kernel module may bring its own translator (`TRANSLATE(k) -> Lean text`), e.g. tools/ktx_words.py
        tr_fn = getattr(mod, "TRANSLATE", translate)
        for k in mod.KERNELS:
            try:
                parts.append(tr_fn(k))
                n += 1
            except (TranslateError, KeyError, IndexError, ValueError, TypeError, AttributeError, AssertionError) as e:
                errors.append({"table": f"{mod.LEAN_FILE}.{k.lean_name}", "error": f"kernel translation failed: {e}"[:300]})
                # keep the project buildable; the tie theorem about this definition then fails
                parts.append(f"/-- TRANSLATION FAILED: {str(e)[:200]} -/\ndef {k.lean_name} {k.params} : Option Unit := none\n")
        files[mod.LEAN_FILE] = ("-- GENERATED by tools/kernel_translate.py from /repo/src on every run. Do not edit.\n"
                                + mod.HEADER + "\n" + "\n".join(parts) + "\n" + mod.FOOTER)
    return files, errors, n
