"""Claims registered in MANIFEST.json (edit here, then run tools/gen_manifest.py)."""
HOOK_COMMITS = ["d84e864", "ee294ac", "ebadae1", "b32c974"]

CLAIMS = {
    "C18": {
        "text": "Complete kernel-checked proof, for all operands and all array lengths, that every predicate/selector of "
                "constant_time.rs (model Impl/ConstantTime.lean) returns the ordinary answer (58 theorems in Props/C18.lean, "
                "axioms propext/Quot.sound/Classical.choice only); the model is tied to the code on every run by executing "
                "~45k (quick) / ~170k (thorough) directed cases on the real crate, the Lean model and the plain specification.",
        "note": "trusted: Lean kernel; hand model of constant_time.rs validated by the correspondence run (all byte pairs in the "
                "thorough tier, boundary set squared, every single-position difference for lengths 0..=40); the i16/i8 borrow "
                "chain is modelled in Int with a proved range lemma; [i32;N] modelled on u32 bit patterns.",
        "technique": "Lean 4 theorem proving (bit-vector/omega proofs, induction over lists) + differential correspondence",
        "design_ref": "DESIGN.md 6/C18",
    },
}

_todo = "check under construction in this session (model/theorems not yet committed); will be claimed when its Props file builds"
NOT_YET = {f"C{i:02d}": _todo for i in range(1, 21) if f"C{i:02d}" not in CLAIMS}
