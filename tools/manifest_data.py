"""Claims registered in MANIFEST.json (edit here, then run tools/gen_manifest.py).
A property is claimed as soon as its Props modules (tools/units.py) contain proved theorems and its
correspondence runs green; until then it is listed under not_applicable with the reason `in progress`."""
import os
import sys
sys.path.insert(0, os.path.dirname(os.path.abspath(__file__)))
from units import UNITS

HOOK_COMMITS = ["d84e864", "ee294ac", "ebadae1", "b32c974", "85cf3d4", "1f5e2dd"]

COMMON_NOTE = ("Trusted: Lean 4.33 kernel (axioms propext, Classical.choice, Quot.sound only; audited per theorem on every run), the hand-written "
               "Lean models (tied to /repo on every run by re-extracted tables + the differential correspondence harness), tools/*.py, harness/, "
               "rustc. See DESIGN.md section 3 and the per-run evidence (theorems, axioms_by_theorem, input_distribution).")
T = "Lean 4 theorem proving (induction / refinement / omega+ring carry-chain arithmetic / kernel-decided complete tables) + tables re-extracted from source + differential correspondence (code vs Impl model vs Spec)"

TEXT = {
    "C01": "Theorems: FixedBuffer/standard-padding refinement and `Impl one-shot = Spec` for all messages (SHA-224/256 len<2^61, SHA-384/512/t len<2^125, SHA-1, RIPEMD-160, SHA-3/Keccak sponge, BLAKE2b/s for every outlen/key), compression-function equivalences (SHA-256 unrolled, SHA-512 pair lanes, SHA-1 SHA-NI emulation, RIPEMD-160 schedule, Keccak-f compact form), kernel-decided table theorems on constants re-extracted from /repo/src each run; correspondence over every length 0..=4 blocks+1 for all variants.",
    "C02": "Refinement theorems: every context family refines the abstract state `bytes since last reset` for every finite op history (update, update_mut, clone, swap, reset, reset_with_key, finalize_reset, finalize), split independence, reset = new as state equality; correspondence over exhaustive histories to depth 3/4 and random histories.",
    "C03": "Theorems for both engine models (portable, SSE2 rows): state layout for every key/nonce length, rounds = standard double rounds, update = block(counter) then +1, 32-bit wrap and 64-bit carry for all counter values, process = data xor Spec keystream at the absolute position for all five variants, HChaCha/HSalsa; correspondence incl. counters preset next to 2^32-1 / 2^64-1 through hooks.",
    "C04": "Refinement of every cipher context to `absolute stream position` for every history of {process, process_mut, seek, clone}; partition independence, involution, seek from mid-block; DRG request sequences = successive keystream bytes independent of sizing and of prior buffer contents (false before fix 1b3253e: witness kept).",
    "C05": "Complete limb-level proof of Poly1305 (clamp/split, block invariant without u32/u64 overflow, finish incl. accumulators in [p,2^130), staging for every chunking) = RFC 8439 on Nat for all keys and messages; correspondence with model-guided wrap-around inputs.",
    "C06": "AEAD = RFC 8439 construction for any partition of add_data/encrypt/decrypt calls (MAC-input bookkeeping by induction over the call history), one-shot = streamed = Spec, decrypt inverts encrypt.",
    "C07": "Decision theorem: decryption accepts iff the tag equals the RFC 8439 tag of exactly those inputs (using the C18 array-equality theorem), injectivity of the MAC-input encoding; every tag bit flip rejected; ct/aad/key/nonce flips hold up to a Poly1305 collision (sampled, stated limit).",
    "C08": "HMAC = RFC 2104 generically over a digest-object contract, for every key length and chunking; block-size/output-size table theorem on values re-extracted from the source.",
    "C09": "Bisimulation of MAC / legacy digest objects with the abstract object (key, bytes since reset, finished?): every returned value is the MAC/digest of the bytes since the last reset or a panic; reset re-keys (false before fixes 802db65/c8ec1e5: witnesses kept).",
    "C10": "HKDF/PBKDF2/scrypt = RFC 5869/8018/7914 generically in the PRF (U_1 xor … xor U_c by induction, partial last block, BlockMix/ROMix/integerify, parameter validation, refusal beyond 255*HashLen).",
    "C11": "Argon2 component theorems (H', geometry, addressing, index_alpha without overflow, G/P/GB, version-dependent XOR) and their assembly as far as proved (`_partial` where not); Spec written from RFC 9106 and validated by its vectors.",
    "C12": "Fe64 refinement library (no u64/u128 overflow, invariants, value mod p for every operator, canonical to_bytes, addition chains) and `curve25519 n u = RFC 7748 X25519` for all scalars and u-coordinates; primality of p as explicit hypothesis where inversion is interpreted.",
    "C13": "keypair/signature/signature_extended/extended_to_public/exchange = RFC 8032 Spec by composition of SHA-512, clamp, wide reduction, muladd and fixed-base multiplication; comb = [a]B under the explicit Edwards group-law hypothesis (`_partial`).",
    "C14": "verify accepts iff (A decodes, A != 0^32, S < L, enc([S]B-[h]A) = R); slide recoding and BI table theorems; double-scalar part under the explicit group-law hypothesis (`_partial`).",
    "C15": "Field, scalar (Barrett reduction = mod L for all 512-bit inputs, canonical decoder accepts exactly < L) and group layers; kernel-decided table theorem: all 264 precomputed entries are the multiples of B they stand for; encode/decode round trip (false before fix f886003).",
    "C16": "Lane-algebra theorems: SSE2-row ChaCha = portable rounds/init/counters for every state and R (more SIMD models as they land); the same workload through {baseline,+sse4.1,+avx,+avx2} harness binaries must equal the model. Partial: instruction selection is observed, not proved.",
    "C17": "Both scalar-canonicity tests refine le(s) < L; C12-C15 workloads through default and force-32bits binaries compared with each other and the Spec; the feature build compiling is checked. Partial: fe32 mul/square and scalar32 reduction are covered by correspondence only.",
    "C18": "Complete kernel-checked proof, for all operands and array lengths, that every predicate/selector of constant_time.rs returns the ordinary answer (58 theorems); ~55k (quick) directed correspondence cases incl. cancellation patterns.",
    "C19": "Leakage-trace theorems on instrumented models (array equality/ordering, masked swap, table selection, scalar loops: trace is a function of public data; negative controls leak) + dynamic check: PC traces of the optimised binary (valgrind lackey, ptrace cross-check) identical for all sampled secrets. Partial: the compiler's output is observed, not proved.",
    "C20": "Overflow-freedom and counter theorems (BLAKE2 two-word counter = 64/128-bit counter for all values, checked build refines wrapping build, Poly1305/Fe64/Scalar64 no-overflow obligations) + refusal predicates; workloads and hook-preset counters through debug / release+checks / release binaries must agree with the model incl. PANIC verdicts. Partial: memory safety of unsafe code is observed (thorough: Miri subset), not proved.",
}

CLAIMS, NOT_YET = {}, {}
for i in range(1, 21):
    pid = f"C{i:02d}"
    sys.path.insert(0, os.path.dirname(os.path.abspath(__file__)))
    from props import _auto
    mods = _auto.lean_modules(pid)
    if mods:
        CLAIMS[pid] = {"text": TEXT[pid] + " Lean modules: " + ", ".join(mods) + ".", "note": COMMON_NOTE, "technique": T,
                       "design_ref": f"DESIGN.md 6/{pid}"}
    else:
        NOT_YET[pid] = "in progress in this session: models and correspondence run, the Props modules with the theorems are not integrated yet; will be claimed when they build"
