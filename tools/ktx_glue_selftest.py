#!/usr/bin/env python3
r"""ktx_glue_selftest — acceptance test of the glue translators (tools/ktx_glue*.py) after audit 3.

    python3 tools/ktx_glue_selftest.py            all three parts; exit 0 / 1
    python3 tools/ktx_glue_selftest.py --fast     parts 1a, 2, 3 only (no lake build, no run_check)
    python3 tools/ktx_glue_selftest.py NAME…      only the named mutations of part 2/3

 1. NO REGRESSION   (a) the glue files translated in-process from the CURRENT /repo (`CX_REPO`) are byte-identical to
                    lean/CxVerif/Extracted/Glue*.lean, 0 extraction errors, and every generated `*_loop*_src` / `*_while*_src` /
                    fuel-driven definition returns a FAILURE (never a success value) when the fuel runs out (F11);
                    (b) `lake build` of the whole project; (c) `run_check.py --tier quick` for C01 C02 C04 C05 C09 C10 C11 C15 C20.
 2. ADVERSARIAL     textual mutations of a SCRATCH COPY of /repo/src under $TMPDIR (never /repo; nothing is written below lean/): each must
                    raise TranslateError (`error`: an extraction error on a Glue* definition) or change a generated Glue* definition
                    (`changed`); `UNCHANGED(bad)` fails the test.  The mutations are the demonstrations of the audit (findings F3–F9, F11).
 3. HARMLESS        comment / whitespace-only mutations: byte-identical output, no error.

The translation of one source tree = `kernel_translate.generate_all()` in a fresh subprocess with CX_REPO pointing at the tree (so that no
module-level cache of a translator survives from one tree to the next); only its return value is used.
"""
import json
import os
import re
import shutil
import subprocess
import sys
import tempfile
import time
from concurrent.futures import ThreadPoolExecutor

V = os.path.dirname(os.path.dirname(os.path.abspath(__file__)))
TOOLS = os.path.join(V, "tools")
REPO = os.environ.get("CX_REPO", "/repo")
PROPS = ["C01", "C02", "C04", "C05", "C09", "C10", "C11", "C15", "C20"]

GEN = r"""
import json, sys, os
sys.path.insert(0, %r)
import kernel_translate
files, errors, n = kernel_translate.generate_all()
json.dump({"files": {k: v for k, v in files.items() if k.startswith("Glue")},
           "errors": [e for e in errors if e["table"].startswith("Glue")], "n": n}, sys.stdout)
""" % TOOLS


def generate(repo):
    """{"files": {GlueX: text}, "errors": [...]} of the tree `repo` (contains src/ and Cargo.toml)"""
    env = dict(os.environ); env["CX_REPO"] = repo
    p = subprocess.run([sys.executable, "-c", GEN], env=env, stdout=subprocess.PIPE, stderr=subprocess.PIPE, text=True, cwd=V)
    if p.returncode != 0:
        raise RuntimeError(f"generate_all crashed on {repo}:\n{p.stderr[-3000:]}")
    return json.loads(p.stdout)


# ------------------------------------------------------------------------------------------------ mutations
CU, MOD = "src/cryptoutil.rs", "src/hashing/sha2/mod.rs"
P1305, HKDF, PBKDF2, SCRYPT, ARGON2 = "src/poly1305.rs", "src/hkdf.rs", "src/pbkdf2.rs", "src/scrypt.rs", "src/kdf/argon2.rs"
GE, ED = "src/curve25519/ge.rs", "src/ed25519.rs"

# name -> (finding, [(file, old, new), …])   — `old` must occur in the file; only the first occurrence is replaced
MUT = {}


def mut(name, finding, file, old, new, *more):
    """one replacement (file, old, new), optionally followed by more triples"""
    assert name not in MUT, name
    assert len(more) % 3 == 0
    MUT[name] = (finding, [(file, old, new)] + [tuple(more[i:i + 3]) for i in range(0, len(more), 3)])


# ---- F5: inner-block `let` shadowing an outer variable
mut("f5_md_zero_until_inner_let", "F5", CU, "        zero(&mut self.buffer[self.buffer_idx..idx]);\n        self.buffer_idx = idx;",
    "        { let idx = 3usize; zero(&mut self.buffer[self.buffer_idx..idx]); }\n        self.buffer_idx = idx;")
mut("f5_md_input_branch_let", "F5", CU, "                i += buffer_remaining;\n            } else {", "                let i = 99usize;\n                self.buffer_idx = i;\n            } else {")
mut("f5_md_input_plain_block", "F5", CU, "let remaining = input.len() - i;", "let remaining = input.len() - i; { let i = 5usize; self.buffer_idx = i; }")
mut("f5_md_input_joined_if", "F5", CU, "let remaining = input.len() - i;", "let remaining = input.len() - i; if remaining == 9 { let i = 5usize; self.buffer_idx = i; }")

# ---- F8: evaluation order and effects (ktx_glue.py)
mut("f8_md_effectful_return", "F8", CU, "    pub fn reset(&mut self) {\n        self.buffer_idx = 0;\n    }",
    "    pub fn reset(&mut self) {\n        self.buffer_idx = self.bump();\n    }\n    fn bump(&mut self) -> usize { self.buffer_idx += 1; self.buffer_idx }\n    fn bump2(&mut self) -> usize { self.bump() }")
mut("f8_md_inclusive_range_value", "F8", CU, "func(&input[i..i + block_bytes]);", "func(&input[i..=i + block_bytes]);")
mut("f8_md_unused_mut_borrow", "F8", CU, "        assert!(idx >= self.buffer_idx);\n        zero(", "        assert!(idx >= self.buffer_idx);\n        let _w = &mut self.buffer[2..1000];\n        zero(")
mut("f8_md_shortcircuit_fallible", "F8", CU, "if input.len() >= buffer_remaining {", "if input.len() >= buffer_remaining && input[7] == 1 {")

# ---- F9: integer semantics
mut("f9_md_div_zero", "F9", CU, "let block_bytes = (remaining / N) * N;", "let block_bytes = (remaining / (N - N)) * N;")
mut("f9_md_mod_var", "F9", CU, "let block_bytes = (remaining / N) * N;", "let block_bytes = remaining - (remaining % self.buffer_idx);")
mut("f9_md_shift_unbounded", "F9", CU, "let block_bytes = (remaining / N) * N;", "let block_bytes = (remaining >> 70) << 70;")
mut("f9_md_untyped_literal_cast", "F9", MOD, "self.processed_bytes += input.len() as u64;", "let z = 0; self.processed_bytes += (input.len() as u64) + (z as u64);")

# ---- F4: cfg, bounded scope, unique match
mut("f4_md_cfg_stmt", "F4", CU, "let input_remaining = input.len() - i;", "#[cfg(debug_assertions)]\n        { i = 0; }\n        let input_remaining = input.len() - i;")
mut("f4_md_cfg_dup_impl_first", "F4", CU, "impl<const N: usize> FixedBuffer<N> {\n    /// Create a new buffer",
    "#[cfg(target_pointer_width = \"16\")]\nimpl<const N: usize> FixedBuffer<N> {\n    pub fn reset(&mut self) { self.buffer_idx = 0; }\n}\n#[cfg(not(target_pointer_width = \"16\"))]\nimpl<const N: usize> FixedBuffer<N> {\n    /// Create a new buffer",
    CU, "    pub fn reset(&mut self) {\n        self.buffer_idx = 0;\n    }", "    pub fn reset(&mut self) {\n        self.buffer_idx = 1;\n    }")
mut("f4_md_cfg_dup_fn_first", "F4", CU, "    pub fn reset(&mut self) {\n        self.buffer_idx = 0;\n    }",
    "    #[cfg(feature = \"force-32bits\")]\n    pub fn reset(&mut self) {\n        self.buffer_idx = 0;\n    }\n    #[cfg(not(feature = \"force-32bits\"))]\n    pub fn reset(&mut self) {\n        self.buffer_idx = 1;\n    }")
mut("f4_md_scope_escape", "F4", MOD, "    fn input(&mut self, input: &[u8]) {\n        self.processed_bytes += input.len() as u128;",
    "    fn input_renamed(&mut self, input: &[u8]) {\n        self.processed_bytes += input.len() as u128;")
mut("f4_md_cfg_feature_default_on", "F4", CU, "    pub fn reset(&mut self) {\n        self.buffer_idx = 0;\n    }",
    "    #[cfg(feature = \"sha2\")]\n    pub fn reset(&mut self) {\n        self.buffer_idx = 1;\n    }\n    #[cfg(not(feature = \"sha2\"))]\n    pub fn reset(&mut self) {\n        self.buffer_idx = 0;\n    }")

# ---- F6: nested fn items / use renames
mut("f6_md_nested_fn", "F6", CU, "        assert!(idx >= self.buffer_idx);\n        zero(", "        fn zero(_d: &mut [u8]) {}\n        assert!(idx >= self.buffer_idx);\n        zero(")

# ---- F3: debug_assert vs assert
mut("f3_md_debug_assert", "F3", MOD, "assert!(!self.finished);", "debug_assert!(!self.finished);")

# ---- F7: &mut aliases
mut("f7_md_alias_rebind", "F7", CU, "        zero(&mut self.buffer[self.buffer_idx..idx]);", "        let mut b = &mut self.buffer[self.buffer_idx..idx];\n        b = &mut b[1..];\n        zero(b);")

# ---- the same holes in the MAC / KDF translators (ktx_glue_mac.py, ktx_glue_kdf.py)
mut("f7_kdf_pbkdf2_alias_tail", "F7", PBKDF2, "            chunk[0..chunk_len].copy_from_slice(&tmp[..chunk_len]);\n        }\n    }\n}",
    "            chunk[0..chunk_len].copy_from_slice(&tmp[..chunk_len]);\n        }\n    }\n    let o2 = &mut *output;\n    if o2.len() > 0 {\n        o2[0] = 0;\n    }\n}")
mut("f7_kdf_hkdf_alias_arg", "F7", HKDF, "        mac.raw_result(&mut t);", "        let t2 = &mut t;\n        mac.raw_result(t2);")
mut("f7_kdf_move_of_mut_param", "F7", HKDF, "    mac.raw_result(prk);\n    mac.reset();\n}", "    mac.raw_result(prk);\n    mac.reset();\n    let q = prk;\n    q[0] = 0;\n}")
mut("f4_mac_output_bytes_next_impl", "F4", P1305, "    fn output_bytes(&self) -> usize {\n        16\n    }\n}", "}\nimpl Other { fn output_bytes(&self) -> usize {\n        17\n    }\n}")
mut("f4_mac_cfg_dup_fn_first", "F4", P1305, "    fn output_bytes(&self) -> usize {\n        16\n    }",
    "    #[cfg(target_endian = \"big\")]\n    fn output_bytes(&self) -> usize {\n        16\n    }\n    #[cfg(not(target_endian = \"big\"))]\n    fn output_bytes(&self) -> usize {\n        17\n    }")
mut("f4_mac_cfg_stmt", "F4", P1305, "self.leftover = m.len();", "#[cfg(debug_assertions)]\n self.leftover = m.len();")
mut("f4_kdf_cfg_dup_impl_first", "F4", ARGON2, "impl Memory {\n    /// number of elements per row (length of a lane)",
    "#[cfg(target_pointer_width = \"16\")]\nimpl Memory {\n    fn stride(&self) -> u32 { self.lane_length }\n}\n#[cfg(not(target_pointer_width = \"16\"))]\nimpl Memory {\n    /// number of elements per row (length of a lane)",
    ARGON2, "    fn stride(&self) -> u32 {\n        self.lane_length\n    }", "    fn stride(&self) -> u32 {\n        self.lane_length + 1\n    }")
mut("f4_kdf_cfg_impl_dead", "F4", ARGON2, "impl Memory {\n    /// number of elements per row (length of a lane)", "#[cfg(target_endian = \"big\")]\nimpl Memory {\n    /// number of elements per row (length of a lane)")
mut("f4_kdf_cfg_const_first_dead", "F4", ARGON2, "const SYNC_POINTS: u32 = 4;", "#[cfg(target_pointer_width = \"16\")]\nconst SYNC_POINTS: u32 = 4;\n#[cfg(not(target_pointer_width = \"16\"))]\nconst SYNC_POINTS: u32 = 8;")
mut("f4_kdf_cfg_fn_unknown_key", "F4", HKDF, "pub fn hkdf_expand<D: Digest>(", "#[cfg(debug_assertions)]\npub fn hkdf_expand<D: Digest>(")
mut("f4_kdf_same_name_in_mod_before", "F4", HKDF, "/// Execute the HKDF-Extract function.", "mod shadow { pub fn hkdf_expand(x: u8) -> u8 { x } }\n/// Execute the HKDF-Extract function.")
mut("f4_kdf_cfg_stmt", "F4", HKDF, "        let nbuf = [n];", "        #[cfg(debug_assertions)]\n        let nbuf = [n];")
mut("f6_kdf_nested_fn_xor", "F6", SCRYPT, "    let len = b.len();\n\n    for chunk in v.chunks_mut(len) {", "    fn xor(_x: &[u8], _y: &[u8], _output: &mut [u8]) {}\n    let len = b.len();\n\n    for chunk in v.chunks_mut(len) {")
mut("f6_kdf_nested_fn_salsa", "F6", SCRYPT, "fn scrypt_block_mix(input: &[u8], output: &mut [u8]) {", "fn scrypt_block_mix(input: &[u8], output: &mut [u8]) {\n    fn salsa20_8(_i: &[u8], _o: &mut [u8]) {}")
mut("f6_kdf_use_in_body", "F6", SCRYPT, "fn scrypt_block_mix(input: &[u8], output: &mut [u8]) {", "fn scrypt_block_mix(input: &[u8], output: &mut [u8]) {\n    use self::other::xor;")
mut("f6_kdf_use_as_sha256", "F6", SCRYPT, "use crate::sha2::Sha256;", "use crate::sha2::Sha512 as Sha256;")
mut("f6_kdf_use_as_read_u32", "F6", SCRYPT, "use crate::cryptoutil::{read_u32_le, read_u32v_le, write_u32_le};", "use crate::cryptoutil::{read_u32_be as read_u32_le, read_u32v_le, write_u32_le};")
mut("f6_kdf_use_other_module", "F6", SCRYPT, "use crate::pbkdf2::pbkdf2;", "use crate::pbkdf2_alt::pbkdf2;")
mut("f6_kdf_hkdf_use_as", "F6", HKDF, "use crate::hmac::Hmac;", "use crate::sha2::Sha512 as Hmac;")
mut("f9_kdf_literal_defaults_i32", "F9", SCRYPT, "    let n = 1 << params.log_n;", "    let n0 = 1 << params.log_n;\n    let n = n0 as usize;")
mut("f9_kdf_div_zero", "F9", SCRYPT, "(i / 2) * 64 + input.len() / 2", "(i / (input.len() - input.len())) * 64 + input.len() / 2")
mut("f5_mac_shadow_in_block", "F5", P1305, "self.buffer[self.leftover + i] = m[i];", "{ let want = 3usize; self.buffer[self.leftover + i] = m[want]; }")
mut("f5_kdf_shadow_in_block", "F5", PBKDF2, "            let chunk_len = chunk.len();\n            chunk[0..chunk_len]", "            let os = chunk.len();\n            let chunk_len = os;\n            chunk[0..chunk_len]")
mut("f3_mac_debug_assert", "F3", P1305, "assert!(!self.finalized);\n        let mut m = data;", "debug_assert!(!self.finalized);\n        let mut m = data;")
mut("f3_kdf_debug_assert", "F3", PBKDF2, "    assert!(c > 0);", "    debug_assert!(c > 0);")
mut("f8_mac_shortcircuit", "F8", P1305, "if self.leftover > 0 {\n            let want", "if self.leftover > 0 && m[20] == 1 {\n            let want")
mut("f8_mac_inclusive_range", "F8", P1305, "self.buffer[..m.len()].copy_from_slice(&m[..]);", "self.buffer[..=m.len()].copy_from_slice(&m[..]);")

# ---- the same holes in the stream / sponge / rest / curve / digest translators
CHACHA, SHA3, SHA2LEG, SC32 = "src/chacha20.rs", "src/hashing/sha3.rs", "src/sha2.rs", "src/curve25519/scalar/scalar32.rs"
mut("f5_stream_trailing_let_data", "F5", CHACHA, "            i += count;\n            self.offset += count;\n        }\n    }",
    "            i += count;\n            self.offset += count;\n        }\n        let data = [0u8; 4];\n    }")
mut("f5_stream_loop_body_shadow", "F5", CHACHA, "            let count = cmp::min(64 - self.offset, len - i);", "            let i = 0usize;\n            let count = cmp::min(64 - self.offset, len - i);")
mut("f5_stream_branch_shadow", "F5", CHACHA, "            if self.offset == 64 {\n                self.update();\n            }", "            if self.offset == 64 {\n                let len = 0usize;\n                self.update();\n                i += len;\n            }")
mut("f7_stream_alias", "F7", CHACHA, "        output.copy_from_slice(input);\n        self.process_mut(output);", "        let o2 = &mut *output;\n        o2.copy_from_slice(input);\n        self.process_mut(output);")
mut("f4_stream_cfg_stmt", "F4", CHACHA, "        output.copy_from_slice(input);\n        self.process_mut(output);", "        #[cfg(debug_assertions)]\n        output.copy_from_slice(input);\n        self.process_mut(output);")
mut("f6_stream_nested_fn", "F6", CHACHA, "        let len = data.len();\n        let mut i = 0;", "        fn xor_keystream_mut(_a: &mut [u8], _b: &[u8]) {}\n        let len = data.len();\n        let mut i = 0;")
mut("f6_stream_use_as", "F6", CHACHA, "use crate::cryptoutil::xor_keystream_mut;", "use crate::cryptoutil::zero as xor_keystream_mut;")
mut("f3_stream_debug_assert", "F3", CHACHA, "        assert_eq!(\n            input.len(),\n            output.len(),", "        debug_assert_eq!(\n            input.len(),\n            output.len(),")
mut("f9_stream_weak_literal_cast", "F9", CHACHA, "        let len = data.len();\n        let mut i = 0;", "        let z = 5;\n        let len = data.len() + (z as usize) - 5;\n        let mut i = 0;")
mut("f5_sponge_loop_body_shadow", "F5", SHA3, "            let nread = cmp::min(r - offset, in_len - in_pos);", "            let in_pos = 0usize;\n            let nread = cmp::min(r - offset, in_len - in_pos);")
mut("f5_sponge_branch_shadow", "F5", SHA3, "            if offset + nread != r {\n                self.offset += nread;\n                break;", "            if offset + nread != r {\n                let r = 1usize;\n                self.offset += nread + r;\n                break;")
mut("f6_sponge_nested_fn_shadows_callee", "F6", SHA3, "        let r = self.rate();\n        assert!(self.offset < r);\n\n        let in_len", "        fn keccak_f(_s: &mut [u8]) {}\n        let r = self.rate();\n        assert!(self.offset < r);\n\n        let in_len")
mut("f4_sponge_cfg_dup_fn_first", "F4", SHA3, "    pub(super) fn reset(&mut self) {\n        self.can_absorb = true;",
    "    #[cfg(target_endian = \"big\")]\n    pub(super) fn reset(&mut self) {\n        self.can_absorb = true;\n    }\n    #[cfg(not(target_endian = \"big\"))]\n    pub(super) fn reset(&mut self) {\n        self.can_absorb = false;")
mut("f4_sponge_cfg_stmt", "F4", SHA3, "            self.offset = 0;\n            keccak_f(&mut self.state);", "            #[cfg(debug_assertions)]\n            { self.offset = 0; }\n            keccak_f(&mut self.state);")
mut("f2_sponge_nested_trailing_expr", "F2", SHA3, "            self.offset = 0;\n            keccak_f(&mut self.state);\n        }", "            self.offset = 0;\n            if in_pos == 1 { keccak_f(&mut self.state) }\n            keccak_f(&mut self.state);\n        }")
mut("f7_sponge_alias", "F7", SHA3, "            self.offset = 0;\n            keccak_f(&mut self.state);", "            self.offset = 0;\n            let s2 = &mut self.state;\n            keccak_f(s2);")
mut("f3_sponge_debug_assert", "F3", SHA3, "        assert!(self.offset < r);\n\n        let in_len", "        debug_assert!(self.offset < r);\n\n        let in_len")
mut("f9_sponge_div_zero", "F9", SHA3, "            let nread = cmp::min(r - offset, in_len - in_pos);", "            let nread = cmp::min(r - offset, in_len - in_pos) / (in_len - in_len);")
mut("f3_curve_debug_assert_to_assert", "F3", GE, "        debug_assert!(b >= -8 && b <= 8);", "        assert!(b >= -8 && b <= 8);")
mut("f3_curve_debug_assert_removed", "F3", GE, "        debug_assert!(b >= -8 && b <= 8);", "")
mut("f6_curve_nested_fn_in_signature", "F6", ED, "    let private_key = keypair_private(&keypair);\n    let public_key = keypair_public(&keypair);\n    let az = extended_secret(private_key);",
    "    fn keypair_public(keypair: &[u8; KEYPAIR_LENGTH]) -> &[u8; PUBLIC_KEY_LENGTH] { <&[u8; PUBLIC_KEY_LENGTH]>::try_from(&keypair[0..32]).unwrap() }\n    let private_key = keypair_private(&keypair);\n    let public_key = keypair_public(&keypair);\n    let az = extended_secret(private_key);")
mut("f4_curve_cfg_dup_fn_first", "F4", ED, "pub fn keypair_public(keypair: &[u8; KEYPAIR_LENGTH]) -> &[u8; PUBLIC_KEY_LENGTH] {\n    <&[u8; PUBLIC_KEY_LENGTH]>::try_from(&keypair[32..64]).unwrap()\n}",
    "#[cfg(target_endian = \"big\")]\npub fn keypair_public(keypair: &[u8; KEYPAIR_LENGTH]) -> &[u8; PUBLIC_KEY_LENGTH] {\n    <&[u8; PUBLIC_KEY_LENGTH]>::try_from(&keypair[32..64]).unwrap()\n}\n#[cfg(not(target_endian = \"big\"))]\npub fn keypair_public(keypair: &[u8; KEYPAIR_LENGTH]) -> &[u8; PUBLIC_KEY_LENGTH] {\n    <&[u8; PUBLIC_KEY_LENGTH]>::try_from(&keypair[0..32]).unwrap()\n}")
mut("f4_curve_cfg_stmt", "F4", GE, "        let bnegative = (b as u8) >> 7;", "        #[cfg(debug_assertions)]\n        let b = 0i8;\n        let bnegative = (b as u8) >> 7;")
mut("f7_curve_alias", "F7", GE, "        let mut t = GePrecomp::ZERO;\n        t.maybe_set(&precomp::GE_BASE[pos][0], babs.ct_eq(1));", "        let mut t = GePrecomp::ZERO;\n        let t2 = &mut t;\n        t2.maybe_set(&precomp::GE_BASE[pos][0], babs.ct_eq(1));")
mut("f6_curve_use_as", "F6", GE, "use super::scalar::Scalar;", "use super::fe::Fe as Scalar;")
mut("f3_digest_debug_assert", "F3", SHA2LEG, "                assert!(!self.computed, \"context is already finalized, needs reset\");\n                self.computed = true;", "                debug_assert!(!self.computed, \"context is already finalized, needs reset\");\n                self.computed = true;")
mut("f5_digest_shadow_in_block", "F5", "src/hashing/ripemd160.rs", "self.processed_bytes += msg.len() as u64;", "{ let msg = &msg[1..]; self.processed_bytes += msg.len() as u64; }")
mut("f4_digest_cfg_stmt", "F4", "src/hashing/ripemd160.rs", "self.processed_bytes += msg.len() as u64;", "#[cfg(debug_assertions)]\n self.processed_bytes += msg.len() as u64;")
mut("f3_rest_debug_assert", "F3", SC32, "            let mut i = 31;\n", "            let mut i = 31;\n            debug_assert!(s[0] != 9);\n")
mut("f5_rest_shadow_in_branch", "F5", SC32, "                if i == 0 {\n                    break;", "                if i == 0 {\n                    let c = 5u8;\n                    n = c;\n                    break;")
mut("f4_rest_cfg_stmt", "F4", SC32, "            let mut i = 31;\n", "            let mut i = 31;\n            #[cfg(debug_assertions)]\n            { c = 1; }\n")
mut("f6_rest_nested_fn_same_name_as_kernel", "F6", SC32, "            let mut i = 31;\n", "            fn check_s_lt_l(_s: &[u8; 32]) -> bool { true }\n            let mut i = 31;\n")

HARMLESS = {
    "h_comments_whitespace": [
        (CU, "let mut i = 0;", "let   mut i   =   0 ;   // a comment\n        /* block\n comment */"),
        (CU, "    fn zero_until(&mut self, idx: usize) {", "    fn zero_until( &mut self , idx : usize )\n    {\n        // nothing changes here"),
        (MOD, "fn finish(&mut self) {", "fn finish( &mut self )\n    {\n        // nothing changes here"),
        (P1305, "let mut m = data;", "let mut m   =   data ; /* c */"),
        (HKDF, "    digest.reset();", "    // reset first\n    digest.reset()\n    ;"),
        (PBKDF2, "    assert!(c > 0);", "    assert!( c > 0 ) ; // positive"),
        (SCRYPT, "    let len = b.len();", "    let len = b . len ( ) ;\n\n\n"),
        (GE, "fn select(pos: usize, b: i8) -> GePrecomp {", "fn select( pos : usize , b : i8 ) -> GePrecomp\n    { // comment"),
        (ED, "pub fn keypair_public(keypair: &[u8; KEYPAIR_LENGTH])", "/* the public half */ pub fn keypair_public( keypair : & [ u8 ; KEYPAIR_LENGTH ] )"),
    ],
    "h_leading_comment_every_file": "ALL",
}


def scratch_tree(root, name):
    d = os.path.join(root, name)
    os.makedirs(d)
    shutil.copytree(os.path.join(REPO, "src"), os.path.join(d, "src"))
    shutil.copy(os.path.join(REPO, "Cargo.toml"), d)
    return d


def apply(d, file, old, new):
    p = os.path.join(d, file)
    s = open(p).read()
    if old not in s:
        raise RuntimeError(f"pattern not found in {file}: {old[:60]!r}")
    open(p, "w").write(s.replace(old, new, 1))


def classify(base, res):
    if res["errors"]:
        return "error", res["errors"][0]["table"] + ": " + res["errors"][0]["error"][:150]
    ch = [k for k in base["files"] if base["files"][k] != res["files"].get(k)]
    if ch:
        return "changed", ",".join(ch)
    return "UNCHANGED", ""


def run_mutation(root, name, base):
    d = scratch_tree(root, name)
    try:
        if name in MUT:
            for f, old, new in MUT[name][1]:
                apply(d, f, old, new)
        else:
            spec = HARMLESS[name]
            if spec == "ALL":
                for r, _, fs in os.walk(os.path.join(d, "src")):
                    for fn in fs:
                        if fn.endswith(".rs"):
                            p = os.path.join(r, fn)
                            s = open(p).read()
                            open(p, "w").write("// leading comment\n\n" + s + "\n// trailing comment\n")
            else:
                for f, old, new in spec:
                    apply(d, f, old, new)
        return name, classify(base, generate(d))
    finally:
        shutil.rmtree(d, ignore_errors=True)


# ------------------------------------------------------------------------------------------------ F11: fuel exhaustion is a failure
FAIL_RE = r"(?:none\b|\.error\b|Except\.error\b|throw\b|failure\b)"


def fuel_check(files):
    """every generated definition that recurses on fuel has an arm `| fuel… + 1 …`; the matching `| 0 …` arm (same indentation, directly
    before it) must be a FAILURE, or re-test the loop condition and fail when it still holds (`if c then <failure> else <done>`, possibly under
    a `match st with | (…) =>` that opens the state tuple).  Returns the offending (file, line, arm text); also fails when a file mentions
    fuel in a definition but no such pair is found."""
    bad = []
    for fname, text in files.items():
        lines = text.split("\n")
        for i, line in enumerate(lines):
            m = re.match(r"^(\s*)\| (fuel\w*) \+ 1\b", line)
            if not m:
                continue
            ind = m.group(1)
            j = i - 1
            while j >= 0 and not re.match(r"^" + ind + r"\| 0\b[^=]*=>", lines[j]):
                if re.match(r"^" + ind + r"\S", lines[j]) and not lines[j].startswith(ind + "|"):
                    break
                j -= 1
            if j < 0 or not re.match(r"^" + ind + r"\| 0\b[^=]*=>", lines[j]):
                bad.append((fname, i + 1, "no `| 0` arm found for " + line.strip()))
                continue
            arm = " ".join([lines[j].split("=>", 1)[1]] + lines[j + 1:i]).strip()
            arm = re.sub(r"\s+", " ", arm)
            arm = re.sub(r"^match \w+ with \| \([^)]*\) => ", "", arm)
            if re.match(FAIL_RE, arm) or re.match(r"if .* then " + FAIL_RE + r".* else ", arm):
                continue
            bad.append((fname, j + 1, arm[:120]))
    return bad


# ------------------------------------------------------------------------------------------------ synthetic sources (in-process)
SYNTH_SRC = r'''
pub struct Stage { total: usize, buf: [u8; 8], idx: usize, flag: bool }
impl Stage {
    pub fn bump(&mut self) -> usize { self.idx += 1; self.idx }
    pub fn next_byte(&mut self) -> u8 { self.idx += 1; 7u8 }
    pub fn via(&mut self) -> usize { self.bump() }
    pub fn store_eff(&mut self) { self.buf[self.idx] = self.next_byte(); }
    pub fn compound_eff(&mut self) { self.total += self.bump(); }
    pub fn while_eff(&mut self) { while self.bump() < 4 { self.total += 1; } }
    pub fn plain_store(&mut self, x: u8) { self.buf[self.idx] = x; self.total += self.idx; }
    pub fn div_by(&mut self, d: usize) -> usize { self.total / d }
    pub fn div_lit(&mut self) -> usize { self.total / 8 }
    pub fn shl(&mut self) -> usize { self.total << 3 }
    pub fn incl(&mut self, d: &[u8]) -> usize { let s = &d[1..=2]; s.len() }
    pub fn lit_cast(&mut self) -> u64 { let z = 5; (z as u64) }
    pub fn lit_usize(&mut self) -> u64 { let z = 5; self.idx = z; (z as u64) }
}
'''


def synthetic():
    """the holes that no mutation of /repo can show (the specs have no kernel of that shape): translated from a synthetic source"""
    sys.path.insert(0, TOOLS)
    import kernel_translate as KT
    import ktx_glue as KG
    import ktx_glue_mac as KM
    import ktx_glue_sponge as KS
    res = []
    F = "selftest.rs"
    cfg = KG.GlueCfg(structs={"Stage": dict(lean="Stage", file=F)}, nat_fields=[])
    cfg._src[F] = KT.strip_comments(SYNTH_SRC)
    base = dict(file=F, scope=r"impl Stage \{", impl="Stage")

    def tr(fn, **kw):
        return KG.translate(KG.GK(cfg, fn=fn, lean_name=f"Stage.{fn}_src", **base, **kw))

    def expect_error(name, fn, **kw):
        try:
            tr(fn, **kw)
            res.append((name, False, "translated (should be refused)"))
        except KT.TranslateError as e:
            res.append((name, True, f"refused: {str(e)[:110]}"))

    def expect_text(name, fn, pred, why, **kw):
        try:
            t = tr(fn, **kw)
            res.append((name, bool(pred(t)), why if pred(t) else "generated text does not show it:\n" + t))
        except KT.TranslateError as e:
            res.append((name, False, f"unexpected refusal: {e}"))
    tr("bump"); tr("next_byte")
    expect_text("f8_glue_return_expr_effect_kept", "via",
                lambda t: (lambda m: m is not None and m.group(1) != "self")(re.search(r"\((\w+), \w+\)\s*$", t.strip())),
                "the state returned by `fn via(&mut self) -> usize { self.bump() }` is the one AFTER bump")
    expect_error("f8_glue_store_index_vs_effectful_value", "store_eff")
    expect_error("f8_glue_compound_assign_effectful_value", "compound_eff")
    expect_error("f8_glue_while_condition_effect", "while_eff", fuel={1: "4"})
    expect_text("f8_glue_plain_store_still_translated", "plain_store", lambda t: "Glue.set_index" in t, "an effect-free store is translated")
    expect_text("f9_glue_div_by_variable_checked", "div_by", lambda t: "if d = 0 then none" in t, "usize `/` by a variable: `if d = 0 then none`")
    expect_text("f9_glue_div_by_literal_unchecked", "div_lit", lambda t: "= 0 then none" not in t and "/ 8" in t, "usize `/ 8`: no check needed")
    expect_text("f9_glue_shift_bounded", "shl", lambda t: "% 2 ^ 64" in t, "usize `<< 3` is `(x <<< 3) % 2 ^ 64`")
    expect_text("f8_glue_inclusive_range_value", "incl", lambda t: "Glue.slice d 1 (2 + 1)" in t, "`&d[1..=2]` reads up to index 2 inclusive")
    expect_error("f9_glue_unconfirmed_literal_cast", "lit_cast")
    expect_text("f9_glue_confirmed_literal_cast", "lit_usize", lambda t: "some" in t or "self" in t, "a literal whose usize type is confirmed by a use may be cast")
    # the evaluation-order guards of the text-valued translators (mac/digest, sponge): a later operand that re-binds a variable
    for mod, name in ((KM, "mac"), (KS, "sponge")):
        t_ = object.__new__(mod.Tr)
        t_.epoch = 0

        def eff():
            t_.epoch += 1
            return None
        early = [KM.Val("self.leftover", KM.TNat("usize"))] if mod is KM else ["self.offset"]
        lit = [KM.Val("16", KM.TNat("usize"), True, lit=16)] if mod is KM else ["16"]
        try:
            t_.after(early, eff)
            res.append((f"f8_{name}_operand_order_guard", False, "an effect after a read operand was accepted"))
        except KT.TranslateError as e:
            res.append((f"f8_{name}_operand_order_guard", True, f"refused: {str(e)[:100]}"))
        try:
            t_.after(lit, eff)
            res.append((f"f8_{name}_operand_order_literal_ok", True, "an effect after a literal operand is fine"))
        except KT.TranslateError as e:
            res.append((f"f8_{name}_operand_order_literal_ok", False, f"refused: {e}"))
    return res


# ------------------------------------------------------------------------------------------------ main
def sh(cmd, cwd=None, env=None, timeout=3600):
    e = dict(os.environ); e.update(env or {})
    p = subprocess.run(cmd, cwd=cwd, env=e, stdout=subprocess.PIPE, stderr=subprocess.STDOUT, text=True, timeout=timeout)
    return p.returncode, p.stdout


def main(argv):
    fast = "--fast" in argv
    only = [a for a in argv if not a.startswith("--")]
    t0 = time.time()
    ok = True
    print(f"== part 1a: in-process translation of {REPO} vs lean/CxVerif/Extracted/Glue*.lean")
    base = generate(REPO)
    if base["errors"]:
        ok = False
        for e in base["errors"]:
            print(f"   EXTRACTION ERROR {e['table']}: {e['error']}")
    for k, text in sorted(base["files"].items()):
        p = os.path.join(V, "lean/CxVerif/Extracted", k + ".lean")
        same = os.path.exists(p) and open(p).read() == text
        print(f"   {k}: {'identical' if same else 'DIFFERS from the file on disk'}")
        ok = ok and same
    bad = fuel_check(base["files"])
    print(f"   fuel exhaustion is a failure in every fuel-driven definition: {'yes' if not bad else 'NO'}")
    for b in bad:
        ok = False
        print(f"      {b[0]}.lean:{b[1]}: fuel 0 => {b[2]}")
    if not fast and not only:
        print("== part 1b: lake build (whole project)")
        rc, out = sh(["lake", "build"], cwd=os.path.join(V, "lean"))
        print("   " + ("green" if rc == 0 else "FAILED\n" + out[-3000:]))
        ok = ok and rc == 0
        print("== part 1c: run_check quick")
        def check(prop):
            t = time.time()
            rc, out = sh([sys.executable, os.path.join(TOOLS, "run_check.py"), prop, "--tier", "quick"], cwd=V)
            last = out.strip().splitlines()[-1] if out.strip() else ""
            return prop, rc, time.time() - t, last
        with ThreadPoolExecutor(max_workers=3) as ex:          # (the checks of different properties do not share any file they write)
            for prop, rc, dt, last in ex.map(check, PROPS):
                print(f"   {prop}: {'green' if rc == 0 else 'EXIT %d' % rc}  ({dt:.0f}s)  {last[:160]}")
                ok = ok and rc == 0
    if not only:
        print("== part 2b: synthetic sources (in-process)")
        for name, good, info in synthetic():
            print(f"   {name}: {'ok' if good else 'BAD'}  {info[:400]}")
            ok = ok and good
    root = tempfile.mkdtemp(prefix="ktx_glue_selftest_")
    try:
        names = [n for n in list(MUT) + list(HARMLESS) if not only or n in only]
        print(f"== part 2/3: {len(names)} mutations of scratch copies under {root}")
        with ThreadPoolExecutor(max_workers=min(12, os.cpu_count() or 4)) as ex:
            results = dict(ex.map(lambda n: run_mutation(root, n, base), names))
        for n in names:
            verdict, info = results[n]
            if n in MUT:
                good = verdict in ("error", "changed")
                print(f"   {n} [{MUT[n][0]}]: {verdict if good else 'UNCHANGED(bad)'}  {info[:170]}")
            else:
                good = verdict == "UNCHANGED"
                print(f"   {n} [harmless]: {'identical' if good else verdict + '(bad)'}  {info[:170]}")
            ok = ok and good
    finally:
        shutil.rmtree(root, ignore_errors=True)
    print(f"== {'PASS' if ok else 'FAIL'} ({time.time() - t0:.0f}s)")
    return 0 if ok else 1


if __name__ == "__main__":
    sys.exit(main(sys.argv[1:]))
