#!/usr/bin/env python3
"""ktx_glue_stream — source-level translator for the STATEFUL GLUE of the stream-cipher / DRG / AEAD objects of /repo/src
(chacha20.rs, salsa20.rs, cryptoutil.rs::xor_keystream_mut, drg/chacha.rs, chacha20poly1305.rs)  ->  Lean functions in the
shape of the hand models Impl/StreamCtx.lean, Impl/ChaCha.lean, Impl/Salsa.lean, Impl/Drg.lean, Impl/Aead.lean.

Kernel spec module: tools/kernels/glue_stream.py (`TRANSLATE = ktx_glue_stream.translate`); the generated file is
lean/CxVerif/Extracted/GlueStream.lean (regenerated from the CURRENT source by tools/extract_tables.py on every run); the tie
theorems `<f>_src_eq_model` are in lean/CxVerif/Props/C04/GlueTieStream.lean (helpers: Proofs/GlueStream.lean).
It reuses the lexer of tools/kernel_translate.py and the parser `P2` of tools/ktx_misc.py (class `P3` below adds `while`,
`&`/`&mut` markers, `<T>::f` qualified paths, `[..]`).

What a translated function is
-----------------------------
  * `fn f(&mut self, a: &[u8], b: &mut [u8], n: usize) -> T`   becomes
        def f_src <generics> (self : S) (a : Bytes) (b : Bytes) (n : Nat) : Except String (S × Bytes × T)
    i.e. state structure in, state structure out: the result is the tuple (new `self` if `&mut self`; the new contents of every
    `&mut` parameter, in parameter order; the return value unless `()`).  `self` / `mut self` by value is consumed (not
    returned).  A function in which no operation can fail is emitted WITHOUT the `Except` (pure), as the hand models do.
  * a Rust panic (assert!/assert_eq!, slice index out of range, `copy_from_slice` length mismatch, checked `+`/`-` overflow of
    usize/u64, `unwrap` of a failed `try_from`, a panic of a callee) is `.error "PANIC"` exactly where Rust would panic
    (left-to-right evaluation order); what the Rust TYPE SYSTEM refuses (`&[u8; 12]`, `Tag([u8; 16])` parameters of another
    length) is `.error "bad-args"`, tested on entry;  an out-of-bounds raw-pointer access (`*p.offset(i)`) is `.error "UB"`
    (a tie theorem to a model without "UB" results is therefore also a memory-safety proof of that loop).
  * structs are the Lean structures named by the spec (`STRUCTS`): the translator re-reads the `struct` declaration and refuses
    (TranslateError) a field list that differs from the spec; tuple structs with one field (`Drg(ChaCha)`, `Tag([u8; 16])`,
    `ContextEncryption(Context)`) are erased newtypes; `Self { f: e, .. }` is a structure instance, `self.f = e` / `self.f += e`
    is `{ self with f := … }`, `&mut self.f` passed to a callee is written back the same way.
  * byte slices / arrays are `Bytes = List UInt8`; `[0u8; N]` = `zeros N`; `x.len()` = `x.length`; `x[a..b]` = bounds test
    (`a ≤ b ∧ b ≤ len`, omitted only when decided statically from array types `[u8; N]` and literal bounds) and
    `(x.drop a).take (b - a)`; a `&mut x[a..b]` argument is written back as `x.take a ++ new ++ x.drop b`;
    `copy_from_slice`, `fill(0)`, `*out = [0; N]` overwrite the buffer.  The STATIC length of `[u8; N]` values is tracked in
    the types (Rust's own typing), so a check Rust's type system has already discharged is not emitted.
  * integers: `usize`/`u64` are `Nat` (64-bit target: `as u64`/`as usize` between them is the identity); `+` is CHECKED
    (`addChk`: `.error "PANIC"` at 2^64), `-` is checked (`subChk`), `%` by a non-zero literal and `cmp::min` are pure;
    `isize` is `Int` (`x as isize` = two's complement `usizeToIsize`); `u8` is `UInt8` (only `^`); `u32`/`u64` parameters the spec
    declares opaque (`position`, `counter`) are `UInt32`/`UInt64` passed through; `bool` is `Bool`, conditions are `Prop`s
    (`==` `=`, `!=` `≠`, `<`, `<=`, `&&` `∧`, `||` `∨`, `!` `¬`; `&&`/`||` only over operands that cannot fail).
  * control flow: `if c { … } [else { … }]` as a statement binds the variables assigned in the branches
    (`let self := if c then … else self`, or `match (if c then … else .ok (…)) with` when a branch can fail);
    `if` as a trailing value; `while c { body }` becomes `whileFuel cond body fuel state` over the tuple of the variables the
    body assigns, with two generated definitions `<f>_loop<k>_cond_src` / `<f>_loop<k>_body_src` and the fuel expression given by
    the spec (`variants`): running out of fuel while the condition still holds is `.error "DIVERGE"`, so a loop that stops
    decreasing its variant can never be equal to a model; `for i in a..b` over a run-time range becomes `forRangeI a b body state`
    (structural recursion on the number of iterations).  `unsafe { … }` is a plain block.
  * calls: functions/methods that are themselves translated (same spec module) are called as `<g>_src`; everything else must be
    named in the spec (`EXT`: engine methods of `ChaChaEngine` / salsa `State`, `Poly1305`, `write_u64_le`, `cmp::min`,
    `from_be_bytes`, constant-time `ct_eq`) with its Lean rendering — these are the MODEL's engine functions, tied to the source
    by other translators (Props/C03/KernelTie*.lean, Props/C05/KernelTie.lean).  `x.clone()` is `x`.
    Const generics: `ROUNDS` is the Lean parameter `R`; a fn-level `const N: usize` is inferred from a `[u8; N]` parameter
    (`let N := out.length`), or is an explicit trailing parameter `(N : Nat)` (inferred at call sites from the expected array type).
Anything else — early `return`, `loop`, `match`, closures, iterator chains, arithmetic on other types, unknown methods, a struct
field or function that the spec does not name, an attribute (`#[cfg]`) or a nested item inside a function body, two definitions of
one function name in its impl scope — raises TranslateError (reported as a broken extraction; the generated placeholder makes the
tie theorem fail); nothing is skipped silently (comments are not code; attributes ON a translated fn, e.g.
`#[cfg(cryptoxide_verif)]` / `#[must_use]` / `#[inline]`, do not change what the fn does when it exists).
Evaluation order: operands and arguments are evaluated left to right as in Rust; a later operand/argument whose evaluation re-binds a
variable (a nested call with `&mut` effects) is refused, so that an earlier operand's text can never observe a later effect.
After audit 3 (tools/ktx_glue_guard.py): `find_blocks` / `find_fn_in` look only at COMPILED items (item `#[cfg]` evaluated with the
guard's table) and brace-match with string literals masked; inner-block shadowing, `let x = &mut …` aliases (copy semantics here),
a `let` that re-binds a `&mut` parameter (the result tuple is read under the parameter names), changed imports of a used name and a
literal-typed variable that is only cast are refused.
"""
import os
import re

import kernel_translate as KT
from kernel_translate import TranslateError, lex, strip_comments
from ktx_misc import P2, protect_bytestrings
import ktx_glue_guard as GUARD

LEAN_KEYWORDS = {"at", "from", "end", "open", "show", "have", "fun", "then", "else", "if", "do", "let", "in", "with", "match", "by",
                 "where", "def", "instance", "structure", "class", "local", "section", "namespace", "variable", "universe", "import",
                 "prefix", "infix", "notation", "macro", "syntax", "deriving", "mutual", "theorem", "example", "abbrev", "axiom",
                 "private", "protected", "return", "for", "unless", "try", "catch", "finally", "Type", "Prop", "Sort", "using", "this",
                 "nomatch", "suffices", "calc", "obtain", "set_option", "attribute", "e", "st", "fuel"}
NAT_INTS = ("usize", "u64")


def REPO():
    return os.environ.get("CX_REPO", KT.REPO)


def read_src(relpath):
    return open(os.path.join(REPO(), relpath)).read()


STR = re.compile(r'(?<![A-Za-z0-9_])"((?:[^"\\]|\\.)*)"')


def protect_strings(text):
    text, _ = protect_bytestrings(text)
    return STR.sub(" __str ", text)


# ------------------------------------------------------------------------------------------------ source access

def balanced_end(text, i):
    """text[i-1] is `{`; index just after its matching `}`"""
    depth = 1
    while i < len(text) and depth:
        depth += {"{": 1, "}": -1}.get(text[i], 0)
        i += 1
    if depth:
        raise TranslateError("unbalanced braces")
    return i


def find_blocks(text, scope):
    """texts of the `{ … }` that follow each match of regex `scope` (which must end at the `{`): the LIVE blocks only — the `#[cfg(…)]`
    attributes in front of the item header are evaluated with the table of tools/ktx_glue_guard.py (a never-compiled `impl` placed first
    is not a place to look for a function)"""
    out, dead = [], 0
    masked = GUARD.mask_literals(text)
    for m in re.finditer(scope, text):
        # the item header starts at the beginning of the statement the match lies in
        hs = max(masked.rfind(";", 0, m.start()), masked.rfind("}", 0, m.start()), masked.rfind("{", 0, m.start())) + 1
        kw = re.search(r"\b(?:unsafe\s+)?(?:impl|trait|mod)\b", masked[hs:m.end()])
        hstart = hs + kw.start() if kw else m.start()
        if not GUARD.attrs_live(GUARD.attrs_before(text, hstart), f"scope {scope!r}"):
            dead += 1
            continue
        j = masked.index("{", m.end() - 1)
        out.append(text[j + 1:GUARD.close_of(masked, j) - 1])
    if not out:
        raise TranslateError(f"scope {scope!r} not found" + (f" ({dead} cfg-disabled)" if dead else ""))
    return out


def find_fn_in(texts, fn):
    """(header text `fn … (…) [-> T]`, body text) of THE `fn <fn>` at brace depth 0 of the given blocks; two definitions of the
    same name (e.g. under different `#[cfg]`s) are refused rather than one of them picked"""
    found = []
    for text in texts:
        masked = GUARD.mask_literals(text)
        for m in re.finditer(r"\bfn\s+" + re.escape(fn) + r"\b", masked):
            if masked[:m.start()].count("{") != masked[:m.start()].count("}"):
                continue
            if not GUARD.attrs_live(GUARD.attrs_before(text, m.start()), f"fn {fn}"):
                continue                      # a definition that is not compiled (item #[cfg] evaluated with the guard's table)
            depth, j = 0, m.end()
            while j < len(text):
                c = masked[j]
                if c in "([":
                    depth += 1
                elif c in ")]":
                    depth -= 1
                elif c == "{" and depth == 0:
                    end = GUARD.close_of(masked, j)
                    found.append((text[m.start():j], text[j + 1:end - 1]))
                    break
                elif c == ";" and depth == 0:
                    break
                j += 1
    if not found:
        raise TranslateError(f"fn {fn} not found")
    if len(found) > 1:
        raise TranslateError(f"fn {fn} is defined {len(found)} times in its scope")
    return found[0]


# ------------------------------------------------------------------------------------------------ parser

class P3(P2):
    """P2 + `while`, `&`/`&mut` kept as markers, `<T>::name` paths, `[..]`"""

    def stmt(self):
        if self.atid("while"):
            self.eat()
            c = self.expr_nostruct()
            body = self.block_in_braces()
            return ("while", c, body)
        if self.atid("loop") or self.atid("break") or self.atid("continue"):
            raise TranslateError("loop/break/continue are outside the translated subset")
        return super().stmt()

    def block(self):
        stmts = KT.P.block(self)
        out = []
        for i, s in enumerate(stmts):
            if s[0] == "ret" and i != len(stmts) - 1:
                if s[1][0] in ("if", "match", "blockexpr", "macro"):
                    out.append(("expr", s[1]))
                else:
                    raise TranslateError("value expression in statement position")
            else:
                out.append(s)
        return out

    def expr(self, lvl=0):
        if lvl == 0 and self.at(".."):
            self.eat()
            if self.at("]", ")"):
                return ("range", None, None, "..")
            return ("range", None, self.expr(1), "..")
        return super().expr(lvl)

    def unary(self):
        if self.at("&", "&&"):
            self.eat()
            mut = False
            if self.atid("mut"):
                self.eat(); mut = True
            inner = self.unary()
            return ("mutref", inner) if mut else ("ref", inner)
        if self.at("*"):
            self.eat(); return ("deref", self.unary())
        if self.at("-"):
            self.eat(); return ("neg", self.unary())
        if self.at("!"):
            self.eat(); return ("not", self.unary())
        return self.postfix()

    def atom(self):
        if self.at("<"):                       # `<&[u8; 32]>::try_from`
            self.eat(); t = self.ty(); self.eat(">"); self.eat("::")
            return ("qpath", t, self.eat()[1])
        return super().atom()


def parse_header(hdr):
    """`fn name<const N: usize>(params) -> T`  ->  (fn const generics, [(name, kind, type ast)], return type ast | None)
    kind: self_ref | self_mut | self_val | val | ref | mutref"""
    p = P3(lex(protect_strings(hdr)))
    p.eat("fn"); p.eat()
    consts = []
    if p.at("<"):
        p.eat()
        while not p.at(">"):
            if p.atid("const"):
                p.eat(); n = p.eat()[1]; p.eat(":"); p.ty(); consts.append(n)
            else:
                raise TranslateError("generic type / lifetime parameters of a fn are outside the subset")
            if p.at(","):
                p.eat()
        p.eat(">")
    p.eat("(")
    params = []
    while not p.at(")"):
        if p.at("&"):
            p.eat()
            if p.atid("mut"):
                p.eat()
                if p.atid("self"):
                    p.eat(); params.append(("self", "self_mut", "Self"))
                else:
                    raise TranslateError("unsupported parameter")
            else:
                p.eat("self"); params.append(("self", "self_ref", "Self"))
        elif p.atid("self"):
            p.eat(); params.append(("self", "self_val", "Self"))
        elif p.atid("mut") and p.peek(1)[1] == "self":
            p.eat(); p.eat(); params.append(("self", "self_val", "Self"))
        else:
            if p.atid("mut"):
                p.eat()
            name = p.eat()[1]; p.eat(":")
            kind = "val"
            if p.at("&"):
                p.eat(); kind = "ref"
                if p.atid("mut"):
                    p.eat(); kind = "mutref"
            params.append((name, kind, p.ty()))
        if p.at(","):
            p.eat()
    p.eat(")")
    ret = None
    if p.at("->"):
        p.eat(); ret = p.ty()
    if p.peek()[0] != "eof":
        raise TranslateError(f"unsupported fn header tail {p.peek()}")
    return consts, params, ret


# ------------------------------------------------------------------------------------------------ spec classes

class Struct:
    """lean: Lean type text; fields: rust field -> lean field (record structs); newtype=True: one-field tuple struct, erased;
    eq: kernel key used for `==` (PartialEq impl)"""

    def __init__(self, file, lean=None, fields=None, newtype=False, eq=None, types=None):
        self.file, self.lean, self.fields, self.newtype, self.eq = file, lean, fields or {}, newtype, eq
        self.types = types or {}   # file-local names of external types used by the field types (rust name -> ext key)
        self.decl = None           # [(field, type)] read from the source


class Ext:
    """external (not translated) function or method: `call` is a Lean template over {self} {0} {1} … {len0} … (or a callable
    (tr, recv V|None, [V]) -> text); kinds of the arguments: val | ref | mutref (`self_kind` for the receiver: ref | mut | None);
    outs: what the Lean call returns, in order, out of "self", "0", "1", …, "ret"; `check(tr, recv, args)` may refuse"""

    def __init__(self, call, kinds=(), self_kind=None, ret="unit", fallible=False, outs=("ret",), check=None, argtys=None):
        self.call, self.kinds, self.self_kind, self.ret, self.fallible, self.outs, self.check = call, list(kinds), self_kind, ret, fallible, list(outs), check
        self.argtys = argtys or [None] * len(self.kinds)


class GK:
    """one function to translate.
    file, scope (regex ending at the `{` of the impl block, or None for a free fn), fn, self_ty (Rust name of `Self`),
    lean_name, types (file-local ext type names: rust name -> ext key), variants {loop number: Lean fuel expression},
    opaque {param: Lean type} (word parameters passed through), doc"""

    def __init__(self, **kw):
        self.file = kw["file"]; self.scope = kw.get("scope"); self.fn = kw["fn"]; self.self_ty = kw.get("self_ty")
        self.lean_name = kw["lean_name"]; self.types = dict(kw.get("types", {})); self.variants = dict(kw.get("variants", {}))
        self.opaque = dict(kw.get("opaque", {})); self.doc = kw.get("doc", ""); self.ret_lean = kw.get("ret_lean")
        self.params = ""     # (for the failure placeholder of kernel_translate.generate_all)
        self.prog = kw["prog"]


class Program:
    """shared tables of one spec module"""

    def __init__(self, structs, ext, enums=None, generics=None, const_generics=None, ext_lean=None):
        self.structs = structs            # rust struct name -> Struct
        self.ext = ext                    # (ext type key | "bytes" | None, name) -> Ext
        self.ext_lean = ext_lean or {}    # ext type key -> Lean type text
        self.enums = enums or {}          # rust enum name -> {variant: lean Bool text}
        self.generics = generics or []    # [(token, binder text)] in order, e.g. ("E", "(E : Cx.Impl.ChaCha.Engine σ)")
        self.const_generics = const_generics or {}   # rust const generic of impls -> lean text, e.g. ROUNDS -> R
        self.kernels = {}                 # (self_ty | None, fn) -> Info   (filled as kernels are translated)
        self.checked_structs = set()


class Info:
    def __init__(self):
        self.lean_name = None; self.params = []; self.ret = "unit"; self.fallible = False; self.gens = []; self.fn_consts = []
        self.explicit_consts = []


# ------------------------------------------------------------------------------------------------ values, env

class V:
    def __init__(self, t, ty, atomic=False):
        self.t, self.ty, self.atomic = t, ty, atomic

    def p(self):
        return self.t if self.atomic or re.fullmatch(r"[\w.']+", self.t) else f"({self.t})"


class NeedExcept(Exception):
    pass


def indent(text, n=2):
    return "\n".join((" " * n + l) if l else l for l in text.split("\n"))


def sanitize(name):
    if name in LEAN_KEYWORDS or re.fullmatch(r"t\d+", name):
        return name + "'"
    return name


class Tr:
    def __init__(self, k: GK):
        self.k, self.prog = k, k.prog
        self.tmp = 0
        self.aux = []            # generated auxiliary definitions (loop bodies / conditions)
        self.mode = "pure"
        self.nloops = 0
        self.self_ty = None
        self.fn_consts = {}      # fn-level const generics -> lean text
        self.rebinds = 0         # number of variable re-bindings emitted so far (evaluation-order guard)
        self.fn_ret = "unit"
        self.ret_want = None

    # ---------------------------------------------------------------- types
    def norm_ty(self, t):
        if t is None:
            return "unit"
        if isinstance(t, tuple):
            if t[0] == "arr":
                if t[1] != "u8":
                    raise TranslateError(f"array element type {t[1]} is outside the subset")
                n = t[2]
                if n is None:
                    return ("bytes", None)
                if n[0] == "lit":
                    return ("bytes", n[1])
                if n[0] == "path" and n[1] in self.fn_consts:
                    return ("bytes", n[1])
                raise TranslateError(f"array length {n} is outside the subset")
            if t[0] == "tuplety" and not t[1]:
                return "unit"
            raise TranslateError(f"type {t} is outside the subset")
        name = t.split("::")[-1]
        if name in ("u8", "u32", "u64", "usize", "isize", "bool"):
            return name
        if name == "Self":
            if self.self_ty is None:
                raise TranslateError("`Self` outside an impl")
            return self.self_ty
        if name in self.k.types:
            return ("ext", self.k.types[name])
        if name in self.prog.enums:
            return ("enum", name)
        if name in self.prog.structs:
            s = self.struct(name)
            if s.newtype:
                return ("newtype", name, s.decl[0][1])
            return ("struct", name)
        raise TranslateError(f"type {name} is not named by the spec")

    def struct(self, name):
        """the spec entry of a struct, with its declaration re-read from the source and compared with the spec"""
        s = self.prog.structs[name]
        if s.decl is None:
            text = strip_comments(read_src(s.file))
            ms = [m for m in re.finditer(r"\bstruct\s+" + re.escape(name) + r"\b\s*(<[^>{(;]*>)?\s*([({])", text)
                  if GUARD.attrs_live(GUARD.attrs_before(text, m.start()), f"struct {name}")]
            if len(ms) != 1:
                raise TranslateError(f"struct {name}: {len(ms)} live declarations in {s.file}; exactly one is required")
            m = ms[0]
            saved_types = self.k.types
            self.k.types = s.types
            try:
                if m.group(2) == "(":
                    j = text.index(")", m.end())
                    p = P3(lex(text[m.end():j]))
                    if p.atid("pub"):
                        p.eat()
                    ty = p.ty()
                    if p.peek()[0] != "eof":
                        raise TranslateError(f"struct {name}: more than one tuple field")
                    if not s.newtype:
                        raise TranslateError(f"struct {name} is a tuple struct in the source but not in the spec")
                    s.decl = [("0", self.norm_ty(ty))]
                else:
                    body = text[m.end():balanced_end(text, m.end()) - 1]
                    p = P3(lex(body))
                    decl = []
                    while p.peek()[0] != "eof":
                        if p.at("#"):
                            raise TranslateError(f"struct {name}: attributes on fields are outside the subset")
                        if p.atid("pub"):
                            p.eat()
                            if p.at("("):
                                p.eat(); p.eat(); p.eat(")")
                        f = p.eat()[1]; p.eat(":"); ty = p.ty()
                        decl.append((f, ty))
                        if p.at(","):
                            p.eat()
                    if s.newtype:
                        raise TranslateError(f"struct {name} is a record struct in the source but a newtype in the spec")
                    if [f for f, _ in decl] != list(s.fields):
                        raise TranslateError(f"struct {name}: fields {[f for f, _ in decl]} differ from the spec {list(s.fields)}")
                    s.decl = [(f, self.norm_ty(ty)) for f, ty in decl]
            finally:
                self.k.types = saved_types
        return s

    def lean_ty(self, ty):
        if ty in NAT_INTS:
            return "Nat"
        if ty == "isize":
            return "Int"
        if ty == "u8":
            return "UInt8"
        if ty == "bool":
            return "Bool"
        if ty == "unit":
            return "Unit"
        if isinstance(ty, tuple):
            if ty[0] == "bytes":
                return "Bytes"
            if ty[0] == "struct":
                return self.prog.structs[ty[1]].lean
            if ty[0] == "newtype":
                return self.lean_ty(ty[2])
            if ty[0] == "opaque":
                return ty[1]
            if ty[0] == "enum":
                return "Bool"
            if ty[0] == "ext":
                lt = self.prog.ext_lean.get(ty[1])
                if lt:
                    return lt
        raise TranslateError(f"no Lean type for {ty}")

    @staticmethod
    def base_ty(ty):
        while isinstance(ty, tuple) and ty[0] == "newtype":
            ty = ty[2]
        return ty

    def is_bytes(self, ty):
        ty = self.base_ty(ty)
        return isinstance(ty, tuple) and ty[0] == "bytes"

    def static_len(self, ty):
        ty = self.base_ty(ty)
        if isinstance(ty, tuple) and ty[0] == "bytes":
            return ty[1]
        raise TranslateError(f"{ty} is not a byte buffer")

    def len_text(self, v):
        n = self.static_len(v.ty)
        if isinstance(n, int):
            return str(n)
        if isinstance(n, str):
            return self.fn_consts[n]
        return f"{v.p()}.length"

    def check_assignable(self, vty, fty, what):
        a, b = self.base_ty(vty), self.base_ty(fty)
        if a == b:
            return
        if self.is_bytes(a) and self.is_bytes(b):
            if b[1] is None or a[1] == b[1]:
                return
        raise TranslateError(f"{what}: a value of type {vty} where {fty} is expected")

    # ---------------------------------------------------------------- emission helpers
    def fresh(self):
        self.tmp += 1
        return f"t{self.tmp}"

    def need_except(self):
        if self.mode == "pure":
            raise NeedExcept()

    def fail(self, what='"PANIC"'):
        self.need_except()
        return f".error {what}"

    def bind_fallible(self, call, pat, rest):
        self.need_except()
        return f"match {call} with\n| .error e => .error e\n| .ok {pat} =>\n{rest}"

    def guard(self, prop, rest, what='"PANIC"'):
        """continue with `rest` only if `prop` holds"""
        self.need_except()
        return f"if ¬ ({prop}) then .error {what} else\n{rest}"

    def final(self, text):
        return f".ok {text}" if self.mode == "except" else text

    @staticmethod
    def tuple_text(items):
        return items[0] if len(items) == 1 else "(" + ", ".join(items) + ")"

    def dry(self, fn):
        """run `fn` without keeping its emissions (type probing)"""
        saved = (self.tmp, self.mode, self.rebinds, list(self.aux), self.nloops)
        try:
            self.mode = "except"
            return fn()
        finally:
            self.tmp, self.mode, self.rebinds, self.aux, self.nloops = saved

    def type_of(self, e, env):
        box = []

        def k(v):
            box.append(v.ty)
            return ""
        self.dry(lambda: self.ex(e, env, k))
        if not box:
            raise TranslateError("cannot type the expression")
        return box[0]

    def pure_ex(self, e, env, want=None):
        box = []

        def k(v):
            box.append(v)
            return "\0"
        r = self.ex(e, env, k, want)
        if r != "\0" or len(box) != 1:
            raise TranslateError("an operand that can fail where only a pure one is supported")
        return box[0]

    # ---------------------------------------------------------------- expressions (CPS: k(V) -> text of the continuation)
    def ex(self, e, env, k, want=None):
        kind = e[0]
        if kind in ("paren", "ref", "mutref"):
            return self.ex(e[1], env, k, want)
        if kind == "lit":
            ty = e[2] or (want if want in ("usize", "u64", "isize", "u8") else "usize")
            if ty in NAT_INTS:
                return k(V(str(e[1]), ty, True))
            if ty == "isize":
                return k(V(f"({e[1]} : Int)", ty, True))
            if ty == "u8":
                return k(V(f"({e[1]} : UInt8)", ty, True))
            raise TranslateError(f"literal of type {ty}")
        if kind == "path":
            return k(self.path(e[1], env))
        if kind == "deref":
            inner = e[1]
            if inner[0] == "method" and inner[2] == "offset":
                return self.ptr_read(inner, env, k)
            return self.ex(inner, env, k, want)
        if kind == "field":
            return self.ex(e[1], env, lambda b: k(self.field(b, e[2])))
        if kind == "index":
            return self.place(e, env, lambda v, wb: k(v))
        if kind == "bin":
            return self.binop(e, env, k, want)
        if kind == "not":
            return self.cond(e, env, lambda p: k(V(f"decide ({p})", "bool")))
        if kind == "cast":
            to = self.norm_ty(e[2])
            return self.ex(e[1], env, lambda v: k(self.cast(v, to)), None)
        if kind == "repeat":
            item, n = e[1], e[2]
            if item[0] != "lit" or item[1] != 0 or (item[2] not in (None, "u8")):
                raise TranslateError("array repeat of a non-zero element")
            if n[0] == "lit":
                return k(V(f"zeros {n[1]}", ("bytes", n[1])))
            if n[0] == "path" and n[1] in self.fn_consts:
                return k(V(f"zeros {self.fn_consts[n[1]]}", ("bytes", n[1])))
            raise TranslateError("array repeat count is not static")
        if kind == "struct":
            return self.struct_lit(e, env, k)
        if kind == "call":
            return self.call(e, env, k, want)
        if kind == "method":
            return self.method(e, env, k, want)
        if kind == "if":
            return self.if_value(e, env, k, want)
        raise TranslateError(f"expression {kind} is outside the subset")

    def path(self, name, env):
        if name in ("true", "false"):
            return V(name, "bool", True)
        if name in env:
            ln, ty = env[name]
            return V(ln, ty, True)
        if name in self.prog.const_generics:
            return V(self.prog.const_generics[name], "usize", True)
        if name in self.fn_consts:
            return V(self.fn_consts[name], "usize", True)
        if "::" in name:
            en, var = name.rsplit("::", 1)
            en = en.split("::")[-1]
            if en in self.prog.enums and var in self.prog.enums[en]:
                return V(self.prog.enums[en][var], ("enum", en), True)
        raise TranslateError(f"unknown name {name}")

    def field(self, b, f):
        ty = b.ty
        if isinstance(ty, tuple) and ty[0] == "newtype":
            if f != "0":
                raise TranslateError(f"field {f} of newtype {ty[1]}")
            return V(b.t, ty[2], b.atomic)
        if isinstance(ty, tuple) and ty[0] == "struct":
            s = self.struct(ty[1])
            for (fn, fty) in s.decl:
                if fn == f:
                    return V(f"{b.p()}.{s.fields[f]}", fty, True)
        raise TranslateError(f"field {f} of {ty}")

    def cast(self, v, to):
        if v.ty in NAT_INTS and to in NAT_INTS:
            return V(v.t, to, v.atomic)        # 64-bit target: identity
        if v.ty == "usize" and to == "isize":
            return V(f"usizeToIsize {v.p()}", "isize")
        raise TranslateError(f"cast {v.ty} as {to} is outside the subset")

    def operand_ty(self, a, b, env, want):
        """type for the operands of a binary operator: an unsuffixed literal takes the type of the other side"""
        def lit(x):
            while x[0] == "paren":
                x = x[1]
            return x[0] == "lit" and x[2] is None
        if lit(a) and not lit(b):
            return self.type_of(b, env)
        if lit(b) and not lit(a):
            return self.type_of(a, env)
        if lit(a) and lit(b):
            return want
        return None

    def two(self, a, b, env, k, want):
        """evaluate two operands left to right"""
        hint = self.operand_ty(a, b, env, want)

        def with_l(l):
            r0 = self.rebinds

            def with_r(r):
                if self.rebinds != r0 and not (l.atomic and re.fullmatch(r"t\d+|\d+|\(\d+ : \w+\)", l.t)):
                    raise TranslateError("the right operand re-binds variables the left operand may mention")
                return k(l, r)
            return self.ex(b, env, with_r, hint or (l.ty if isinstance(l.ty, str) else None))
        return self.ex(a, env, with_l, hint)

    def binop(self, e, env, k, want):
        op = e[1]
        if op in ("==", "!=", "<", "<=", ">", ">=", "&&", "||"):
            return self.cond(e, env, lambda p: k(V(f"decide ({p})", "bool")))

        def go(l, r):
            if l.ty != r.ty:
                raise TranslateError(f"operand types {l.ty} / {r.ty} of `{op}`")
            if l.ty in NAT_INTS:
                if op in ("+", "-"):
                    t = self.fresh()
                    return self.bind_fallible(f"{'addChk' if op == '+' else 'subChk'} {l.p()} {r.p()}", t, k(V(t, l.ty, True)))
                if op == "%":
                    if not re.fullmatch(r"[1-9]\d*", r.t):
                        raise TranslateError("`%` by something that is not a non-zero literal")
                    return k(V(f"{l.p()} % {r.p()}", l.ty))
            if l.ty == "u8" and op == "^":
                return k(V(f"{l.p()} ^^^ {r.p()}", "u8"))
            raise TranslateError(f"operator `{op}` on {l.ty} is outside the subset")
        return self.two(e[2], e[3], env, go, want if isinstance(want, str) else None)

    # ---------------------------------------------------------------- conditions (Prop text)
    def has_eq(self, ty):
        return isinstance(ty, tuple) and ty[0] == "newtype" and self.prog.structs[ty[1]].eq is not None

    def cond(self, e, env, k):
        kind = e[0]
        if kind == "paren":
            return self.cond(e[1], env, k)
        if kind == "not":
            return self.cond(e[1], env, lambda p: k(f"¬ ({p})"))
        if kind == "bin" and e[1] in ("&&", "||"):
            a = self.pure_cond(e[2], env)
            b = self.pure_cond(e[3], env)
            sym = "∧" if e[1] == "&&" else "∨"
            return k(f"{self.cpar(a, e[2], e[1], True)} {sym} {self.cpar(b, e[3], e[1], False)}")
        if kind == "bin" and e[1] in ("==", "!=", "<", "<=", ">", ">="):
            sym = {"==": "=", "!=": "≠", "<": "<", "<=": "≤", ">": ">", ">=": "≥"}[e[1]]

            def go(l, r):
                if self.has_eq(l.ty):
                    if l.ty != r.ty or e[1] not in ("==", "!="):
                        raise TranslateError(f"comparison {l.ty} {e[1]} {r.ty}")
                    info = self.kernel_info(self.prog.structs[l.ty[1]].eq)
                    if info.fallible:
                        raise TranslateError("fallible PartialEq impl")
                    t = f"{info.lean_name}{self.gen_args(info)} {l.p()} {r.p()}"
                    return k(f"{t} = true" if e[1] == "==" else f"{t} = false")
                lt, rt = self.base_ty(l.ty), self.base_ty(r.ty)
                if lt != rt:
                    raise TranslateError(f"comparison of {lt} with {rt}")
                if lt in NAT_INTS + ("isize",):
                    return k(f"{l.p()} {sym} {r.p()}")
                if (lt == "bool" or (isinstance(lt, tuple) and lt[0] == "enum")) and e[1] in ("==", "!="):
                    return k(f"{l.p()} {sym} {r.p()}")
                raise TranslateError(f"comparison on {lt} is outside the subset")
            return self.two(e[2], e[3], env, go, None)
        # a bool-valued expression
        return self.ex(e, env, lambda v: self._bool_prop(v, k))

    def _bool_prop(self, v, k):
        if v.ty != "bool":
            raise TranslateError(f"condition of type {v.ty}")
        m = re.fullmatch(r"decide \((.*)\)", v.t, re.S)
        if m and self._balanced(m.group(1)):
            return k(m.group(1))
        return k(f"{v.p()} = true")

    @staticmethod
    def _balanced(s):
        d = 0
        for c in s:
            d += (c == "(") - (c == ")")
            if d < 0:
                return False
        return d == 0

    @staticmethod
    def cpar(text, e, outer, left):
        while e[0] == "paren":
            e = e[1]
        if e[0] == "bin" and e[1] in ("==", "!=", "<", "<=", ">", ">="):
            return text
        if e[0] == "bin" and e[1] == outer and not left:      # ∧ / ∨ are right associative in Lean
            return text
        if e[0] == "bin" and e[1] == outer and left:
            return f"({text})"
        return text if re.fullmatch(r"[\w.' =]+", text) else f"({text})"

    def pure_cond(self, e, env):
        r = self.cond(e, env, lambda p: "\0" + p + "\0")
        if not (r.startswith("\0") and r.endswith("\0")) or r.count("\0") != 2:
            raise TranslateError("a condition whose evaluation can fail, where only a pure one is supported")
        return r[1:-1]

    # ---------------------------------------------------------------- places: k(V current value, wb) ; wb(new V, k2() -> text) -> text
    def rebind(self, ln, nv, k2):
        if nv.t == ln:
            return k2()
        self.rebinds += 1
        return f"let {ln} := {nv.t}\n" + k2()

    def place(self, e, env, k):
        kind = e[0]
        if kind in ("paren", "mutref", "ref"):
            return self.place(e[1], env, k)
        if kind == "deref":
            if e[1][0] == "method" and e[1][2] == "offset":
                raise TranslateError("raw pointer place outside an assignment")
            return self.place(e[1], env, k)
        if kind == "path":
            name = e[1]
            if name not in env:
                raise TranslateError(f"unknown place {name}")
            ln, ty = env[name]
            return k(V(ln, ty, True), lambda nv, k2: self.rebind(ln, nv, k2))
        if kind == "field":
            def with_base(b, bwb):
                cur = self.field(b, e[2])
                bty = b.ty
                if isinstance(bty, tuple) and bty[0] == "newtype":
                    return k(cur, lambda nv, k2: bwb(V(nv.t, bty, nv.atomic), k2))
                lf = self.struct(bty[1]).fields[e[2]]

                def wb(nv, k2):
                    # the base is re-read: it may have been re-bound since (bases are variables / fields of variables)
                    return self.place(e[1], env, lambda b2, bwb2: bwb2(V(f"{{ {b2.t} with {lf} := {nv.t} }}", bty), k2))
                return k(cur, wb)
            return self.place(e[1], env, with_base)
        if kind == "index":
            return self.slice_place(e, env, k)
        raise TranslateError(f"place expression {kind} is outside the subset")

    def slice_place(self, e, env, k):
        ix = e[2]
        if ix[0] != "range" or (len(ix) > 3 and ix[3] != ".."):
            raise TranslateError("indexing by something that is not a `a..b` range")

        def with_base(b, bwb):
            if not self.is_bytes(b.ty):
                raise TranslateError(f"slicing of {b.ty}")
            n = self.static_len(b.ty)
            n = n if isinstance(n, int) else None
            blen = self.len_text(b)

            def with_bounds(lo, hi):
                def lit(v):
                    return int(v.t) if v is not None and re.fullmatch(r"\d+", v.t) else None
                lo_lit = 0 if lo is None else lit(lo)
                hi_lit = lit(hi)
                checks = []
                if hi is None:                                    # x[a..]
                    if lo_lit is not None and n is not None:
                        if lo_lit > n:
                            return self.fail()
                        rlen = n - lo_lit
                    else:
                        if lo_lit != 0:
                            checks.append(f"{lo.p()} ≤ {blen}")
                        rlen = None
                    val = b.t if lo_lit == 0 else f"{b.p()}.drop {lo.p()}"
                else:                                             # x[a..b]
                    if lo_lit is not None and hi_lit is not None:
                        if lo_lit > hi_lit:
                            return self.fail()
                        rlen = hi_lit - lo_lit
                    else:
                        if lo_lit != 0:
                            checks.append(f"{lo.p()} ≤ {hi.p()}")
                        rlen = None
                    if hi_lit is not None and n is not None:
                        if hi_lit > n:
                            return self.fail()
                    else:
                        checks.append(f"{hi.p()} ≤ {blen}")
                    if lo_lit == 0:
                        val = f"{b.p()}.take {hi.p()}"
                    elif rlen is not None:
                        val = f"({b.p()}.drop {lo.p()}).take {rlen}"
                    else:
                        val = f"({b.p()}.drop {lo.p()}).take ({hi.p()} - {lo.p()})"
                whole = lo_lit == 0 and (hi is None or (hi_lit is not None and hi_lit == n))
                if whole:
                    val, rlen = b.t, self.static_len(b.ty)
                cur = V(val, ("bytes", rlen), whole and b.atomic)

                def wb(nv, k2):
                    def again(b2, bwb2):
                        if whole:
                            return bwb2(V(nv.t, b2.ty, nv.atomic), k2)
                        parts = []
                        if lo_lit != 0:
                            parts.append(f"{b2.p()}.take {lo.p()}")
                        parts.append(nv.p())
                        if hi is not None and not (hi_lit is not None and hi_lit == n):
                            parts.append(f"{b2.p()}.drop {hi.p()}")
                        return bwb2(V(" ++ ".join(parts), b2.ty), k2)
                    return self.place(e[1], env, again)
                rest = k(cur, wb)
                return self.guard(" ∧ ".join(checks), rest) if checks else rest

            def with_lo(lo):
                if ix[2] is None:
                    return with_bounds(lo, None)
                return self.ex(ix[2], env, lambda hi: with_bounds(lo, hi), "usize")
            if ix[1] is None:
                return with_lo(None)
            return self.ex(ix[1], env, with_lo, "usize")
        return self.place(e[1], env, with_base)

    # ---------------------------------------------------------------- raw pointers (xor_keystream_mut)
    def ptr_target(self, recv, env):
        if recv[0] != "path" or recv[1] not in env or not (isinstance(env[recv[1]][1], tuple) and env[recv[1]][1][0] == "ptr"):
            raise TranslateError("`.offset` on something that is not a pointer obtained by as_ptr/as_mut_ptr")
        return env[recv[1]][1]

    def ptr_read(self, m, env, k):
        _, target, _ = self.ptr_target(m[1], env)
        if len(m[3]) != 1:
            raise TranslateError("offset arity")

        def with_i(i):
            if i.ty != "isize":
                raise TranslateError("pointer offset that is not an isize")
            t = self.fresh()
            return self.bind_fallible(f"getUB {env[target][0]} {i.p()}", t, k(V(t, "u8", True)))
        return self.ex(m[3][0], env, with_i, "isize")

    def ptr_write(self, m, v, env, k):
        _, target, mut = self.ptr_target(m[1], env)
        if not mut:
            raise TranslateError("write through a `*const` pointer")

        def with_i(i):
            if i.ty != "isize":
                raise TranslateError("pointer offset that is not an isize")
            buf = env[target][0]
            self.rebinds += 1
            return self.bind_fallible(f"setUB {buf} {i.p()} {v.p()}", buf, k())
        return self.ex(m[3][0], env, with_i, "isize")

    # ---------------------------------------------------------------- struct literals, calls
    def struct_lit(self, e, env, k):
        name = e[1]
        ty = self.self_ty if name == "Self" else self.norm_ty(name)
        if not (isinstance(ty, tuple) and ty[0] == "struct"):
            raise TranslateError(f"struct literal of {name}")
        s = self.struct(ty[1])
        given = dict(e[2])
        if sorted(given) != sorted(s.fields):
            raise TranslateError(f"struct literal of {ty[1]}: fields {sorted(given)}")
        vals = {}
        order = [f for f, _ in e[2]]
        r0 = self.rebinds

        def go(i):
            if i == len(order):
                if self.rebinds != r0:
                    raise TranslateError("a field initialiser re-binds variables")
                body = ", ".join(f"{s.fields[f]} := {vals[f].t}" for f, _ in s.decl)
                return k(V(f"({{ {body} }} : {s.lean})", ty, True))
            f = order[i]
            fty = dict(s.decl)[f]

            def got(v):
                self.check_assignable(v.ty, fty, f"field {f}")
                vals[f] = v
                return go(i + 1)
            return self.ex(given[f], env, got, fty)
        return go(0)

    def kernel_info(self, key):
        if key not in self.prog.kernels:
            raise TranslateError(f"function {key} is not translated (yet): order the kernels callee first")
        return self.prog.kernels[key]

    @staticmethod
    def gen_args(info):
        return "".join(" " + g for g in info.gens)

    def eval_args(self, args, kinds, tys, env, k):
        """evaluate the arguments left to right; k([(V, wb | None)])"""
        out = []
        r0 = self.rebinds

        def go(i):
            if i == len(args):
                return k(out)
            if i > 0 and self.rebinds != r0:
                raise TranslateError("an argument re-binds variables that other arguments may mention")
            if kinds[i] == "mutref":
                def got(v, wb):
                    out.append((v, wb)); return go(i + 1)
                return self.place(args[i], env, got)

            def gotv(v):
                out.append((v, None)); return go(i + 1)
            return self.ex(args[i], env, gotv, tys[i])
        return go(0)

    def call(self, e, env, k, want):
        f, args = e[1], e[2]
        if f[0] == "qpath":
            if f[2] != "try_from" or len(args) != 1:
                raise TranslateError(f"<T>::{f[2]}")
            to = self.norm_ty(f[1])
            if not self.is_bytes(to) or not isinstance(self.static_len(to), int):
                raise TranslateError("try_from into something that is not `[u8; N]`")

            def got(v):
                if not self.is_bytes(v.ty):
                    raise TranslateError("try_from of a non-buffer")
                return k(V(v.t, ("tryfrom", to, v.ty), v.atomic))
            return self.ex(args[0], env, got)
        if f[0] != "path":
            raise TranslateError("call of a computed function")
        parts = f[1].split("::")
        last = parts[-1]
        if len(parts) == 1 and (last == "Self" or last in self.prog.structs):        # newtype constructors
            ty = self.self_ty if last == "Self" else self.norm_ty(last)
            if isinstance(ty, tuple) and ty[0] == "newtype" and len(args) == 1:
                def got(v):
                    self.check_assignable(v.ty, ty[2], f"{ty[1]}(..)")
                    return k(V(v.t, ty, v.atomic))
                return self.ex(args[0], env, got, ty[2])
            raise TranslateError(f"call of {last}")
        owner = None
        if len(parts) >= 2:
            o = parts[-2]
            if o == "Self":
                oty = self.self_ty
                owner = oty[1] if isinstance(oty, tuple) and oty[0] in ("struct", "newtype") else None
            elif o in self.k.types:
                return self.ext_call((self.k.types[o], last), None, args, env, k, want)
            elif o in self.prog.structs:
                owner = o
            elif (None, "::".join(parts[-2:])) in self.prog.ext:
                return self.ext_call((None, "::".join(parts[-2:])), None, args, env, k, want)
            else:
                raise TranslateError(f"function {f[1]} is neither translated nor named by the spec")
        if (owner, last) in self.prog.kernels:
            return self.kernel_call(self.prog.kernels[(owner, last)], None, args, env, k, want)
        if owner is None and (None, last) in self.prog.ext:
            return self.ext_call((None, last), None, args, env, k, want)
        raise TranslateError(f"function {f[1]} is neither translated nor named by the spec")

    def method(self, e, env, k, want):
        recv, name, args = e[1], e[2], e[3]
        if name == "clone" and not args:
            return self.ex(recv, env, k, want)
        if name == "unwrap" and not args:
            def got(v):
                if not (isinstance(v.ty, tuple) and v.ty[0] == "tryfrom"):
                    raise TranslateError("unwrap of something that is not a try_from")
                to, frm = v.ty[1], v.ty[2]
                n, m = self.static_len(to), self.static_len(frm)
                val = V(v.t, to, v.atomic)
                if isinstance(m, int):
                    return k(val) if n == m else self.fail()
                return self.guard(f"{self.len_text(V(v.t, frm, v.atomic))} = {n}", k(val))
            return self.ex(recv, env, got)
        if name == "offset":
            raise TranslateError("pointer offset outside a dereference")
        if name in ("copy_from_slice", "fill") and len(args) == 1:
            unit = V("()", "unit", True)

            def with_dst(d, wb):
                if not self.is_bytes(d.ty):
                    raise TranslateError(f"{name} on {d.ty}")
                if name == "fill":
                    z = self.pure_ex(args[0], env, "u8")
                    if z.t != "(0 : UInt8)":
                        raise TranslateError("fill with something that is not the literal 0")
                    return wb(V(f"zeros {self.len_text(d)}", d.ty), lambda: k(unit))

                def with_src(s):
                    if not self.is_bytes(s.ty):
                        raise TranslateError("copy_from_slice from a non-buffer")
                    n, m = self.static_len(d.ty), self.static_len(s.ty)
                    if n is not None and n == m:
                        return wb(V(s.t, d.ty, s.atomic), lambda: k(unit))
                    if isinstance(n, int) and isinstance(m, int):
                        return self.fail()
                    return self.guard(f"{self.len_text(d)} = {self.len_text(s)}", wb(V(s.t, d.ty, s.atomic), lambda: k(unit)))
                return self.ex(args[0], env, with_src)
            return self.place(recv, env, with_dst)
        if name in ("as_ptr", "as_mut_ptr") and not args:
            r = recv
            while r[0] in ("paren", "ref", "mutref"):
                r = r[1]
            if r[0] != "path" or r[1] not in env or not self.is_bytes(env[r[1]][1]):
                raise TranslateError(f"{name} of something that is not a buffer variable")
            return k(V("()", ("ptr", r[1], name == "as_mut_ptr"), True))
        rty = self.type_of(recv, env)
        if self.is_bytes(rty) and name == "len" and not args:
            return self.ex(recv, env, lambda v: k(V(self.len_text(v), "usize", isinstance(self.static_len(v.ty), int))))
        probe = rty
        while True:
            tn = probe[1] if isinstance(probe, tuple) and probe[0] in ("struct", "newtype") else None
            if tn is not None and (tn, name) in self.prog.kernels:
                return self.kernel_call(self.prog.kernels[(tn, name)], recv, args, env, k, want)
            if isinstance(probe, tuple) and probe[0] == "newtype":
                probe = probe[2]
                continue
            break
        b = self.base_ty(rty)
        if isinstance(b, tuple) and b[0] == "ext" and (b[1], name) in self.prog.ext:
            return self.ext_call((b[1], name), recv, args, env, k, want)
        if self.is_bytes(b) and ("bytes", name) in self.prog.ext:
            return self.ext_call(("bytes", name), recv, args, env, k, want)
        raise TranslateError(f"method {name} of {rty} is neither translated nor named by the spec")

    def kernel_call(self, info, recv, args, env, k, want):
        selfp = [p for p in info.params if p[0] == "self"]
        others = [p for p in info.params if p[0] != "self"]
        if (recv is not None) != bool(selfp) or len(others) != len(args):
            raise TranslateError(f"call of {info.lean_name}: arity")
        ps = selfp + others
        all_args = ([recv] if recv is not None else []) + list(args)
        kinds = [("mutref" if p[1] in ("self_mut", "mutref") else "val") for p in ps]
        tys = [p[2] for p in ps]

        def got(vals):
            consts = {}
            for (v, _), p in zip(vals, ps):
                pty = p[2]
                if self.is_bytes(pty) and isinstance(self.static_len(pty), str):
                    if not self.is_bytes(v.ty):
                        raise TranslateError(f"argument {p[0]} of {info.lean_name}")
                    consts[self.static_len(pty)] = self.static_len(v.ty)
                else:
                    self.check_assignable(v.ty, pty, f"argument {p[0]} of {info.lean_name}")
            ret = info.ret
            extra = []
            for c in info.explicit_consts:
                if not (self.is_bytes(ret) and self.static_len(ret) == c and want is not None and self.is_bytes(want)
                        and self.static_len(want) is not None):
                    raise TranslateError(f"cannot infer the const generic {c} of {info.lean_name} from the expected type")
                n = self.static_len(want)
                extra.append(str(n) if isinstance(n, int) else self.fn_consts[n])
                ret = ("bytes", n)
            if self.is_bytes(ret) and isinstance(self.static_len(ret), str):
                ret = ("bytes", consts.get(self.static_len(ret)))
            call = info.lean_name + self.gen_args(info) + "".join(" " + v.p() for v, _ in vals) + "".join(" " + x for x in extra)
            outs = [(v, wb) for (v, wb), p in zip(vals, ps) if p[1] in ("self_mut", "mutref")]
            return self.bind_call(call, info.fallible, outs, ret, k)
        return self.eval_args(all_args, kinds, tys, env, got)

    def bind_call(self, call, fallible, outs, ret, k):
        """bind the result tuple (written-back places…, return value) of a call and continue with k(return value)"""
        names = [(v.t if v.atomic and re.fullmatch(r"[\w']+", v.t) else self.fresh()) for v, wb in outs]
        rname = self.fresh() if ret != "unit" else None
        pats = names + ([rname] if rname else [])

        def after(i=0):
            if i == len(outs):
                return k(V(rname, ret, True) if rname else V("()", "unit", True))
            v, wb = outs[i]
            if names[i] == v.t:
                self.rebinds += 1
            return wb(V(names[i], v.ty, True), lambda: after(i + 1))
        if not pats:
            raise TranslateError(f"the call {call} returns nothing and changes nothing")
        if fallible:
            return self.bind_fallible(call, self.tuple_text(pats), after())
        if len(pats) == 1:
            return f"let {pats[0]} := {call}\n" + after()
        return f"match {call} with\n| {self.tuple_text(pats)} =>\n" + after()

    def ext_call(self, key, recv, args, env, k, want):
        x = self.prog.ext.get(key)
        if x is None:
            raise TranslateError(f"{key} is not named by the spec")
        if (recv is not None) != (x.self_kind is not None) or len(args) != len(x.kinds):
            raise TranslateError(f"call of {key}: arity")
        all_args = ([recv] if recv is not None else []) + list(args)
        kinds = (["mutref" if x.self_kind == "mut" else "val"] if recv is not None else []) + x.kinds
        atys = [(self.norm_ty_spec(t) if t else None) for t in x.argtys]
        tys = ([None] if recv is not None else []) + atys

        def got(vals):
            rv = vals[0][0] if recv is not None else None
            avs = [v for v, _ in (vals[1:] if recv is not None else vals)]
            for v, t in zip(avs, atys):
                if t is not None:
                    self.check_assignable(v.ty, t, f"argument of {key[1]}")
            if x.check:
                x.check(self, rv, avs)
            if callable(x.call):
                call = x.call(self, rv, avs)
            else:
                call = x.call
                for i, v in enumerate(avs):
                    call = call.replace("{%d}" % i, v.p())
                    if "{len%d}" % i in call:
                        call = call.replace("{len%d}" % i, self.len_text(v))
                call = call.replace("{self}", rv.p() if rv else "")
            ret = x.ret(self, rv, avs) if callable(x.ret) else self.norm_ty_spec(x.ret)
            outs = []
            for o in x.outs:
                if o == "self":
                    outs.append(vals[0])
                elif o != "ret":
                    outs.append(vals[int(o) + (1 if recv is not None else 0)])
            if "ret" not in x.outs:
                ret = "unit"
            if not outs and not x.fallible:
                return k(V(call, ret))
            return self.bind_call(call, x.fallible, outs, ret, k)
        return self.eval_args(all_args, kinds, tys, env, got)

    def norm_ty_spec(self, t):
        if isinstance(t, tuple) or t in ("u8", "u32", "u64", "usize", "isize", "bool", "unit"):
            return t
        return self.norm_ty(t)

    def if_value(self, e, env, k, want):
        c, a, b = e[1], e[2], e[3]
        if b is None:
            raise TranslateError("`if` without `else` in value position")
        p = self.pure_cond(c, env)
        (ta, tya), (tb, tyb) = self.block_value(a, env, want), self.block_value(b, env, want)
        if self.base_ty(tya) != self.base_ty(tyb):
            raise TranslateError("branches of an `if` value have different types")
        return k(V(f"if {p} then {ta} else {tb}", tya))

    def block_value(self, stmts, env, want):
        if len(stmts) != 1 or stmts[0][0] != "ret":
            raise TranslateError("a branch of an `if` value that is not a single expression")
        v = self.pure_ex(stmts[0][1], env, want)
        return v.p(), v.ty

    # ---------------------------------------------------------------- statements (CPS): kfin(env, ret V | None) -> text
    def seq(self, stmts, i, env, kfin):
        if i == len(stmts):
            return kfin(env, None)
        s = stmts[i]
        kind = s[0]

        def rest(env2=None):
            return self.seq(stmts, i + 1, env if env2 is None else env2, kfin)
        if kind == "let":
            return self.do_let(s, env, rest)
        if kind == "assign":
            return self.do_assign(s, env, rest)
        if kind == "expr":
            return self.do_expr_stmt(s[1], env, rest)
        if kind == "while":
            return self.do_while(s, env, rest)
        if kind == "for":
            return self.do_for(s, env, rest)
        if kind == "ret":
            if i != len(stmts) - 1:
                raise TranslateError("early return")
            e = s[1]
            if e[0] in ("macro", "blockexpr") or (e[0] in ("method", "call", "if") and self.fn_ret == "unit") \
                    or (e[0] == "if" and e[3] is None):
                return self.do_expr_stmt(e, env, lambda env2=None: kfin(env if env2 is None else env2, None))
            return self.ex(e, env, lambda v: kfin(env, v), self.ret_want)
        raise TranslateError(f"statement {kind} is outside the subset")

    def do_let(self, s, env, rest):
        _, pat, ty, init = s
        if pat[0] != "var":
            raise TranslateError("destructuring `let` is outside the subset")
        name = pat[1]
        dty = self.norm_ty(ty) if ty is not None else None
        if init is None:
            raise TranslateError("`let` without initialiser")
        ln = sanitize(name)

        def got(v):
            vty = v.ty
            if isinstance(vty, tuple) and vty[0] == "tryfrom":
                raise TranslateError("a try_from result must be unwrapped at once")
            if dty is not None:
                self.check_assignable(vty, dty, f"let {name}")
                if not (self.is_bytes(dty) and self.static_len(dty) is None):
                    vty = dty
            env3 = dict(env)
            env3.pop(name, None)
            env3[name] = (ln, vty)
            if isinstance(vty, tuple) and vty[0] == "ptr":
                return rest(env3)
            if name in env:
                self.rebinds += 1
            return f"let {ln} := {v.t}\n" + rest(env3)
        return self.ex(init, env, got, dty)

    def do_assign(self, s, env, rest):
        _, lhs, op, rhs = s
        if lhs[0] == "deref" and lhs[1][0] == "method" and lhs[1][2] == "offset":
            if op != "=":
                raise TranslateError("compound assignment through a pointer")
            return self.ex(rhs, env, lambda v: self.ptr_write(lhs[1], v, env, rest), "u8")
        lty = self.type_of(lhs, env)
        if op == "=":
            # the value is computed first, then the place is written
            def got(v):
                def with_place(cur, wb):
                    self.check_assignable(v.ty, cur.ty, "assignment")
                    return wb(V(v.t, cur.ty, v.atomic), rest)
                return self.place(lhs, env, with_place)
            return self.ex(rhs, env, got, lty)
        if op in ("+=", "-="):
            def with_rhs(r):
                def with_place(cur, wb):
                    if cur.ty not in NAT_INTS or r.ty != cur.ty:
                        raise TranslateError(f"`{op}` on {cur.ty} / {r.ty}")
                    t = self.fresh()
                    fn = "addChk" if op == "+=" else "subChk"
                    return self.bind_fallible(f"{fn} {cur.p()} {r.p()}", t, wb(V(t, cur.ty, True), rest))
                return self.place(lhs, env, with_place)
            return self.ex(rhs, env, with_rhs, lty)
        raise TranslateError(f"assignment operator {op} is outside the subset")

    def do_expr_stmt(self, e, env, rest):
        kind = e[0]
        if kind == "macro":
            return self.do_macro(e, env, rest)
        if kind == "blockexpr":
            for s in e[1]:
                if s[0] == "let":
                    raise TranslateError("`let` inside a nested block")
            return self.seq(e[1], 0, env, lambda env2, r: rest())
        if kind == "if":
            return self.do_if(e, env, rest)
        if kind in ("method", "call"):
            def k(v):
                if v.ty != "unit":
                    raise TranslateError(f"the value of a call ({v.ty}) is dropped")
                return rest()
            return self.ex(e, env, k)
        raise TranslateError(f"expression statement {kind} is outside the subset")

    def do_macro(self, e, env, rest):
        name, args = e[1], e[2]
        if name == "assert":
            if len(args) < 1:
                raise TranslateError("assert! without condition")
            c = self.parse_tokens(args[0])
            return self.cond(c, env, lambda p: self.guard(p, rest()))
        if name == "assert_eq":
            if len(args) < 2:
                raise TranslateError("assert_eq! arity")
            a, b = self.parse_tokens(args[0]), self.parse_tokens(args[1])
            return self.cond(("bin", "==", a, b), env, lambda p: self.guard(p, rest()))
        if name in ("panic", "unreachable"):
            return self.fail()
        raise TranslateError(f"macro {name}! is outside the subset")

    @staticmethod
    def parse_tokens(toks):
        p = P3(list(toks))
        e = p.expr()
        if p.peek()[0] != "eof":
            raise TranslateError("macro argument: trailing tokens")
        return e

    # ---------------------------------------------------------------- assigned variables / free variables
    def mut_positions(self, name):
        """over-approximation by NAME: may a call of `name` mutate its receiver / which argument positions"""
        recv_mut, pos = name in ("copy_from_slice", "fill"), set()
        for (owner, fn), info in self.prog.kernels.items():
            if fn == name:
                recv_mut |= any(p[1] == "self_mut" for p in info.params)
                pos |= {j for j, p in enumerate([p for p in info.params if p[0] != "self"]) if p[1] == "mutref"}
        for (owner, fn), x in self.prog.ext.items():
            if fn.split("::")[-1] == name:
                recv_mut |= x.self_kind == "mut"
                pos |= {j for j, kd in enumerate(x.kinds) if kd == "mutref"}
        return recv_mut, pos

    def root(self, e, env):
        while True:
            if e[0] in ("paren", "ref", "mutref", "deref", "field", "index"):
                e = e[1]
            elif e[0] == "method" and e[2] == "offset":
                e = e[1]
            else:
                break
        if e[0] == "path":
            n = e[1]
            if n in env and isinstance(env[n][1], tuple) and env[n][1][0] == "ptr":
                return env[n][1][1]
            return n
        return None

    def assigned(self, stmts, env, acc=None, local=None):
        acc = set() if acc is None else acc
        local = set() if local is None else local

        def mark(e):
            r = self.root(e, env)
            if r is not None and r not in local:
                acc.add(r)

        def walk_e(e):
            if isinstance(e, list):
                for y in e:
                    walk_e(y)
                return
            if not isinstance(e, tuple) or not e:
                return
            k = e[0]
            if k == "mutref":
                mark(e[1])
            if k == "method":
                rm, pos = self.mut_positions(e[2])
                if rm:
                    mark(e[1])
                for j in pos:
                    if j < len(e[3]):
                        mark(e[3][j])
                walk_e(e[1]); walk_e(e[3])
                return
            if k == "call":
                nm = e[1][1].split("::")[-1] if e[1][0] == "path" else ""
                rm, pos = self.mut_positions(nm)
                for j in pos:
                    if j < len(e[2]):
                        mark(e[2][j])
                walk_e(e[2])
                return
            if k == "macro":
                return
            if k == "if":
                walk_e(e[1]); self.assigned(e[2], env, acc, set(local))
                if e[3]:
                    self.assigned(e[3], env, acc, set(local))
                return
            if k == "blockexpr":
                self.assigned(e[1], env, acc, set(local)); return
            for x in e[1:]:
                if isinstance(x, (tuple, list)):
                    walk_e(x)
        for s in stmts:
            k = s[0]
            if k == "let":
                if s[3] is not None:
                    walk_e(s[3])
                if s[1][0] == "var":
                    local.add(s[1][1])
            elif k == "assign":
                mark(s[1]); walk_e(s[1]); walk_e(s[3])
            elif k in ("expr", "ret"):
                walk_e(s[1])
            elif k == "while":
                walk_e(s[1]); self.assigned(s[2], env, acc, set(local))
            elif k == "for":
                loc2 = set(local)
                if s[1][0] == "var":
                    loc2.add(s[1][1])
                walk_e(s[2]); self.assigned(s[3], env, acc, loc2)
            else:
                raise TranslateError(f"statement {k} is outside the subset")
        return acc

    def free_names(self, node, out=None):
        out = set() if out is None else out
        if isinstance(node, tuple):
            if node and node[0] == "path" and isinstance(node[1], str):
                out.add(node[1])
            if node and node[0] == "macro":
                for toks in node[2]:
                    for t in toks:
                        if t[0] == "id":
                            out.add(t[1])
                return out
            for x in node:
                self.free_names(x, out)
        elif isinstance(node, list):
            for x in node:
                self.free_names(x, out)
        return out

    def closure_vars(self, nodes, env, carried):
        names = self.free_names(nodes)
        cap = []
        for n in env:                                     # declaration order
            if n in names and n not in carried:
                ty = env[n][1]
                if isinstance(ty, tuple) and ty[0] == "ptr":
                    if ty[1] not in carried and ty[1] not in cap:
                        cap.append(ty[1])
                    continue
                if n not in cap:
                    cap.append(n)
        return cap

    # ---------------------------------------------------------------- if statements
    def sub_block(self, stmts, env, outs, mode):
        def fin(env2, r):
            if r is not None and r.ty != "unit":
                raise TranslateError("a nested block with a value")
            return self.final(self.tuple_text([env[n][0] for n in outs]))
        saved = self.mode
        try:
            self.mode = mode
            return self.seq(stmts, 0, env, fin)
        finally:
            self.mode = saved

    def do_if(self, e, env, rest):
        c, a, b = e[1], e[2], e[3] or []
        p = self.pure_cond(c, env)
        asg = self.assigned(a, env) | self.assigned(b, env)
        outs = [n for n in env if n in asg]
        if not outs:
            raise TranslateError("an `if` statement that assigns nothing")
        pat = self.tuple_text([env[n][0] for n in outs])
        saved = (self.tmp, self.rebinds, list(self.aux), self.nloops)
        try:
            ta, tb = self.sub_block(a, env, outs, "pure"), self.sub_block(b, env, outs, "pure")
            self.rebinds += 1
            if "\n" not in ta and "\n" not in tb:
                return f"let {pat} := if {p} then {ta} else {tb}\n" + rest()
            return f"let {pat} :=\n  if {p} then\n{indent(ta, 4)}\n  else\n{indent(tb, 4)}\n" + rest()
        except NeedExcept:
            self.tmp, self.rebinds, self.aux, self.nloops = saved
        self.need_except()
        ta, tb = self.sub_block(a, env, outs, "except"), self.sub_block(b, env, outs, "except")
        self.rebinds += 1
        sty = " × ".join(self.lean_ty(env[n][1]) for n in outs)
        sty = f"({sty})" if " " in sty else sty
        return (f"match (if {p} then\n{indent(ta, 4)}\n  else\n{indent(tb, 4)} : Except String {sty}) with\n"
                f"| .error e => .error e\n| .ok {pat} =>\n" + rest())

    # ---------------------------------------------------------------- loops
    def binder(self, env, n):
        return f"({env[n][0]} : {self.lean_ty(env[n][1])})"

    def used_gens(self, text):
        return [g for g, _ in self.prog.generics if re.search(r"(?<![\w.'])" + re.escape(g) + r"(?![\w'])", text)]

    def aux_def(self, name, binders, ret, body, doc):
        gens = self.used_gens(body)
        gb = "".join(" " + b for g, b in self.prog.generics if g in gens)
        self.aux.append(f"/-- {doc} -/\ndef {name}{gb} {' '.join(binders)} : {ret} :=\n{indent(body)}\n\n")
        return "".join(" " + g for g in gens)

    def loop_parts(self, body, env, env_b, extra_nodes):
        carried = [n for n in env if n in self.assigned(body, env_b)]
        if not carried:
            raise TranslateError("a loop that assigns nothing")
        caps = self.closure_vars(extra_nodes + [body], env, carried)
        sty = " × ".join(self.lean_ty(env[n][1]) for n in carried)
        pat = self.tuple_text([env[n][0] for n in carried])
        destruct = f"match st with\n| {pat} =>\n" if len(carried) > 1 else f"let {pat} := st\n"
        base = self.k.lean_name[:-4] if self.k.lean_name.endswith("_src") else self.k.lean_name
        return carried, caps, sty, pat, destruct, base

    def loop_body(self, body, env_b, carried):
        saved = self.mode
        self.mode = "except"
        try:
            return self.seq(body, 0, env_b, lambda env2, r: ".ok " + self.tuple_text([env_b[n][0] for n in carried]))
        finally:
            self.mode = saved

    def do_while(self, s, env, rest):
        self.need_except()
        _, c, body = s
        self.nloops += 1
        idx = self.nloops
        if idx not in self.k.variants:
            raise TranslateError(f"`while` loop {idx}: the spec gives no variant (fuel)")
        carried, caps, sty, pat, destruct, base = self.loop_parts(body, env, env, [c])
        binders = [self.binder(env, n) for n in caps] + [f"(st : {sty})"]
        p = self.pure_cond(c, env)
        cname, bname = f"{base}_loop{idx}_cond_src", f"{base}_loop{idx}_body_src"
        origin = f"GENERATED from `fn {self.k.fn}` in {self.k.file}"
        cg = self.aux_def(cname, binders, "Bool", destruct + f"decide ({p})", f"condition of `while` loop {idx} of `{self.k.fn}` — {origin}")
        btext = self.loop_body(body, env, carried)
        bg = self.aux_def(bname, binders, f"Except String ({sty})" if " " in sty else f"Except String {sty}", destruct + btext,
                          f"one iteration of `while` loop {idx} of `{self.k.fn}` on the assigned variables ({', '.join(carried)}) — {origin}")
        capargs = "".join(" " + env[n][0] for n in caps)
        call = f"whileFuel ({cname}{cg}{capargs}) ({bname}{bg}{capargs}) ({self.k.variants[idx]}) {pat}"
        self.rebinds += 1
        return self.bind_fallible(call, pat, rest())

    def do_for(self, s, env, rest):
        _, pat, it, body = s
        if pat[0] != "var" or it[0] != "range" or it[1] is None or it[2] is None or (len(it) > 3 and it[3] != ".."):
            raise TranslateError("`for` over something that is not `a..b`")
        self.need_except()
        self.nloops += 1
        idx = self.nloops
        lo = self.pure_ex(it[1], env, "isize")
        hi = self.pure_ex(it[2], env, "isize")
        if lo.ty != "isize" or hi.ty != "isize":
            raise TranslateError("`for` over a range that is not isize")
        ivar = pat[1]
        env_b = dict(env); env_b[ivar] = (sanitize(ivar), "isize")
        carried, caps, sty, spat, destruct, base = self.loop_parts(body, env, env_b, [])
        binders = [self.binder(env, n) for n in caps] + [f"({sanitize(ivar)} : Int)", f"(st : {sty})"]
        bname = f"{base}_loop{idx}_body_src"
        btext = self.loop_body(body, env_b, carried)
        origin = f"GENERATED from `fn {self.k.fn}` in {self.k.file}"
        bg = self.aux_def(bname, binders, f"Except String ({sty})" if " " in sty else f"Except String {sty}", destruct + btext,
                          f"one iteration of `for` loop {idx} of `{self.k.fn}` on the assigned variables ({', '.join(carried)}) — {origin}")
        capargs = "".join(" " + env[n][0] for n in caps)
        self.rebinds += 1
        return self.bind_fallible(f"forRangeI {lo.p()} {hi.p()} ({bname}{bg}{capargs}) {spat}", spat, rest())


# ------------------------------------------------------------------------------------------------ driver

def translate(k: GK):
    prog = k.prog
    text = strip_comments(read_src(k.file))
    hdr, body = find_fn_in(find_blocks(text, k.scope) if k.scope else [text], k.fn)
    # statement attributes, nested items, inner-block shadowing, `let x = &mut …` aliases (copy semantics here), re-bound `&mut`
    # parameters (the result tuple is read under the parameter names) and changed imports are refused (tools/ktx_glue_guard.py)
    GUARD.lint_fn(hdr + " {", body, what=f"fn {k.fn}")
    GUARD.check_fn_uses(k.file, text, hdr, body, what=f"fn {k.fn}")
    tr = Tr(k)
    consts, params, ret = parse_header(hdr)
    fnc = [c for c in consts if c not in prog.const_generics]      # fn-level const generics that are not impl generics
    tr.fn_consts = {c: c for c in fnc}
    if k.self_ty:
        tr.self_ty = tr.norm_ty(k.self_ty)
    toks = lex(protect_strings(body))
    for t in toks:
        # kernel_translate.P.block would skip these silently
        if t[0] == "op" and t[1] == "#":
            raise TranslateError("an attribute (`#[cfg]`, …) inside the function body is outside the subset")
        if t[0] == "id" and t[1] in ("fn", "return", "loop", "break", "continue", "match", "impl", "struct", "static", "const", "use", "move", "dyn"):
            raise TranslateError(f"`{t[1]}` inside the function body is outside the subset")
    stmts = P3(toks).block()
    env, binders, guards, entry, inferred, nparams = {}, [], [], [], {}, []
    for name, kind, ty in params:
        nty = ("opaque", k.opaque[name]) if name in k.opaque else tr.norm_ty(ty)
        nparams.append((name, kind, nty))
        ln = sanitize(name)
        env[name] = (ln, nty)
        binders.append(f"({ln} : {tr.lean_ty(nty)})")
        if tr.is_bytes(nty) and name != "self" and ty != "Self":
            # what the Rust type system refuses; `self`/`Self`-typed parameters inside the impl of a newtype carry the type's invariant
            n = tr.static_len(nty)
            if isinstance(n, int):
                guards.append(f"{ln}.length ≠ {n}")
            elif isinstance(n, str):
                if n in inferred:
                    guards.append(f"{ln}.length ≠ {inferred[n]}")
                else:
                    inferred[n] = f"{ln}.length"
                    entry.append(f"let {n} := {ln}.length")
    explicit = [c for c in fnc if c not in inferred]
    binders += [f"({c} : Nat)" for c in explicit]
    nret = tr.norm_ty(ret)
    tr.fn_ret = nret
    tr.ret_want = nret if nret != "unit" else None
    outs = [name for name, kind, _ in nparams if kind in ("self_mut", "mutref")]

    def fin(env2, r):
        items = [env[n][0] for n in outs]
        if nret != "unit":
            if r is None:
                raise TranslateError("missing return value")
            if not (k.ret_lean and r.ty == ("opaque", k.ret_lean)):
                tr.check_assignable(r.ty, nret, "return value")
            items.append(r.t)
        elif r is not None and r.ty != "unit":
            raise TranslateError("a value where `()` is returned")
        if not items:
            raise TranslateError("the function returns nothing and changes nothing")
        if len(items) == 1:
            one = items[0]
            return tr.final(one if re.fullmatch(r"\(.*\)", one, re.S) and Tr._balanced(one[1:-1]) else V(one, None).p())
        return tr.final(tr.tuple_text(items))

    def run():
        tr.tmp, tr.aux, tr.nloops, tr.rebinds = 0, [], 0, 0
        return tr.seq(stmts, 0, env, fin)
    fallible = bool(guards)
    tr.mode = "except" if fallible else "pure"
    try:
        btext = run()
    except NeedExcept:
        fallible = True
        tr.mode = "except"
        btext = run()
    pre = ""
    if guards:
        pre += f"if {' ∨ '.join(guards)} then .error \"bad-args\" else\n"
    pre += "".join(l + "\n" for l in entry)
    btext = pre + btext
    out_tys = [tr.lean_ty(env[n][1]) for n in outs] + ([k.ret_lean or tr.lean_ty(nret)] if nret != "unit" else [])
    rty = " × ".join(out_tys)
    if fallible:
        rty = f"Except String ({rty})" if " " in rty else f"Except String {rty}"
    gens = tr.used_gens(btext + "".join(tr.aux))
    gb = "".join(" " + b for g, b in prog.generics if g in gens)
    info = Info()
    info.lean_name, info.params, info.ret, info.fallible, info.gens = k.lean_name, nparams, nret, fallible, gens
    info.explicit_consts = explicit
    prog.kernels[(k.self_ty, k.fn)] = info
    where = f"`fn {k.fn}`" + (f" of `{k.self_ty}`" if k.self_ty else "")
    res = ", ".join(outs + (["return value"] if nret != "unit" else []))
    doc = f"/-- {k.doc + ' — ' if k.doc else ''}GENERATED from {where} in {k.file}; result: ({res}) -/\n"
    return "".join(tr.aux) + doc + f"def {k.lean_name}{gb} {' '.join(binders)} : {rty} :=\n{indent(btext)}\n"
