#!/usr/bin/env python3
"""run_check.py <PROPERTY> [--tier quick|thorough] [--replay FILE]

Decides one property of /verif/properties.jsonl on /repo's current working tree.
exit 0: held on everything explored (KNOWN-FINDING lines possible);
exit 1: `VIOLATION property=<id> replay=<path>[ no-failing-input-found]`;
exit 2: the machinery itself could not run (e.g. /repo does not compile).
"""
import argparse
import importlib
import json
import os
import sys
import time

sys.path.insert(0, os.path.dirname(os.path.abspath(__file__)))
import cxlib as cx  # noqa: E402
import extract_tables  # noqa: E402


def write_replay(prop, tag, payload):
    os.makedirs(cx.REPLAYS, exist_ok=True)
    h = cx.hashlib.sha1(json.dumps(payload, sort_keys=True).encode()).hexdigest()[:12]
    p = os.path.join(cx.REPLAYS, f"{prop}-{tag}-{h}.json")
    with open(p, "w") as f:
        json.dump(payload, f, indent=1)
    return p


def main():
    ap = argparse.ArgumentParser()
    ap.add_argument("prop")
    ap.add_argument("--tier", default=os.environ.get("VERIF_TIER", "quick"))
    ap.add_argument("--replay")
    ap.add_argument("--no-build", action="store_true", help="skip lake/cargo builds (debugging only)")
    args = ap.parse_args()
    prop, tier = args.prop, args.tier
    if tier not in ("quick", "thorough"):
        tier = "quick"
    seed = int(os.environ.get("VERIF_SEED", "20260927"))
    t0 = time.time()
    P = importlib.import_module("props." + prop)
    mods = list(P.LEAN_MODULES)
    variants = list(getattr(P, "VARIANTS", ["default"]))
    known = cx.load_known()
    broken = []          # proof obligations / tie pieces that no longer check
    notes = []

    # 1. translator: regenerate Extracted/ from the working tree
    ext = extract_tables.regenerate()
    for e in ext["errors"]:
        broken.append({"kind": "extraction", "theorem": None, "file": e["table"], "message": e["error"]})
    cx.log(f"[{prop}] extracted {ext['tables']} tables ({len(ext['errors'])} errors), changed={ext['changed']}")

    # 2. proofs
    thms = []
    for m in mods:
        thms += cx.theorems_of(m)
    obligations = len(thms)
    build_ok = True
    if not args.no_build:
        rc, out, dt = cx.lake_build(mods + ["cxdrv"])
        cx.log(f"[{prop}] lake build rc={rc} in {dt:.1f}s")
        if rc != 0:
            build_ok = False
            fd = cx.failing_decls(out, mods)
            for b in fd:
                b["kind"] = "proof"
                broken.append(b)
            if not fd:
                broken.append({"kind": "proof", "theorem": None, "file": "?", "message": out[-1500:]})
            # the driver may still build on its own
            rc2, out2, _ = cx.lake_build(["cxdrv"])
            if rc2 != 0:
                broken.append({"kind": "driver", "theorem": None, "file": "cxdrv", "message": out2[-1500:]})
    # 3. audit
    axioms, problems = ({}, [])
    discharged = 0
    if build_ok and not args.no_build:
        axioms, problems = cx.audit(mods)
        for pr in problems:
            broken.append({"kind": "audit", "theorem": None, "file": "audit", "message": pr})
        discharged = sum(1 for (t, _) in thms if t in axioms and all(a in cx.ALLOWED_AXIOMS for a in axioms[t]))
    elif args.no_build:
        discharged = obligations
    else:
        bad = {b.get("theorem") for b in broken}
        badfiles = {b.get("file") for b in broken}
        discharged = 0 if any(b.get("theorem") is None and b["kind"] == "proof" for b in broken) else \
            sum(1 for (t, _) in thms if t not in bad)
    if tier == "thorough" and build_ok and not args.no_build:
        for m in mods:
            rc, out = cx.sh(["lake", "env", "leanchecker", m], cwd=cx.LEAN, timeout=3600)
            cx.log(f"[{prop}] leanchecker {m} rc={rc}")
            if rc != 0:
                broken.append({"kind": "leanchecker", "theorem": None, "file": m, "message": out[-800:]})

    # 4. harness builds
    if not args.no_build:
        for v in variants:
            rc, out, dt = cx.cargo_build(v)
            cx.log(f"[{prop}] cargo build {v} rc={rc} in {dt:.1f}s")
            if rc != 0:
                if getattr(P, "BUILD_FAILURE_IS_VIOLATION", {}).get(v):
                    broken.append({"kind": "build", "theorem": None, "file": v, "message": out[-1500:]})
                    variants = [x for x in variants if x != v]
                    continue
                print(f"ERROR: harness variant {v} does not build against /repo:\n{out[-3000:]}")
                sys.exit(2)

    # 5. cases
    rng = cx.Rng(seed)
    cases = []   # (line, kind)
    if args.replay:
        rp = json.load(open(args.replay))
        for c in rp.get("cases", []):
            cases.append((c["line"], c.get("kind", "replay")))
    else:
        corpus = os.path.join(cx.VERIF, "corpus", prop + ".txt")
        if os.path.exists(corpus):
            for l in open(corpus):
                l = l.strip()
                if l and not l.startswith("#"):
                    cases.append((l, "corpus"))
        for line, kind in P.gen(tier, rng):
            cases.append((line, kind))
    lines = [c[0] for c in cases]
    cx.log(f"[{prop}] {len(lines)} cases")
    outs = {}
    driver_ok = os.path.exists(cx.CXDRV)
    t1 = time.time()
    for v in variants:
        outs["code:" + v] = cx.run_exec([cx.harness_bin(v), "run"], lines)
    cx.log(f"[{prop}] code done in {time.time()-t1:.1f}s")
    t1 = time.time()
    if driver_ok:
        outs["impl"] = cx.run_exec([cx.CXDRV, "impl"], lines)
        outs["spec"] = cx.run_exec([cx.CXDRV, "spec"], lines)
    cx.log(f"[{prop}] models done in {time.time()-t1:.1f}s")

    # 6. classify
    failing = []      # code differs from the value the property demands
    model_only = []   # code == spec but Impl model differs (correspondence off, property intact there)
    dist = {}
    nontriv = set()
    metamorphic = 0
    cmp_fn = getattr(P, "compare", None)
    for i, (line, kind) in enumerate(cases):
        dist[kind] = dist.get(kind, 0) + 1
        row = {k: o[i] for k, o in outs.items()}
        if cmp_fn:
            verdict = cmp_fn(line, kind, row)
        else:
            verdict = default_compare(row, variants, kind)
        if verdict[0] == "fail":
            failing.append({"line": line, "kind": kind, "answers": row, "why": verdict[1]})
        elif verdict[0] == "model":
            model_only.append({"line": line, "kind": kind, "answers": row, "why": verdict[1]})
        if P.nontrivial(line, kind, row):
            nontriv.add(line)
        if row.get("spec") == "=" or (row.get("spec") in (None, "?") and row.get("impl") == "="):
            metamorphic += 1
    extra = {}
    if hasattr(P, "extra_checks"):
        extra = P.extra_checks(tier, rng, variants, broken, failing) or {}

    # 6a. Spec-vs-world: the Lean Spec the theorems refine is compared with independent implementations of the
    #     standards (hashlib, OpenSSL, small reference programs, published vectors) on this property's case stream.
    #     A line where the Spec differs from the standard is a line on which the property is not shown (and, when the
    #     code agrees with the Spec, fails): it is reported as a failing input.
    spec_oracle = None
    if driver_ok and not args.replay:
        try:
            import spec_oracles
            so = spec_oracles.run_for_property(prop, tier, seed)
            if so is not None:
                spec_oracle = {"ok": so.get("ok"), "cases": so.get("cases"), "values_compared": so.get("values_compared"),
                               "seconds": so.get("seconds"), "error": so.get("error"),
                               "families": {f: {"cases": v.get("cases"), "oracle": v.get("oracle"), "oracles": v.get("oracles"),
                                                "published_vectors": v.get("published_vectors"),
                                                "mismatches": len(v.get("mismatches", [])),
                                                "skipped": v.get("skipped")} for f, v in so.get("families", {}).items()}}
                if not so.get("error"):
                    for f, v in so.get("families", {}).items():
                        for mm in v.get("mismatches", [])[:20]:
                            line = mm.get("line") if isinstance(mm, dict) else str(mm)
                            failing.append({"line": line, "kind": "spec-oracle:" + f, "answers": mm,
                                            "why": "the Lean Spec differs from the independent oracle of the standard on this line"})
                cx.log(f"[{prop}] {spec_oracles.summary_line(so)}")
        except Exception as e:  # the oracle tool failing is a machinery problem, not a verdict about the code
            spec_oracle = {"ok": None, "error": f"spec_oracles did not run: {e}"[:300]}
            cx.log(f"[{prop}] spec oracles did not run: {e}")

    # 6b. a proof obligation / the tie broke but no case of this tier fails: widen the search for a concrete
    #     failing input to the thorough generators (code vs Spec/Impl), before reporting no-failing-input-found
    widened = 0
    if (broken or model_only) and not failing and tier == "quick" and not args.replay and driver_ok:
        try:
            seen_lines = set(lines)
            more = [c for c in P.gen("thorough", cx.Rng(seed + 1)) if c[0] not in seen_lines]
        except Exception as e:  # noqa
            more = []
            notes.append(f"thorough generator failed during widened search: {e}")
        if more:
            # strided chunks (each one a representative sample of the whole thorough workload); stop at the first chunk
            # with a failing case (one concrete input is what the replay needs) or when the time budget is used up
            budget = float(os.environ.get("VERIF_WIDEN_SECONDS", "180"))
            tw = time.time()
            nch = max(1, (len(more) + 3999) // 4000)
            for j in range(nch):
                chunk = more[j::nch]
                mlines = [c[0] for c in chunk]
                mouts = {}
                for v in variants:
                    mouts["code:" + v] = cx.run_exec([cx.harness_bin(v), "run"], mlines)
                mouts["impl"] = cx.run_exec([cx.CXDRV, "impl"], mlines)
                mouts["spec"] = cx.run_exec([cx.CXDRV, "spec"], mlines)
                for i, (line, kind) in enumerate(chunk):
                    row = {k: o[i] for k, o in mouts.items()}
                    verdict = cmp_fn(line, kind, row) if cmp_fn else default_compare(row, variants, kind)
                    if verdict[0] == "fail":
                        failing.append({"line": line, "kind": kind, "answers": row, "why": verdict[1]})
                widened += len(chunk)
                cx.log(f"[{prop}] widened chunk {j + 1}/{nch}: {len(chunk)} cases, {time.time() - tw:.0f}s elapsed")
                if failing:
                    break
                if time.time() - tw > budget and j + 1 < nch:
                    notes.append(f"widened search stopped after {widened} of {len(more)} thorough-tier cases (time budget {budget:.0f}s)")
                    break
            cx.log(f"[{prop}] widened search: {widened} of {len(more)} thorough-tier cases, failing={len(failing)}")

    # 7. verdict
    viol_lines = []
    kf_lines = []
    new_fail = []
    for f in failing:
        e = cx.known_match(prop, f["line"], known)
        if e:
            kf_lines.append((e, f))
        else:
            new_fail.append(f)
    status = 0
    if new_fail:
        new_fail.sort(key=lambda f: len(f["line"]))
        rp = write_replay(prop, "fail", {"property": prop, "kind": "failing-input", "seed": seed, "tier": tier,
                                         "cases": new_fail[:20], "total_failing": len(new_fail),
                                         "broken_obligations": broken,
                                         "how": f"python3 tools/run_check.py {prop} --replay <this file>"})
        viol_lines.append(f"VIOLATION property={prop} replay={rp}")
        status = 1
    elif broken or model_only:
        rp = write_replay(prop, "tie", {"property": prop, "kind": "broken-obligation", "seed": seed, "tier": tier,
                                        "broken_obligations": broken, "model_disagreements": model_only[:20],
                                        "cases": [{"line": m["line"], "kind": m["kind"]} for m in model_only[:20]],
                                        "searched_cases": len(cases) + widened,
                                        "how": "cd lean && lake build " + " ".join(mods)})
        viol_lines.append(f"VIOLATION property={prop} replay={rp} no-failing-input-found")
        status = 1
    seen = set()
    for e, f in kf_lines:
        if e["id"] not in seen:
            seen.add(e["id"])
            print(f"KNOWN-FINDING: property={prop} {e['what']}")
    for v in viol_lines:
        print(v)

    # 8. evidence
    wall = time.time() - t0
    samples = [{"case": c[0][:300], "kind": c[1], "code": outs["code:" + variants[0]][i][:120] if variants else None}
               for i, c in list(enumerate(cases))[:: max(1, len(cases) // 6)][:6]]
    samples += [{"obligation": t, "axioms": axioms.get(t)} for (t, _) in thms[:4]]
    ev = {
        "property_id": prop, "tier": tier, "seed": seed, "level": "proof" if obligations > 0 else "other",
        "coverage": {
            "obligations": obligations, "discharged": discharged,
            "explanation": "Lean theorems (obligations) re-checked by the kernel + differential correspondence of code vs Lean Impl model vs Lean Spec",
            "checker_cmd": "cd /verif/lean && lake build " + " ".join(mods) + " && lake env lean <#print axioms audit>"
                           + (" && lake env leanchecker <module>" if tier == "thorough" else ""),
            "trusted_base": getattr(P, "TRUSTED", []) + [
                "Lean 4.33 kernel", "axioms allowed: propext, Classical.choice, Quot.sound (per-theorem list in axioms_by_theorem)",
                "the source-to-Lean translators: tools/extract_tables.py (constant tables), tools/kernel_translate.py, tools/ktx_words.py, "
                "tools/ktx_misc.py, tools/ktx_glue*.py with the kernel specs tools/kernels/*.py (they fix, per kernel, the integer semantics "
                "emitted: mathematical / wrapping / checked) — a translator bug that mistranslates source AND matches the hand model is caught only "
                "by the differential correspondence",
                "tools/run_check.py + harness/ + lean/Main.lean (correspondence), tools/spec_oracles.py (Spec vs standards)",
                "rustc/cargo, the OS"],
            "evaluations": len(cases), "distinct_nontrivial": len(nontriv),
            "rule": P.RULE, "samples": samples,
            "traces_validated_against_impl": (len(cases) - metamorphic) if (variants and driver_ok) else 0,
            "metamorphic_self_consistency_cases": metamorphic,
            "input_distribution": dist,
            "harness_variants": variants,
            "theorems": [t for (t, _) in thms],
            "axioms_by_theorem": axioms,
            "broken_obligations": broken,
            "failing_inputs": len(failing), "known_finding_hits": len(kf_lines),
            "model_only_disagreements": len(model_only),
            "extracted_tables": ext["tables"],
            "exhaustive": False,
            "spec_validated_against_standards": spec_oracle,
            "obligation_kinds": {
                "property_theorems": sum(len(cx.theorems_of(m)) for m in mods if "Tie" not in m.split(".")[-1] and "HwTest" not in m),
                "translator_tie_theorems": sum(len(cx.theorems_of(m)) for m in mods if "Tie" in m.split(".")[-1]),
                "intrinsic_hardware_vectors_module": sum(len(cx.theorems_of(m)) for m in mods if "HwTest" in m),
                "note": "obligations = every named public theorem of the property's modules (statement theorems, their local corollaries and "
                        "the source-to-model tie theorems); helper lemmas in Proofs/ are not counted"},
            "proof_scope": getattr(P, "PROOF_SCOPE", "complete for the modelled code: every clause of the property is a theorem about the models; "
                                   "the models are tied to the source by translator ties and the correspondence"),
            "discharged_hypotheses": cx.hypotheses_of(mods)[1],
            "partial_theorems": cx.hypotheses_of(mods)[2],
            **extra,
        },
        "assumptions": list(getattr(P, "ASSUMPTIONS", [])) + cx.assumptions_of(mods),
        "wall_s": round(wall, 2),
        "violations": len(viol_lines),
    }
    os.makedirs(cx.EVID, exist_ok=True)
    with open(os.path.join(cx.EVID, prop + ".json"), "w") as f:
        json.dump(ev, f, indent=1)
    cx.log(f"[{prop}] tier={tier} obligations={obligations} discharged={discharged} cases={len(cases)} "
           f"failing={len(failing)} model_only={len(model_only)} broken={len(broken)} wall={wall:.1f}s")
    sys.exit(status)


def default_compare(row, variants, kind=""):
    """code must equal the Spec (or, where there is no separate Spec, the proved Impl model)"""
    spec = row.get("spec")
    impl = row.get("impl")
    want = spec if spec not in (None, "?") else impl
    codes = [row["code:" + v] for v in variants]
    if want is None:
        return ("ok", "")
    if want == "=":      # metamorphic op: all fields of the code's answer must be equal (a proved chunking-independence)
        for v, c in zip(variants, codes):
            fields = c.split(",")
            if c in ("PANIC", "CRASH", "bad-op", "bad-args") or len(set(fields)) != 1:
                return ("fail", f"code[{v}] answers {c[:120]}: the fields (one call / chunked / one-shot) must be equal by the "
                                "chunking-independence theorems")
        return ("ok", "")
    if want in ("bad-op", "bad-args", "bad-prog") and all(c == want for c in codes) and "malformed" not in kind:
        return ("fail", f"every executor answers {want}: the case line is not understood by the op tables (generator / driver "
                        "defect): nothing was checked by it")
    for v, c in zip(variants, codes):
        if c != want:
            return ("fail", f"code[{v}]={c[:80]} but {'Spec' if spec not in (None, '?') else 'proved model'} demands {want[:80]}")
    if impl is not None and spec not in (None, "?") and impl != spec:
        return ("model", f"Impl model {impl[:80]} differs from Spec {spec[:80]} (code agrees with Spec)")
    return ("ok", "")


if __name__ == "__main__":
    try:
        main()
    except SystemExit:
        raise
    except BaseException as e:  # noqa — a failure of the machinery itself (timeout, tool crash) is not a verdict about the code
        import traceback
        traceback.print_exc()
        print(f"ERROR: the check machinery failed ({type(e).__name__}: {e}); no verdict")
        sys.exit(2)
