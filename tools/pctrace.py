#!/usr/bin/env python3
"""pctrace.py — instruction-address trace of one harness operation between cx_marker_begin/cx_marker_end.

Primary engine: `valgrind --tool=lackey --trace-mem=yes` (every executed instruction address, in order;
~2 s per operation).  tools/pctrace.c is a ptrace single-step tracer giving the same sequence natively; it is
~60 µs/step in this VM, so it is only used as a cross-check in the thorough tier.

trace(bin, args) -> {"steps": n, "pc_hash": hex, "mem_hash": hex, "out": stdout}
  pc_hash folds the PCs relative to the load base; mem_hash folds the data addresses (loads/stores) too —
  a stronger, informational signal (cache-line leakage), not part of property C19.
"""
import hashlib
import os
import re
import subprocess
import sys
import tempfile


def marker_offsets(binpath):
    out = subprocess.run(["nm", binpath], capture_output=True, text=True).stdout
    offs = {}
    for line in out.splitlines():
        p = line.split()
        if len(p) == 3 and p[2] in ("cx_marker_begin", "cx_marker_end"):
            offs[p[2]] = int(p[0], 16)
    return offs["cx_marker_begin"], offs["cx_marker_end"]


def trace(binpath, args, keep_pcs=False, timeout=900):
    boff, eoff = marker_offsets(binpath)
    with tempfile.NamedTemporaryFile(prefix="lackey", suffix=".txt", delete=False) as tf:
        logp = tf.name
    try:
        p = subprocess.run(["valgrind", "--tool=lackey", "--trace-mem=yes", f"--log-file={logp}", binpath, "trace"] + args,
                           capture_output=True, text=True, timeout=timeout)
        iaddrs = []
        # first pass: find base
        lines = open(logp, "r", errors="replace").read().split("\n")
    finally:
        try:
            os.unlink(logp)
        except OSError:
            pass
    cand = {}
    for ln in lines:
        if ln.startswith("I  "):
            a = int(ln[3:ln.index(",")], 16)
            if (a - boff) % 0x1000 == 0:
                cand.setdefault(a - boff, [0, 0])[0] += 1
            if (a - eoff) % 0x1000 == 0:
                cand.setdefault(a - eoff, [0, 0])[1] += 1
    bases = [b for b, (x, y) in cand.items() if x == 1 and y == 1 and b >= 0]
    if len(bases) > 1 and 0x108000 in bases:
        bases = [0x108000]
    if len(bases) != 1:
        return {"error": f"cannot locate markers (candidates {bases[:5]})", "out": p.stdout.strip()}
    base = bases[0]
    hb, he = base + boff, base + eoff
    inside = False
    hpc = hashlib.blake2b(digest_size=8)
    hmem = hashlib.blake2b(digest_size=8)
    steps = 0
    pcs = []
    for ln in lines:
        if ln.startswith("I  "):
            a = int(ln[3:ln.index(",")], 16)
            if not inside:
                if a == hb:
                    inside = True
                continue
            if a == he:
                break
            rel = a - base
            hpc.update(rel.to_bytes(8, "little", signed=True))
            hmem.update(rel.to_bytes(8, "little", signed=True))
            steps += 1
            if keep_pcs:
                pcs.append(rel)
        elif inside and len(ln) > 3 and ln[1] in "LSM":
            hmem.update(ln.encode())
    r = {"steps": steps, "pc_hash": hpc.hexdigest(), "mem_hash": hmem.hexdigest(), "out": p.stdout.strip()}
    if keep_pcs:
        r["pcs"] = pcs
    return r


def first_divergence(binpath, args1, args2):
    a = trace(binpath, args1, keep_pcs=True)
    b = trace(binpath, args2, keep_pcs=True)
    pa, pb = a.get("pcs", []), b.get("pcs", [])
    n = min(len(pa), len(pb))
    k = next((i for i in range(n) if pa[i] != pb[i]), n)
    info = {"index": k, "len1": len(pa), "len2": len(pb)}
    if k < n or len(pa) != len(pb):
        prev = pa[k - 1] if k > 0 else None
        info["last_common_pc"] = hex(prev) if prev is not None else None
        if prev is not None:
            sym = subprocess.run(["addr2line", "-f", "-C", "-e", binpath, hex(prev)], capture_output=True, text=True).stdout
            info["last_common_symbol"] = sym.strip().replace("\n", " @ ")
    return info


if __name__ == "__main__":
    print(trace(sys.argv[1], sys.argv[2:]))
