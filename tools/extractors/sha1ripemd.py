"""Tables of SHA-1 (src/hashing/sha1.rs) and RIPEMD-160 (src/hashing/ripemd160.rs) -> Extracted/Sha1Ripemd.lean.

SHA-1: the four round constants K0..K3 and the IV `H` are plain `const`s and go through the generic evaluator.

RIPEMD-160 has no tables in the source: the schedule is the argument list of one `process_block!` invocation
(160 lines `roundN: h_ordering a, b, c, d, e; data_index i; roll_shift s`) and the additive constants and boolean
functions sit in the body of the `process_block!` macro definition.  `ripemd_schedule` re-reads both:

  * every invocation line becomes a row  [o0, o1, o2, o3, o4, data_index, roll_shift, add, fn]
    where `add` and `fn` are taken from the macro arm that the line's label (`round3`, `par_round1`, ...) binds to;
  * the macro body arm `$( round!(bb[$f0], bb[$f1], bb[$f2], bb[$f3], bb[$f4], $data[$data_index1], $bits1,
    0x00000000, bb[$f1] ^ bb[$f2] ^ bb[$f3]); )*` is parsed: which repetition group (label) it expands, which
    buffer (`bb` left / `bbb` right) it works on, that the five registers are passed in h_ordering order, the
    constant, and the boolean expression, which is normalised (b, c, d = 2nd, 3rd, 4th register) and must be one of
    the five known shapes -- its number is `fn` (see `Impl.Ripemd160.fnEval`); anything else is an extraction error.

The generic `Table` machinery looks constants up by name; the schedule uses its `post` hook (the looked-up constant
`H` is ignored) so that no shared file has to change.
"""
import os
import re

from extract_tables import REPO, Table, strip_rust_comments


class ExtractError(ValueError):
    """a ValueError so that `regenerate()` records it whether extract_tables runs as a module or as __main__"""

RIPEMD = "src/hashing/ripemd160.rs"

# normalised boolean expressions of the macro body -> function number used by Impl.Ripemd160.fnEval
FN_SHAPES = {
    "b^c^d": 0,
    "(b&c)|(!b&d)": 1,
    "(b|!c)^d": 2,
    "(b&d)|(c&!d)": 3,
    "b^(c|!d)": 4,
}


def _macro_body(src, name):
    m = re.search(r"macro_rules!\s+" + name + r"\s*\(", src)
    if not m:
        raise ExtractError(f"macro {name} not found")
    depth, i = 1, m.end()
    while i < len(src) and depth:
        depth += {"(": 1, ")": -1}.get(src[i], 0)
        i += 1
    return src[m.end():i - 1]


def _round_constant(src, tok):
    """the additive constant of a `round!` arm: a hex literal, or the name of the UNIQUE item `const NAME: u32 = <literal>;`
    of ripemd160.rs (items are not hygienic: the name resolves where the macro is invoked, i.e. in this file; a second
    definition of the name anywhere in the file -- a shadowing `const`/`static`/`let` in a nested scope -- is refused)"""
    if tok.startswith("0x"):
        return int(tok.replace("_", ""), 16)
    defs = re.findall(r"\b(?:const|static|let)\s+(?:mut\s+)?" + tok + r"\b\s*(?::\s*(\w+))?\s*=\s*([^;]*);", src)
    if len(defs) != 1:
        raise ExtractError(f"round! constant {tok}: expected exactly one definition in {RIPEMD}, found {len(defs)}")
    if not re.search(r"\bconst\s+" + tok + r"\s*:\s*u32\s*=", src):
        raise ExtractError(f"round! constant {tok} is not a `const {tok}: u32` item")
    val = re.fullmatch(r"\s*(0x[0-9a-fA-F_]+|[0-9][0-9_]*)(?:u32)?\s*", defs[0][1])
    if not val:
        raise ExtractError(f"round! constant {tok}: initialiser {defs[0][1].strip()!r} is not an integer literal")
    lit = val.group(1).replace("_", "")
    v = int(lit, 16) if lit.startswith("0x") else int(lit)
    if v >= 1 << 32:
        raise ExtractError(f"round! constant {tok} out of u32 range")
    return v


def _parse_macro(src):
    """returns {label: (side, add, fn)} and checks the shape of the pattern and of `round!`"""
    body = _macro_body(src, "process_block")
    # pattern part: label -> names of its metavariables
    pat = {}
    for m in re.finditer(r"\$\(\s*(\w+):\s*h_ordering\s+\$(\w+):expr,\s*\$(\w+):expr,\s*\$(\w+):expr,\s*\$(\w+):expr,"
                         r"\s*\$(\w+):expr;\s*data_index\s+\$(\w+):expr;\s*roll_shift\s+\$(\w+):expr\s*\)\*", body):
        pat[m.group(1)] = m.groups()[1:]
    if len(pat) != 10:
        raise ExtractError(f"process_block!: expected 10 repetition groups, found {sorted(pat)}")
    by_first = {v[0]: k for k, v in pat.items()}
    arms = {}
    for m in re.finditer(r"\$\(\s*round!\(\s*(\w+)\[\$(\w+)\],\s*(\w+)\[\$(\w+)\],\s*(\w+)\[\$(\w+)\],\s*(\w+)\[\$(\w+)\],"
                         r"\s*(\w+)\[\$(\w+)\],\s*\$data\[\$(\w+)\],\s*\$(\w+),\s*(0x[0-9a-fA-F_]+|[A-Z][A-Z0-9_]*),\s*(.*?)\);\s*\)\*",
                         body, re.S):
        g = m.groups()
        bufs, regs = g[0:10:2], g[1:10:2]
        if len(set(bufs)) != 1 or bufs[0] not in ("bb", "bbb"):
            raise ExtractError(f"round! arm mixes buffers {bufs}")
        label = by_first.get(regs[0])
        if label is None or tuple(regs) + (g[10], g[11]) != tuple(pat[label]):
            raise ExtractError(f"round! arm does not pass the metavariables of one group in order: {regs}")
        expr = re.sub(r"\s+", "", g[13])
        for nm, r in (("b", regs[1]), ("c", regs[2]), ("d", regs[3])):
            expr = expr.replace(f"{bufs[0]}[${r}]", nm)
        if expr not in FN_SHAPES:
            raise ExtractError(f"unknown boolean function in round! arm {label}: {expr}")
        if label in arms:
            raise ExtractError(f"group {label} expanded twice")
        arms[label] = ("L" if bufs[0] == "bb" else "R", _round_constant(src, g[12]), FN_SHAPES[expr])
    if sorted(arms) != sorted(pat):
        raise ExtractError(f"groups without a round! arm: {sorted(set(pat) - set(arms))}")
    # the order in which the arms are expanded is the order of execution
    order = [by_first[m.group(1)] for m in re.finditer(r"\$\(\s*round!\(\s*\w+\[\$(\w+)\]", body)]
    # the `round!` macro itself and the final combination are hand-modelled; pin their text
    rnd = re.sub(r"\s+", "", _macro_body(src, "round"))
    want = ("($a:expr,$b:expr,$c:expr,$d:expr,$e:expr,$x:expr,$bits:expr,$add:expr,$round:expr)=>({"
            "$a=$a.wrapping_add($round).wrapping_add($x).wrapping_add($add);"
            "$a=$a.rotate_left($bits).wrapping_add($e);$c=$c.rotate_left(10);});")
    if rnd != want:
        raise ExtractError("round! macro body differs from the modelled text")
    comb = re.sub(r"\s+", "", body)
    want_comb = ("bbb[3]=bbb[3].wrapping_add($h[1]).wrapping_add(bb[2]);"
                 "$h[1]=$h[2].wrapping_add(bb[3]).wrapping_add(bbb[4]);"
                 "$h[2]=$h[3].wrapping_add(bb[4]).wrapping_add(bbb[0]);"
                 "$h[3]=$h[4].wrapping_add(bb[0]).wrapping_add(bbb[1]);"
                 "$h[4]=$h[0].wrapping_add(bb[1]).wrapping_add(bbb[2]);"
                 "$h[0]=bbb[3];});")
    if not comb.endswith(want_comb) or "letmutbb=*$h;letmutbbb=*$h;" not in comb:
        raise ExtractError("process_block!: prologue / 'Combine results' block differs from the modelled text")
    return arms, order


def ripemd_schedule(side):
    def post(_ignored):
        raw = open(os.path.join(REPO, RIPEMD)).read()
        src = strip_rust_comments(raw)
        arms, order = _parse_macro(src)
        m = re.search(r"process_block!\s*\(\s*h\s*,\s*w\[\.\.\]\s*,", src)
        if not m:
            raise ExtractError("process_block! invocation not found")
        depth, i = 1, m.end()
        while depth:
            depth += {"(": 1, ")": -1}.get(src[i], 0)
            i += 1
        inv = src[m.end():i - 1]
        rows_by_label, seq = {}, []
        for mm in re.finditer(r"(\w+):\s*h_ordering\s+(\d+),\s*(\d+),\s*(\d+),\s*(\d+),\s*(\d+);\s*data_index\s+(\d+);"
                              r"\s*roll_shift\s+(\d+)", inv):
            label = mm.group(1)
            if label not in arms:
                raise ExtractError(f"unknown group label {label}")
            if seq and seq[-1] != label and label in seq:
                raise ExtractError(f"group {label} is not contiguous")
            if not seq or seq[-1] != label:
                seq.append(label)
            sd, add, fn = arms[label]
            rows_by_label.setdefault(label, []).append([int(x) for x in mm.groups()[1:]] + [add, fn])
        leftover = re.sub(r"(\w+):\s*h_ordering\s+(\d+),\s*(\d+),\s*(\d+),\s*(\d+),\s*(\d+);\s*data_index\s+(\d+);"
                          r"\s*roll_shift\s+(\d+)", "", inv)
        if re.sub(r"[\s;]", "", leftover):
            raise ExtractError(f"unparsed text in process_block! invocation: {leftover.strip()[:60]!r}")
        # the pattern fixes the order of the groups in the invocation; execution order is the arm order
        rows = []
        for label in order:
            if arms[label][0] == side:
                rows += rows_by_label.get(label, [])
        return rows
    return post


TABLES = [
    Table(lean_file="Sha1Ripemd", lean_name=f"SHA1_K{i}", rust_name=f"K{i}", files="src/hashing/sha1.rs",
          elem="UInt32", doc=f"SHA-1 round constant K{i}") for i in range(4)
] + [
    Table(lean_file="Sha1Ripemd", lean_name="SHA1_H", rust_name="H", files="src/hashing/sha1.rs", elem="UInt32",
          doc="SHA-1 initial hash value"),
    Table(lean_file="Sha1Ripemd", lean_name="RIPEMD_H", rust_name="H", files=RIPEMD, elem="UInt32",
          doc="RIPEMD-160 initial value"),
    Table(lean_file="Sha1Ripemd", lean_name="RIPEMD_LEFT", rust_name="H", files=RIPEMD, elem="Nat",
          post=ripemd_schedule("L"),
          doc="left line, 80 rows [o0,o1,o2,o3,o4,data_index,roll_shift,add,fn] in execution order"),
    Table(lean_file="Sha1Ripemd", lean_name="RIPEMD_RIGHT", rust_name="H", files=RIPEMD, elem="Nat",
          post=ripemd_schedule("R"),
          doc="right (parallel) line, 80 rows [o0,o1,o2,o3,o4,data_index,roll_shift,add,fn] in execution order"),
]
