"""Constant tables of the 32-bit curve backends (unit b32) -> lean/CxVerif/Extracted/B32.lean (constants, linked into cxdrv) and Extracted/B32Tables.lean (tables, proofs only)
src/curve25519/fe/fe32/mod.rs      Fe::ZERO ONE SQRTM1 D D2 in ten signed 26/25-bit limbs
src/curve25519/fe/fe32/precomp.rs  GE_BASE (32 x 8 x 3 x 10) and BI (8 x 3 x 10), fields y_plus_x, y_minus_x, xy2d
src/curve25519/scalar/scalar32.rs  the group order L of `from_bytes_canonical` (32 bytes), Scalar::ZERO / ONE"""
from extract_tables import Table

F = "src/curve25519/fe/fe32/mod.rs"
P = "src/curve25519/fe/fe32/precomp.rs"
S = "src/curve25519/scalar/scalar32.rs"


def _shape(*dims):
    def post(v):
        def chk(x, ds):
            if not ds:
                if isinstance(x, list):
                    raise ValueError("table nesting deeper than expected")
                if not (-2**31 <= x < 2**31):
                    raise ValueError(f"limb {x} is not an i32")
                return
            if not isinstance(x, list) or len(x) != ds[0]:
                raise ValueError(f"table shape mismatch: expected {ds[0]} entries")
            for y in x:
                chk(y, ds[1:])
        chk(v, list(dims))
        return v
    return post


TABLES = [
    Table("B32", "FE_ZERO", "ZERO", F, "Int", post=_shape(10), doc="fe32 Fe::ZERO limbs"),
    Table("B32", "FE_ONE", "ONE", F, "Int", post=_shape(10), doc="fe32 Fe::ONE limbs"),
    Table("B32", "FE_SQRTM1", "SQRTM1", F, "Int", post=_shape(10), doc="fe32 Fe::SQRTM1 limbs"),
    Table("B32", "FE_D", "D", F, "Int", post=_shape(10), doc="fe32 Fe::D limbs"),
    Table("B32", "FE_D2", "D2", F, "Int", post=_shape(10), doc="fe32 Fe::D2 limbs"),
    Table("B32Tables", "GE_BASE", "GE_BASE", P, "Int", post=_shape(32, 8, 3, 10),
          doc="32-bit GE_BASE[i][j] = (y+x, y-x, 2dxy) limbs of (j+1)*256^i*B (theorem Props/C17/B32.lean)"),
    Table("B32Tables", "BI", "BI", P, "Int", post=_shape(8, 3, 10),
          doc="32-bit BI[k] = (y+x, y-x, 2dxy) limbs of (2k+1)*B (theorem Props/C17/B32.lean)"),
    Table("B32", "SC_L", "L", S, "UInt8",
          doc="scalar32: the group order L inside from_bytes_canonical, byte i compared with s[i]"),
    Table("B32", "SC_ZERO", "ZERO", S, "UInt8", scope="Scalar", doc="scalar32 Scalar::ZERO bytes"),
    Table("B32", "SC_ONE", "ONE", S, "UInt8", scope="Scalar", doc="scalar32 Scalar::ONE bytes"),
]
