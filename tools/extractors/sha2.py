"""Constant tables of the SHA-2 family (unit `sha2`) -> lean/CxVerif/Extracted/Sha2.lean."""
from extract_tables import Table

R256 = "src/hashing/sha2/impl256/reference.rs"
R512 = "src/hashing/sha2/impl512/reference.rs"
INI = "src/hashing/sha2/initials.rs"



def _pairs(v):
    """`[u64x2(K64[1], K64[0]), …]` -> flat list.  An evaluator with postfix indexing yields `[[K1, K0], …]`;
    the older one parses `K64[1]` as the two items `K64, [1]` — resolve the index here in that case."""
    out = []
    for e in v:
        items, i = [], 0
        while i < len(e):
            if isinstance(e[i], list):
                tbl, idx = e[i], e[i + 1]
                if not (isinstance(idx, list) and len(idx) == 1):
                    raise ValueError("unexpected u64x2 entry shape")
                items.append(tbl[idx[0]])
                i += 2
            else:
                items.append(e[i])
                i += 1
        if len(items) != 2:
            raise ValueError("u64x2 entry is not a pair")
        out += items
    return out


TABLES = [
    Table("Sha2", "K32", "K32", R256, elem="UInt32", doc="SHA-256 round constants"),
    Table("Sha2", "K64", "K64", R512, elem="UInt64", doc="SHA-512 round constants"),
    Table("Sha2", "K64X2", "K64X2", R512, elem="UInt64", post=_pairs,
          doc="SHA-512 round constants as u64x2 pairs, flattened: entry i = u64x2(K64X2[2i], K64X2[2i+1])"),
    Table("Sha2", "H256", "H256", INI, elem="UInt32", doc="SHA-256 initial hash value"),
    Table("Sha2", "H224", "H224", INI, elem="UInt32", doc="SHA-224 initial hash value"),
    Table("Sha2", "H512", "H512", INI, elem="UInt64", doc="SHA-512 initial hash value"),
    Table("Sha2", "H384", "H384", INI, elem="UInt64", doc="SHA-384 initial hash value"),
    Table("Sha2", "H512_TRUNC_256", "H512_TRUNC_256", INI, elem="UInt64", doc="SHA-512/256 initial hash value"),
    Table("Sha2", "H512_TRUNC_224", "H512_TRUNC_224", INI, elem="UInt64", doc="SHA-512/224 initial hash value"),
    Table("Sha2", "BLOCK_LEN_256", "BLOCK_LEN", "src/hashing/sha2/eng256.rs", elem="Nat", doc="words per block (u32)"),
    Table("Sha2", "BLOCK_LEN_512", "BLOCK_LEN", "src/hashing/sha2/eng512.rs", elem="Nat", doc="words per block (u64)"),
]
