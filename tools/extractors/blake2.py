"""BLAKE2 constant tables of src/hashing/blake2/common.rs -> lean/CxVerif/Extracted/Blake2.lean"""
from extract_tables import Table

F = "src/hashing/blake2/common.rs"


def _scalars(scope, pre):
    return [Table("Blake2", pre + n, n, F, elem="Nat", scope=scope, doc=f"`{scope}::{n}`")
            for n in ("BLOCK_BYTES", "MAX_KEYLEN", "MAX_OUTLEN", "R1", "R2", "R3", "R4", "ROUNDS")]


TABLES = (
    [Table("Blake2", "B_IV", "IV", F, elem="Nat", scope="b", doc="BLAKE2b initial values `b::IV` (as naturals)")]
    + _scalars("b", "B_")
    + [Table("Blake2", "S_IV", "IV", F, elem="Nat", scope="s", doc="BLAKE2s initial values `s::IV` (as naturals)")]
    + _scalars("s", "S_")
    + [Table("Blake2", "SIGMA", "SIGMA", F, elem="Nat", doc="message schedule, 12 rows (rows 10, 11 repeat rows 0, 1)")]
)
