"""Constant tables of the 64-bit field backend and of X25519 (unit fe64)."""
import os
import re
from extract_tables import Table, REPO, strip_rust_comments

F = "src/curve25519/fe/fe64/mod.rs"
C = "src/curve25519/mod.rs"


def _mul_small_args(fn):
    """the const-generic arguments of every `mul_small::<N>()` call inside `fn <fn>` of src/curve25519/mod.rs,
    in source order (the extractor's expression evaluator cannot see turbofish arguments, so this `post`
    hook re-reads the function body itself; the looked-up constant `BASE` is only the anchor)."""
    def post(_v):
        src = strip_rust_comments(open(os.path.join(REPO, C)).read())
        m = re.search(r"\bfn\s+" + re.escape(fn) + r"\s*\([^)]*\)[^{]*\{", src)
        if m is None:
            raise ValueError(f"fn {fn} not found in {C}")
        depth, i = 1, m.end()
        while i < len(src) and depth:
            depth += {"{": 1, "}": -1}.get(src[i], 0)
            i += 1
        body = src[m.end():i - 1]
        args = [int(x.replace("_", "")) for x in re.findall(r"\.mul_small::<\s*([0-9_]+)\s*>\s*\(\s*\)", body)]
        if not args:
            raise ValueError(f"no mul_small::<N>() call in fn {fn}")
        return args
    return post


TABLES = [
    Table("Fe64", "FOUR_P0", "FOUR_P0", F, "Nat", doc="limb 0 of 4p (bias of Sub/Neg)"),
    Table("Fe64", "FOUR_P1234", "FOUR_P1234", F, "Nat", doc="limbs 1..4 of 4p"),
    Table("Fe64", "MASK", "MASK", F, "Nat", doc="2^51 - 1"),
    Table("Fe64", "ZERO", "ZERO", F, "Nat", doc="Fe::ZERO limbs"),
    Table("Fe64", "ONE", "ONE", F, "Nat", doc="Fe::ONE limbs"),
    Table("Fe64", "SQRTM1", "SQRTM1", F, "Nat", doc="Fe::SQRTM1 limbs"),
    Table("Fe64", "D", "D", F, "Nat", doc="Fe::D limbs"),
    Table("Fe64", "D2", "D2", F, "Nat", doc="Fe::D2 limbs"),
    Table("Fe64", "BASE", "BASE", C, "UInt8", doc="X25519 base point u = 9"),
    Table("Fe64", "MUL_SMALL_CURVE25519", "BASE", C, "Nat", post=_mul_small_args("curve25519"),
          doc="const arguments of mul_small::<N>() in fn curve25519 (a24+1)"),
    Table("Fe64", "MUL_SMALL_CURVE25519_BASE", "BASE", C, "Nat", post=_mul_small_args("curve25519_base"),
          doc="const arguments of mul_small::<N>() in fn curve25519_base (a24+1, then u = 9)"),
]
