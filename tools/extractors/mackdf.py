"""Numbers of the legacy object API of /repo -> lean/CxVerif/Extracted/MacKdf.lean (unit `mackdf`).

None of them is a plain `const` table; they are read from macro invocations / impl bodies by `post` hooks (the
looked-up constant `B` of src/hashing/sha3.rs is only the anchor that makes the generic extractor run the hook).

LEGACY_DIGESTS   one row `[id, OUTPUT_BITS, BLOCK_BYTES, paired]` per legacy digest wrapper struct of src/sha1.rs,
                 src/sha2.rs, src/sha3.rs, src/ripemd160.rs.  The wrapper's `output_bits()` / `block_size()` return
                 `<module>::<Name>::OUTPUT_BITS` / `::BLOCK_BYTES`; the extractor follows that path into src/hashing
                 (plain `impl Name { pub const … }` for SHA-1 / RIPEMD-160, the `digest!` arms of hashing/sha2/mod.rs,
                 the `sha3_impl!` / `keccak_impl!` bodies with `$digestlength` and `B`) and evaluates the expression.
                 `paired` = 1 iff the context type the wrapper stores (`ctx: <module>::<Ctx>`) is the context type that
                 the hashing module defines together with `<Name>` (so the sizes reported belong to the function computed).
                 ids: 0 sha1, 1 sha224, 2 sha256, 3 sha384, 4 sha512, 5 sha512_224, 6 sha512_256, 7..10 sha3_224/256/384/512,
                 11..14 keccak224/256/384/512, 15 ripemd160; unknown wrappers get ids from 100.
HMAC_PADS        `[ipad, opad]`: the masks of the two `derive_key` calls in `create_keys` of src/hmac.rs.
SCRYPT_SALSA     the rows `[set_idx, idx_a, idx_b, rot]` of the `run_round!` invocation in `salsa20_8` of src/scrypt.rs
                 (one double round), in source order.
SCRYPT_ROUNDS    `let rounds = 8;` of `salsa20_8`.
BLAKE2_KEY_ASSERT  `[b, s]`: the literal of `assert!(key.len() <= …)` in `new_keyed` of src/blake2b.rs / src/blake2s.rs.
"""
import os
import re

from extract_tables import Table, ExtractError, REPO, strip_rust_comments

ANCHOR = "src/hashing/sha3.rs"

IDS = {"Sha1": 0, "Sha224": 1, "Sha256": 2, "Sha384": 3, "Sha512": 4, "Sha512Trunc224": 5, "Sha512Trunc256": 6,
       "Sha3_224": 7, "Sha3_256": 8, "Sha3_384": 9, "Sha3_512": 10,
       "Keccak224": 11, "Keccak256": 12, "Keccak384": 13, "Keccak512": 14, "Ripemd160": 15}


def _src(path):
    p = os.path.join(REPO, path)
    if not os.path.exists(p):
        raise ExtractError(f"{path} not found")
    return strip_rust_comments(open(p).read())


def _ev(expr, env):
    """evaluate a small integer expression with names from env"""
    e = expr.strip()
    for k, v in env.items():
        e = re.sub(r"(?<![\w$])" + re.escape(k) + r"(?!\w)", str(v), e)
    e = re.sub(r"(?<=[0-9])_?(usize|u32|u64)\b", "", e)
    if not re.fullmatch(r"[0-9xa-fA-F\s+\-*/()]+", e):
        raise ExtractError(f"cannot evaluate {expr!r}")
    return int(eval(e.replace("/", "//")))


def _balanced(src, start, open_ch, close_ch):
    depth, i = 1, start
    while i < len(src) and depth:
        depth += {open_ch: 1, close_ch: -1}.get(src[i], 0)
        i += 1
    return src[start:i - 1]


def _plain_consts(path, name):
    """`impl Name { pub const OUTPUT_BITS: usize = …; pub const BLOCK_BYTES: usize = …; pub fn new() -> Ctx }`"""
    src = _src(path)
    m = re.search(r"impl\s+" + name + r"\s*\{", src)
    if not m:
        raise ExtractError(f"impl {name} not found in {path}")
    body = _balanced(src, m.end(), "{", "}")
    ob = re.search(r"pub const OUTPUT_BITS\s*:\s*usize\s*=\s*([^;]+);", body)
    bb = re.search(r"pub const BLOCK_BYTES\s*:\s*usize\s*=\s*([^;]+);", body)
    nw = re.search(r"pub\s+(?:const\s+)?fn new\(\)\s*->\s*(\w+)", body)
    if not (ob and bb and nw):
        raise ExtractError(f"OUTPUT_BITS / BLOCK_BYTES / new() of {name} not found in {path}")
    return _ev(ob.group(1), {}), _ev(bb.group(1), {}), nw.group(1)


def _sha2_defs():
    """{Name: (output_bits, block_bytes, ctxname)} from the digest! arms and invocations of hashing/sha2/mod.rs"""
    src = _src("src/hashing/sha2/mod.rs")
    m = re.search(r"macro_rules!\s*digest\s*\{", src)
    if not m:
        raise ExtractError("macro digest! not found in src/hashing/sha2/mod.rs")
    body = _balanced(src, m.end(), "{", "}")
    flat = re.sub(r"\s+", "", body)
    # the two public arms: (NNN $name:ident, $ctxname:ident, $output_fn:ident, $output_bits:expr, $state:ident) =>
    #     { digest!(@internal $name, $ctxname, EngineNNN, $output_fn, $output_bits, <block>, $state); };
    arms = {}
    for a in re.finditer(r"\((\d+)\$name:ident,\$ctxname:ident,\$output_fn:ident,\$output_bits:expr,\$state:ident\)=>"
                         r"\{digest!\(@internal\$name,\$ctxname,(\w+),\$output_fn,\$output_bits,(\d+),\$state\);\};", flat):
        arms[a.group(1)] = int(a.group(3))
    if not arms:
        raise ExtractError("digest! arms of src/hashing/sha2/mod.rs not recognised")
    if ("(@internal$name:ident,$ctxname:ident,$init:ident,$output_fn:ident,$output_bits:expr,$block_size:literal,"
            "$state:ident)=>") not in flat or "pubconstOUTPUT_BITS:usize=$output_bits;" not in flat \
            or "pubconstBLOCK_BYTES:usize=$block_size;" not in flat or "pubfnnew()->$ctxname{" not in flat:
        raise ExtractError("digest!(@internal …) arm of src/hashing/sha2/mod.rs differs from the modelled text")
    defs = {}
    rest = src[m.end() + len(body):]
    for inv in re.finditer(r"digest!\s*\(\s*(\d+)\s+(\w+)\s*,\s*(\w+)\s*,\s*(\w+)\s*,\s*([^,]+?)\s*,\s*(\w+)\s*\)\s*;", rest):
        lab, name, ctxname, _fn, bits, _st = inv.groups()
        if lab not in arms:
            raise ExtractError(f"digest!({lab} …): no such arm")
        defs[name] = (_ev(bits, {}), arms[lab], ctxname)
    return defs


def _sponge_defs(path, macro):
    """{Name: (output_bits, block_bytes, ctxname)} from `macro!(Name, Ctx, digestlength, "doc")`"""
    src = _src(path)
    m = re.search(r"macro_rules!\s*" + macro + r"\s*\{", src)
    if not m:
        raise ExtractError(f"macro {macro} not found in {path}")
    body = _balanced(src, m.end(), "{", "}")
    head = re.search(r"\(\s*\$(\w+)\s*:\s*ident\s*,\s*\$(\w+)\s*:\s*ident\s*,\s*\$(\w+)\s*:\s*literal", body)
    if not head:
        raise ExtractError(f"pattern of {macro}! not recognised")
    nm, cx, dl = head.groups()
    ob = re.search(r"pub const OUTPUT_BITS\s*:\s*usize\s*=\s*([^;]+);", body)
    bb = re.search(r"pub const BLOCK_BYTES\s*:\s*usize\s*=\s*([^;]+);", body)
    nw = re.search(r"pub\s+(?:const\s+)?fn new\(\)\s*->\s*\$(\w+)", body)
    if not (ob and bb and nw and nw.group(1) == cx):
        raise ExtractError(f"OUTPUT_BITS / BLOCK_BYTES / new() not found in macro {macro}")
    bsrc = _src("src/hashing/sha3.rs")
    bm = re.search(r"const\s+B\s*:\s*usize\s*=\s*([^;]+);", bsrc)
    if not bm:
        raise ExtractError("const B not found in src/hashing/sha3.rs")
    Bv = _ev(bm.group(1), {})
    defs = {}
    for inv in re.finditer(macro + r"!\s*\(\s*(\w+)\s*,\s*(\w+)\s*,\s*([0-9_]+)\s*,", src):
        env = {"$" + dl: int(inv.group(3).replace("_", "")), "B": Bv}
        defs[inv.group(1)] = (_ev(ob.group(1), env), _ev(bb.group(1), env), inv.group(2))
    return defs


def _wrapper_bodies(path):
    """[(Name, module, Ctx, outbits_path, block_path)] of the wrappers in a legacy file"""
    src = _src(path)
    out = []

    def parse_impl(text, subst):
        s = text
        for k, v in subst.items():
            s = s.replace("$" + k, v)
        st = re.search(r"pub struct (\w+)\s*\{\s*ctx\s*:\s*(\w+)::(\w+)\s*,\s*computed\s*:\s*bool\s*,?\s*\}", s)
        ob = re.search(r"fn output_bits\(&self\)\s*->\s*usize\s*\{\s*(\w+)::(\w+)::OUTPUT_BITS\s*\}", s)
        bs = re.search(r"fn block_size\(&self\)\s*->\s*usize\s*\{\s*(\w+)::(\w+)::BLOCK_BYTES\s*\}", s)
        if not (st and ob and bs):
            raise ExtractError(f"wrapper struct / output_bits / block_size not recognised in {path}")
        return (st.group(1), st.group(2), st.group(3), (ob.group(1), ob.group(2)), (bs.group(1), bs.group(2)))

    m = re.search(r"macro_rules!\s*digest\s*\{", src)
    if m:
        body = _balanced(src, m.end(), "{", "}")
        head = re.search(r"\(([^)]*)\)\s*=>", body)
        params = re.findall(r"\$(\w+)\s*:\s*ident", head.group(1))
        rest = src[m.end() + len(body):]
        for inv in re.finditer(r"digest!\s*\(\s*([^)]*?)\s*\)\s*;", rest):
            args = [a.strip() for a in inv.group(1).split(",")]
            if len(args) != len(params):
                raise ExtractError(f"digest!({inv.group(1)}) in {path}: arity")
            out.append(parse_impl(body, dict(zip(params, args))))
    else:
        out.append(parse_impl(src, {}))
    return out


def _legacy(_v):
    sha2 = _sha2_defs()
    defs = {"sha2": (lambda n: sha2.get(n)),
            "sha3": (lambda n, d=_sponge_defs("src/hashing/sha3.rs", "sha3_impl"): d.get(n)),
            "keccak": (lambda n, d=_sponge_defs("src/hashing/keccak.rs", "keccak_impl"): d.get(n)),
            "sha1": (lambda n: _plain_consts("src/hashing/sha1.rs", n)),
            "ripemd160": (lambda n: _plain_consts("src/hashing/ripemd160.rs", n))}
    rows, nxt = [], 100
    for path in ("src/sha1.rs", "src/sha2.rs", "src/sha3.rs", "src/ripemd160.rs"):
        for (name, mod, ctx, (om, on), (bm, bn)) in _wrapper_bodies(path):
            if om not in defs or bm not in defs:
                raise ExtractError(f"{path}: unknown hashing module {om}/{bm}")
            do, db = defs[om](on), defs[bm](bn)
            if do is None or db is None:
                raise ExtractError(f"{path}: {om}::{on} / {bm}::{bn} not defined in src/hashing")
            paired = 1 if (mod == om == bm and on == bn and do[2] == ctx) else 0
            if name in IDS:
                i = IDS[name]
            else:
                i, nxt = nxt, nxt + 1
            rows.append([i, do[0], db[1], paired])
    rows.sort()
    return rows


def _pads(_v):
    src = _src("src/hmac.rs")
    m = re.search(r"fn create_keys.*?\{(.*?)\n\}", src, re.S)
    if not m:
        raise ExtractError("create_keys not found in src/hmac.rs")
    i = re.search(r"derive_key\(&mut i_key,\s*(0x[0-9a-fA-F]+|\d+)\)", m.group(1))
    o = re.search(r"derive_key\(&mut o_key,\s*(0x[0-9a-fA-F]+|\d+)\)", m.group(1))
    if not (i and o):
        raise ExtractError("derive_key calls not found in create_keys")
    return [int(i.group(1), 0), int(o.group(1), 0)]


def _salsa(_v):
    src = _src("src/scrypt.rs")
    m = re.search(r"run_round!\s*\(", src)
    if not m:
        raise ExtractError("run_round! invocation not found in src/scrypt.rs")
    inv = _balanced(src, m.end(), "(", ")")
    rows = []
    for part in inv.split(";"):
        part = part.strip()
        if not part:
            continue
        xs = [p.strip() for p in part.split(",")]
        if len(xs) != 4:
            raise ExtractError(f"run_round! row {part!r}")
        rows.append([int(x, 0) for x in xs])
    body = re.sub(r"\s+", "", src)
    if "x[$set_idx]^=x[$idx_a].wrapping_add(x[$idx_b]).rotate_left($rot);" not in body:
        raise ExtractError("run_round! macro body differs from the modelled text")
    return rows


def _rounds(_v):
    src = _src("src/scrypt.rs")
    m = re.search(r"fn salsa20_8.*?let rounds\s*=\s*(\d+)\s*;", src, re.S)
    if not m or "for _ in 0..rounds / 2" not in src:
        raise ExtractError("`let rounds = …; for _ in 0..rounds / 2` not found in salsa20_8")
    return int(m.group(1))


def _keyassert(_v):
    out = []
    for f in ("src/blake2b.rs", "src/blake2s.rs"):
        src = _src(f)
        m = re.search(r"pub fn new_keyed\(outlen: usize, key: &\[u8\]\)\s*->\s*Self\s*\{\s*assert!\(key\.len\(\)\s*<=\s*(\d+)\)", src)
        if not m:
            raise ExtractError(f"assert!(key.len() <= …) of new_keyed not found in {f}")
        out.append(int(m.group(1)))
    return out


TABLES = [
    Table("MacKdf", "LEGACY_DIGESTS", "B", ANCHOR, elem="Nat", post=_legacy,
          doc="[id, OUTPUT_BITS, BLOCK_BYTES, paired] of every legacy digest wrapper (see tools/extractors/mackdf.py)"),
    Table("MacKdf", "HMAC_PADS", "B", ANCHOR, elem="Nat", post=_pads, doc="[ipad, opad] masks of create_keys (src/hmac.rs)"),
    Table("MacKdf", "SCRYPT_SALSA", "B", ANCHOR, elem="Nat", post=_salsa,
          doc="[set_idx, idx_a, idx_b, rot] rows of run_round! in salsa20_8 (src/scrypt.rs)"),
    Table("MacKdf", "SCRYPT_ROUNDS", "B", ANCHOR, elem="Nat", post=_rounds, doc="`let rounds` of salsa20_8"),
    Table("MacKdf", "BLAKE2_KEY_ASSERT", "B", ANCHOR, elem="Nat", post=_keyassert,
          doc="literal of assert!(key.len() <= …) in new_keyed of src/blake2b.rs, src/blake2s.rs"),
]
