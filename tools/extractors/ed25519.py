"""Constant tables of the Edwards group layer, 64-bit field backend (unit ed25519):
src/curve25519/fe/fe64/precomp.rs -> lean/CxVerif/Extracted/Ed25519.lean

Each `GePrecomp { y_plus_x: Fe([..5 limbs..]), y_minus_x: Fe([..]), xy2d: Fe([..]) }` becomes
`[[l0..l4], [l0..l4], [l0..l4]]` (fields in source order), so
GE_BASE : List (List (List (List Nat)))   32 x 8 x 3 x 5
BI      : List (List (List Nat))           8 x 3 x 5"""
from extract_tables import Table

F = "src/curve25519/fe/fe64/precomp.rs"


def _shape(*dims):
    def post(v):
        def chk(x, ds):
            if not ds:
                if isinstance(x, list):
                    raise ValueError("table nesting deeper than expected")
                return
            if not isinstance(x, list) or len(x) != ds[0]:
                raise ValueError(f"table shape mismatch: expected {ds[0]} entries")
            for y in x:
                chk(y, ds[1:])
        chk(v, list(dims))
        return v
    return post


TABLES = [
    Table("Ed25519", "GE_BASE", "GE_BASE", F, "Nat", post=_shape(32, 8, 3, 5),
          doc="GE_BASE[i][j] = (y+x, y-x, 2dxy) limbs of (j+1)*256^i*B  (theorem Props/C15/Ge.lean)"),
    Table("Ed25519", "BI", "BI", F, "Nat", post=_shape(8, 3, 5),
          doc="BI[k] = (y+x, y-x, 2dxy) limbs of (2k+1)*B  (theorem Props/C15/Ge.lean)"),
]
