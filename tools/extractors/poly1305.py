"""Constants of src/poly1305.rs as they appear in the source: the limb loads of `new` and `block`
(byte offset, right shift, AND mask), the pad offsets, the hibit, the `* 5` multipliers, the carry shift/mask,
`1 << 26`, and the shift pairs that pack the five limbs into four u32.

The constants are literals inside expressions (not `const` items), so the generic const-expression search of
extract_tables.py cannot find them: this module uses `Table(custom=...)` (a function repo_root -> value) with
regular expressions anchored on the statements of the three functions. Any change of a mask, shift or offset in
the source changes the generated Extracted/Poly1305.lean and breaks the `decide` theorems of Props/C05/Poly1305.lean
that compare it with the constants of the model (or raises an extraction error when a statement disappears).
"""
import os
import re

from extract_tables import Table, strip_rust_comments


class ExtractError(ValueError):
    """a ValueError: caught by extract_tables.regenerate whichever way that module was loaded"""

FILE = "src/poly1305.rs"


def _src(repo):
    return strip_rust_comments(open(os.path.join(repo, FILE)).read())


def _body(repo, fn):
    """body of `fn <name>` (the generic find_scope stops at the `;` of `&[u8; 32]` in the signature)"""
    src = _src(repo)
    m = re.search(r"\bfn\s+" + re.escape(fn) + r"\b", src)
    if not m:
        raise ExtractError(f"fn {fn} not found in {FILE}")
    i = src.index("{", m.end())
    depth, j = 1, i + 1
    while j < len(src) and depth:
        depth += {"{": 1, "}": -1}.get(src[j], 0)
        j += 1
    return src[i + 1:j - 1]


def _int(t):
    return int(t.replace("_", ""), 0)


LOAD = r"\(\s*\(?\s*read_u32_le\s*\(\s*&\s*%s\s*\[\s*(\d+)\s*\.\.\s*(\d+)\s*\]\s*\)\s*\)?\s*(?:>>\s*(\d+))?\s*\)\s*%s\s*(0x[0-9a-fA-F_]+|hibit)"


def _loads(body, arr, op):
    out = []
    for m in re.finditer(LOAD % (arr, op), body):
        a, b, sh, mask = m.group(1), m.group(2), m.group(3), m.group(4)
        if int(b) - int(a) != 4:
            raise ExtractError("read_u32_le slice is not 4 bytes")
        out.append([int(a), int(sh or 0), -1 if mask == "hibit" else _int(mask)])
    return out


def r_loads(repo):
    v = _loads(_body(repo, "new"), "key", "&")
    if len(v) != 5:
        raise ExtractError(f"expected 5 masked key loads in new, found {len(v)}")
    return v


def pad_offsets(repo):
    b = _body(repo, "new")
    m = re.search(r"let\s+pad\s*=\s*\[(.*?)\]\s*;", b, re.S)
    if not m:
        raise ExtractError("let pad = [...] not found")
    offs = [int(x) for x in re.findall(r"read_u32_le\s*\(\s*&\s*key\s*\[\s*(\d+)\s*\.\.", m.group(1))]
    if len(offs) != 4:
        raise ExtractError("expected 4 pad loads")
    return offs


def m_loads(repo):
    b = _body(repo, "block")
    v = _loads(b, "m", "&") + _loads(b, "m", r"\|")
    if len(v) != 5:
        raise ExtractError(f"expected 5 message loads in block, found {len(v)}")
    return v


def hibit(repo):
    m = re.search(r"let\s+hibit\s*:\s*u32\s*=\s*if\s+self\.finalized\s*\{\s*(\d+)\s*\}\s*else\s*\{\s*(\d+)\s*<<\s*(\d+)\s*\}", _body(repo, "block"))
    if not m:
        raise ExtractError("hibit statement not found")
    return [int(m.group(1)), int(m.group(2)) << int(m.group(3))]


def s_mult(repo):
    v = [int(x) for x in re.findall(r"let\s+s[1-4]\s*=\s*r[1-4]\s*\*\s*(\d+)\s*;", _body(repo, "block"))]
    if len(v) != 4:
        raise ExtractError("expected s1..s4 = r_i * 5")
    return v


def carry_consts(repo):
    """all `>> n` on d/h values and `& mask` in the carry chains of block: [shift..., mask...] as sets"""
    b = _body(repo, "block")
    i = b.index("h %= p") if "h %= p" in b else b.index("let mut c")
    tail = b[b.index("let mut c"):]
    shifts = sorted(set(int(x) for x in re.findall(r">>\s*(\d+)", tail)))
    masks = sorted(set(_int(x) for x in re.findall(r"&=?\s*(0x[0-9a-fA-F_]+)", tail)))
    mult = sorted(set(int(x) for x in re.findall(r"c\s*\*\s*(\d+)", tail)))
    return [shifts, masks, mult]


def finish_consts(repo):
    b = _body(repo, "finish")
    shifts = sorted(set(int(x) for x in re.findall(r"h[0-4]\s*>>\s*(\d+)", b)))
    masks = sorted(set(_int(x) for x in re.findall(r"&=?\s*(0x[0-9a-fA-F_]+)", b)))
    mult = sorted(set(int(x) for x in re.findall(r"c\s*\*\s*(\d+)", b)))
    add = [int(x) for x in re.findall(r"h0\.wrapping_add\(\s*(\d+)\s*\)", b)]
    sub = [int(a) << int(c) for a, c in re.findall(r"wrapping_sub\(\s*(\d+)\s*<<\s*(\d+)\s*\)", b)]
    top = [int(a) - int(c) for a, c in re.findall(r"g4\s*>>\s*\(\s*(\d+)\s*-\s*(\d+)\s*\)", b)]
    pack = [[int(a or 0), int(c)] for a, c in re.findall(r"\(\s*\(\s*h[0-4]\s*(?:>>\s*(\d+))?\s*\)\s*\|\s*\(\s*h[0-4]\s*<<\s*(\d+)\s*\)\s*\)", b)]
    if len(pack) != 4 or len(add) != 1 or len(sub) != 1 or len(top) != 1:
        raise ExtractError("finish: expected 4 packing statements, wrapping_add(5), wrapping_sub(1 << 26), g4 >> (32 - 1)")
    return [shifts, masks, mult, add, sub, top, [x for pr in pack for x in pr]]


def T(name, fn, doc):
    """Preferred: `Table(custom=fn)` (needs the 3-line `custom` hook in extract_tables.py, see the unit report).
    Fallback for an extract_tables.py without that hook: let the generic search evaluate the harmless
    `let mut mac = [0u8; 16];` of `fn result` and replace the value in `post`."""
    if "custom" in getattr(Table, "__dataclass_fields__", {}):
        return Table(lean_file="Poly1305", lean_name=name, rust_name=name, files=FILE, elem="Int", custom=fn, doc=doc)
    import extract_tables as _et
    return Table(lean_file="Poly1305", lean_name=name, rust_name="mac", files=FILE, elem="Int", scope="result",
                 post=lambda _v, _fn=fn: _fn(_et.REPO), doc=doc)


TABLES = [
    T("R_LOADS", r_loads, "new: [byte offset, right shift, AND mask] of the five r limbs"),
    T("PAD_OFFSETS", pad_offsets, "new: byte offsets of the four pad words"),
    T("M_LOADS", m_loads, "block: [byte offset, right shift, AND mask (-1 = `| hibit`)] of the five message limbs"),
    T("HIBIT", hibit, "block: hibit when finalized / not finalized"),
    T("S_MULT", s_mult, "block: multipliers in s_i = r_i * 5"),
    T("CARRY", carry_consts, "block carry chain: [[shifts], [masks], [multipliers of c]]"),
    T("FINISH", finish_consts, "finish: [[h>>n shifts], [masks], [c multipliers], [wrapping_add], [wrapping_sub], [g4 top-bit shift], [pack shifts]]"),
]
