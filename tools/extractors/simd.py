"""Unit `simd` (C16): the *data* carried by the vectorised files -> lean/CxVerif/Extracted/Simd.lean.

  src/hashing/sha2/impl256/{sse41,avx}.rs   byte-swap shuffle masks, the shift amounts of sigma0/sigma1, the register
                                            arguments of every SCHEDULE_ROUND[_INC]! invocation (loop body and tail)
                                            and the `schedule[k] = … w…` stores of the tail, the loop bound
  src/hashing/blake2/{avx,avx2}.rs          rotation shuffle masks / immediates / shift amounts, DIAGONALIZE /
                                            UNDIAGONALIZE immediates, the message-gathering macros `load0! … load9!`
                                            as postfix programs over the shuffle intrinsics, the ROUND! sequence

The message-gathering macros are expression trees over intrinsics; they are emitted as postfix programs
`[[opcode, imm], …]` (see OPC) that lean/CxVerif/Impl/SimdBlake2.lean interprets on lane vectors, so the Lean model
*runs the shuffles of the source* and the table theorems of Props/C16/Blake2.lean (`…_loads_eq_sigma`) tie them to SIGMA.

The generic extractor looks constants up by name; these tables are not constants, so every Table below names an
anchor constant that exists (`K32`) and computes its real value in `post` from the source text.
"""
import os
import re
from extract_tables import Table, REPO, strip_rust_comments

SSE41 = "src/hashing/sha2/impl256/sse41.rs"
AVX = "src/hashing/sha2/impl256/avx.rs"
B2AVX = "src/hashing/blake2/avx.rs"
B2AVX2 = "src/hashing/blake2/avx2.rs"
ANCHOR_FILE = "src/hashing/sha2/impl256/reference.rs"

# postfix opcodes of the message-gathering programs
OPC = {
    "M": 0,
    "unpacklo_epi64": 1, "unpackhi_epi64": 2, "alignr_epi8": 3, "blend_epi16": 4, "shuffle_epi32": 5,
    "slli_si128": 6, "srli_si128": 7, "unpacklo_epi32": 8, "unpackhi_epi32": 9, "shuffle_ps": 10,
    "shufflehi_epi16": 11, "blend_epi32": 12,
}
ARITY = {"unpacklo_epi64": 2, "unpackhi_epi64": 2, "alignr_epi8": 2, "blend_epi16": 2, "shuffle_epi32": 1,
         "slli_si128": 1, "srli_si128": 1, "unpacklo_epi32": 2, "unpackhi_epi32": 2, "shuffle_ps": 2,
         "shufflehi_epi16": 1, "blend_epi32": 2}
HAS_IMM = {"alignr_epi8", "blend_epi16", "shuffle_epi32", "slli_si128", "srli_si128", "shuffle_ps",
           "shufflehi_epi16", "blend_epi32"}
CASTS = {"castps_si128", "castsi128_ps", "castps_si256", "castsi256_ps"}


def _src(rel):
    return strip_rust_comments(open(os.path.join(REPO, rel)).read())


def _balanced(s, i, open_c, close_c):
    """s[i] == open_c; returns index just after the matching close"""
    assert s[i] == open_c, (s[i:i + 20], open_c)
    d = 0
    while i < len(s):
        if s[i] == open_c:
            d += 1
        elif s[i] == close_c:
            d -= 1
            if d == 0:
                return i + 1
        i += 1
    raise ValueError("unbalanced")


def _fn_body(src, name):
    m = re.search(r"\bfn\s+" + re.escape(name) + r"\b[^{]*\{", src)
    if not m:
        raise ValueError(f"fn {name} not found")
    e = _balanced(src, m.end() - 1, "{", "}")
    return src[m.end():e - 1]


def _macros(src):
    """name -> (params, body text) for every single-arm `macro_rules! name { (params) => { body }; }`"""
    out = {}
    for m in re.finditer(r"macro_rules!\s+(\w+)\s*\{", src):
        e = _balanced(src, m.end() - 1, "{", "}")
        inner = src[m.end():e - 1].strip()
        if not inner.startswith("("):
            continue
        pe = _balanced(inner, 0, "(", ")")
        params = re.findall(r"\$(\w+)\s*:", inner[:pe])
        rest = inner[pe:].lstrip()
        if not rest.startswith("=>"):
            continue
        rest = rest[2:].lstrip()
        be = _balanced(rest, 0, "{", "}")
        out[m.group(1)] = (params, rest[1:be - 1])
    return out


# ---------------------------------------------------------------- expression parser (calls, blocks, macros)
TOK = re.compile(r"\s*(0x[0-9a-fA-F_]+|0b[01_]+|[0-9][0-9_]*|[A-Za-z_]\w*!?|[(){};,=\-+*])")


def _tokens(s):
    out, i = [], 0
    while i < len(s):
        m = TOK.match(s, i)
        if not m:
            if s[i:].strip() == "":
                break
            raise ValueError(f"cannot tokenize near {s[i:i + 30]!r}")
        out.append(m.group(1))
        i = m.end()
    return out


class P:
    def __init__(self, toks, macros, env=None):
        self.t, self.i, self.macros, self.env = toks, 0, macros, dict(env or {})

    def peek(self):
        return self.t[self.i] if self.i < len(self.t) else None

    def eat(self, x=None):
        tok = self.peek()
        if x is not None and tok != x:
            raise ValueError(f"expected {x!r} got {tok!r}")
        self.i += 1
        return tok

    def expr(self):
        v = self.term()
        while self.peek() in ("+", "-") and isinstance(v, int):
            op = self.eat()
            w = self.term()
            v = v + w if op == "+" else v - w
        return v

    def term(self):
        tok = self.peek()
        if tok == "{":
            self.eat()
            saved = dict(self.env)
            while self.peek() == "let":
                self.eat()
                name = self.eat()
                self.eat("=")
                self.env[name] = self.expr()
                self.eat(";")
            v = self.expr()
            self.eat("}")
            self.env = saved
            return v
        if tok == "(":
            self.eat()
            items = [self.expr()]
            while self.peek() == ",":
                self.eat()
                if self.peek() == ")":
                    break
                items.append(self.expr())
            self.eat(")")
            return items[0] if len(items) == 1 else ("tuple", items)
        if re.match(r"0x|0b|[0-9]", tok):
            self.eat()
            return int(tok.replace("_", ""), 0)
        if tok == "-":
            self.eat()
            return -self.expr()
        self.eat()
        if tok.endswith("!"):
            name = tok[:-1]
            args = self.args()
            if name not in self.macros:
                raise ValueError(f"unknown macro {name}!")
            params, body = self.macros[name]
            if len(params) != len(args):
                raise ValueError(f"macro {name}! arity")
            # arguments are identifiers / already-parsed trees: substitute by environment
            sub = P(_tokens(re.sub(r"\$(\w+)", r"\1", body)), self.macros, {**self.env, **dict(zip(params, args))})
            v = sub.expr()
            if sub.peek() == ";":
                sub.eat()
            if sub.peek() is not None:
                raise ValueError(f"trailing tokens in macro {name}!: {sub.peek()!r}")
            return v
        if self.peek() == "(":
            args = self.args()
            name = re.sub(r"^_mm(256)?_", "", tok)
            if tok == "_MM_SHUFFLE":
                z, y, x, w = args
                return (z << 6) | (y << 4) | (x << 2) | w
            if name in CASTS:
                return args[0]
            return ("call", name, args)
        if tok in self.env:
            return self.env[tok]
        m = re.fullmatch(r"m(\d+)", tok)
        if m:
            return ("m", int(m.group(1)))
        return ("id", tok)

    def args(self):
        self.eat("(")
        items = []
        while self.peek() != ")":
            items.append(self.expr())
            if self.peek() == ",":
                self.eat()
        self.eat(")")
        return items


def _postfix(tree):
    if isinstance(tree, tuple) and tree[0] == "m":
        return [[OPC["M"], tree[1]]]
    if isinstance(tree, tuple) and tree[0] == "call":
        _, name, args = tree
        if name not in ARITY:
            raise ValueError(f"intrinsic {name} not in the gather vocabulary")
        n = ARITY[name]
        want = n + (1 if name in HAS_IMM else 0)
        if len(args) != want:
            raise ValueError(f"{name}: {len(args)} arguments")
        out = []
        for a in args[:n]:
            out += _postfix(a)
        imm = 0
        if name in HAS_IMM:
            imm = args[n]
            if not isinstance(imm, int) or imm < 0:
                raise ValueError(f"{name}: immediate {imm!r}")
        return out + [[OPC[name], imm]]
    raise ValueError(f"unexpected gather expression {tree!r}")


def _loads(rel, fn, width):
    """[[program, …] (width programs) for load0 … load9]"""
    body = _fn_body(_src(rel), fn)
    macros = _macros(body)
    rows = []
    for r in range(10):
        name = f"load{r}"
        if name not in macros:
            raise ValueError(f"{name}! missing in {fn}")
        params, text = macros[name]
        if params:
            raise ValueError(f"{name}! takes parameters")
        p = P(_tokens(text), macros)
        v = p.expr()
        if p.peek() is not None:
            raise ValueError(f"trailing tokens in {name}!")
        if not (isinstance(v, tuple) and v[0] == "tuple" and len(v[1]) == width):
            raise ValueError(f"{name}! is not a {width}-tuple")
        rows.append([_postfix(e) for e in v[1]])
    return rows


def _round_seq(rel, fn):
    body = _fn_body(_src(rel), fn)
    # strip macro definitions: only the invocations of the function body proper
    for m in reversed(list(re.finditer(r"macro_rules!\s+\w+\s*\{", body))):
        e = _balanced(body, m.end() - 1, "{", "}")
        body = body[:m.start()] + body[e:]
    seq = [int(x) for x in re.findall(r"ROUND!\(\s*(?:\d+\s*,\s*)?load(\d+)!\(\)\s*\)", body)]
    if len(seq) != len(re.findall(r"ROUND!", body)):
        raise ValueError("ROUND! invocation of unexpected shape")
    return seq


def _call_args(rel, fn, let_name):
    """arguments of `let NAME (: T)? = intrinsic(a, b, …);` inside fn"""
    body = _fn_body(_src(rel), fn)
    m = re.search(r"\blet\s+" + re.escape(let_name) + r"\b[^=]*=\s*(\w+)\s*\(", body)
    if not m:
        raise ValueError(f"let {let_name} not found in {fn}")
    e = _balanced(body, m.end() - 1, "(", ")")
    vals = [int(x.strip().replace("_", ""), 0) for x in body[m.end():e - 1].split(",") if x.strip()]
    intr = m.group(1)
    if "setr_epi8" in intr:
        return vals                    # lowest byte first
    if "set_epi8" in intr:
        return vals[::-1]              # `_mm_set_epi8(e15, …, e0)`: reverse to lowest byte first
    raise ValueError(f"unexpected mask constructor {intr}")


def _shift_xor(rel, fn):
    """fn = xor-tree (or or-tree) of `srli/slli(arg, n)` and `add(v, v)`: [[dir, n], …], dir 0 = srli, 1 = slli, 2 = v + v;
    second component: the set of inner node kinds ("xo" / "or")"""
    body = _fn_body(_src(rel), fn)
    p = P(_tokens(body), {})
    t = p.expr()
    leaves, kinds = [], set()

    def walk(x):
        _, name, args = x
        if name in ("xor_si128", "xor_si256", "or_si128", "or_si256"):
            kinds.add(name[:2].rstrip("_"))
            walk(args[0]); walk(args[1])
        elif re.fullmatch(r"srli_epi(32|64)", name):
            leaves.append([0, args[1]])
        elif re.fullmatch(r"slli_epi(32|64)", name):
            leaves.append([1, args[1]])
        elif re.fullmatch(r"add_epi(32|64)", name) and args[0] == args[1] and args[0][0] == "id":
            leaves.append([2, 0])
        else:
            raise ValueError(f"{fn}: unexpected node {name}")
    walk(t)
    return leaves, sorted(kinds)


def _imm_of(rel, fn, intrinsic):
    body = _fn_body(_src(rel), fn)
    p = P(_tokens(body), {})
    t = p.expr()
    if not (t[0] == "call" and t[1] == intrinsic and isinstance(t[2][1], int)):
        raise ValueError(f"{fn}: expected {intrinsic}(r, imm)")
    return t[2][1]


def _diag_imms(rel, fn, macro, intrinsic):
    """`row = intrinsic(row, imm);` statements of DIAGONALIZE!/UNDIAGONALIZE!: [[row-code, imm], …] in source order"""
    body = _fn_body(_src(rel), fn)
    params, text = _macros(body)[macro]
    out = []
    for m in re.finditer(r"(\w+)\s*=\s*_mm(?:256)?_" + intrinsic + r"\(\s*(\w+)\s*,\s*_MM_SHUFFLE\(([^)]*)\)\s*\)\s*;", text):
        if m.group(1) != m.group(2):
            raise ValueError(f"{macro}: {m.group(1)} = f({m.group(2)})")
        z, y, x, w = [int(v) for v in m.group(3).split(",")]
        code = {"row1": 1, "row2": 2, "row3": 3, "row4": 4, "a": 1, "b": 2, "c": 3, "d": 4}[m.group(1)]
        out.append([code, (z << 6) | (y << 4) | (x << 2) | w])
    if len(out) != 3 or len(re.findall(r";", text)) != 3:
        raise ValueError(f"{macro}: expected exactly three shuffles")
    return out


def _sched(rel, fn):
    """(loop bound, loop body [[w1,w2,w3,w4]…], tail [[w1,w2,w3,w4,k,wk]…])"""
    body = _fn_body(_src(rel), fn)
    m = re.search(r"while\s+i\s*<\s*(\d+)\s*\{", body)
    if not m:
        raise ValueError("schedule loop not found")
    e = _balanced(body, m.end() - 1, "{", "}")
    loop, after = body[m.end():e - 1], body[e:]
    inv = r"SCHEDULE_ROUND(_INC)?!\(\s*schedule\s*,\s*i\s*,\s*w(\d+)\s*,\s*w(\d+)\s*,\s*w(\d+)\s*,\s*w(\d+)\s*\)\s*;"
    lb = [[int(g) for g in x[1:]] for x in re.findall(inv, loop)]
    if re.sub(inv, "", loop).strip() or any(x[0] != "_INC" for x in re.findall(inv, loop)):
        raise ValueError("unexpected statement in the schedule loop")
    st = r"schedule\[(\d+)\]\s*=\s*_mm(?:256)?_add_epi32\(\s*w(\d+)\s*,\s*_mm(?:256)?_set1_epi32\(\s*K32\[(\d+)\]\s*as\s*i32\s*\)\s*\)\s*;"
    tail, pos = [], 0
    items = list(re.finditer(inv + r"\s*" + st, after))
    rest = after
    for it in items:
        g = it.groups()
        if g[5] != g[7]:
            raise ValueError("schedule[k] uses K32[k'] with k' != k")
        tail.append([int(g[1]), int(g[2]), int(g[3]), int(g[4]), int(g[5]), int(g[6])])
    rest = re.sub(inv + r"\s*" + st, "", after).strip()
    if rest:
        raise ValueError(f"unexpected statement after the schedule loop: {rest[:40]!r}")
    incs = [it.group(1) for it in items]
    if incs[:-1] != ["_INC"] * (len(incs) - 1):
        raise ValueError("tail: SCHEDULE_ROUND without increment before the last")
    return int(m.group(1)), lb, tail


def _gather_offsets(rel):
    """`read(block.add(k))` word offsets of `gather` in order of the lanes; also checks lane numbers 0,1,2,…"""
    body = _fn_body(_src(rel), "gather")
    offs = [0] if re.search(r"cvtsi32_si128\(read\(block\)\)", body) else []
    lanes = re.findall(r"insert_epi32\(\s*temp\s*,\s*read\(block\.add\((\d+)\)\)\s*,\s*(\d+)\s*\)", body)
    for k, (o, lane) in enumerate(lanes):
        if int(lane) != k + 1:
            raise ValueError("gather: lanes not inserted in order")
        offs.append(int(o))
    return offs


def _sched_offsets(rel, fn):
    body = _fn_body(_src(rel), fn)
    got = re.findall(r"w(\d+)\s*=\s*gather\(message(?:\.add\((\d+)\))?\)\s*;", body)
    if [int(a) for a, _ in got] != list(range(16)):
        raise ValueError("gather assignments not w0..w15")
    sw = re.findall(r"w(\d+)\s*=\s*_mm(?:256)?_shuffle_epi8\(w(\d+),\s*bswap_mask\)\s*;", body)
    if [(int(a), int(b)) for a, b in sw] != [(i, i) for i in range(16)]:
        raise ValueError("byte swaps not w0..w15 in place")
    return [int(b or 0) for _, b in got]


def _batch(rel):
    body = _fn_body(_src(rel), "digest_block")
    m = re.search(r"while\s+block\.len\(\)\s*>=\s*(\d+)", body)
    n = re.search(r"block\s*=\s*&block\[(\d+)\.\.\]", body)
    if not m or not n or m.group(1) != n.group(1):
        raise ValueError("digest_block batching loop of unexpected shape")
    return int(m.group(1))


def _kind(rel, fn):
    k = _shift_xor(rel, fn)[1]
    return {("xo",): 0, ("or",): 1}.get(tuple(k), 2)


def _compress_lanes(rel, fn):
    body = _fn_body(_src(rel), fn)
    for m in reversed(list(re.finditer(r"macro_rules!\s+\w+\s*\{", body))):
        e = _balanced(body, m.end() - 1, "{", "}")
        body = body[:m.start()] + body[e:]
    lanes = [int(x) for x in re.findall(r"compress_once!\((\d+)\)\s*;", body)]
    if re.sub(r"compress_once!\((\d+)\)\s*;", "", body).replace("use super::reference::{e0, e1};", "").strip():
        raise ValueError(f"{fn}: unexpected statement")
    return lanes


FEAT = {"sse4.1": 1, "avx": 2, "avx2": 3}
MODS = {"reference": 0, "sse41": 1, "avx": 2, "avx2": 3}


def _dispatch(rel, impl, fn, callee):
    """the `#[cfg(target_feature = F)] { if HAS_F { return M::callee(…) } }` blocks of a dispatch function, in source
    order: [[feature code, module code], …]; checks that HAS_F is `true` exactly under `cfg(target_feature = F)` and
    that the fall-through is `reference::callee`"""
    src = _src(rel)
    if impl:
        m = re.search(r"\bimpl\s+" + impl + r"\s*\{", src)
        if not m:
            raise ValueError(f"impl {impl} not found")
        src = src[m.end():_balanced(src, m.end() - 1, "{", "}")]
    body = _fn_body(src, fn)
    has = {}
    for f, name, val in re.findall(r'#\[cfg\(target_feature\s*=\s*"([^"]+)"\)\]\s*const\s+(HAS_\w+)\s*:\s*bool\s*=\s*(true|false)\s*;', body):
        if val != "true":
            raise ValueError(f"{name} is false under cfg(target_feature = {f})")
        has[name] = f
    for f, name, val in re.findall(r'#\[cfg\(not\(target_feature\s*=\s*"([^"]+)"\)\)\]\s*const\s+(HAS_\w+)\s*:\s*bool\s*=\s*(true|false)\s*;', body):
        if val != "false" or has.get(name) != f:
            raise ValueError(f"{name}: inconsistent definitions")
    out = []
    for f, name, mod, cal in re.findall(r'#\[cfg\(target_feature\s*=\s*"([^"]+)"\)\]\s*\{\s*if\s+(HAS_\w+)\s*\{\s*return\s+(\w+)::(\w+)\(', body):
        if has.get(name) != f or cal != callee:
            raise ValueError(f"dispatch block cfg({f}) tests {name} / calls {cal}")
        out.append([FEAT[f], MODS[mod]])
    n_ret = len(re.findall(r"\breturn\b", re.sub(r'#\[cfg\(target_arch\s*=\s*"aarch64"\)\]\s*\{', "{AARCH64", body).split("{AARCH64")[0]))
    if n_ret != len(out):
        raise ValueError("a `return` outside the recognised dispatch blocks")
    if not re.search(r"\breference::" + callee + r"\([^;]*\)\s*$", body.strip()):
        raise ValueError("fall-through is not reference::" + callee)
    return out


def T(name, fn, doc, elem="Nat"):
    return Table("Simd", name, "K32", ANCHOR_FILE, elem=elem, post=lambda _v, f=fn: f(), doc=doc + "; anchor")


TABLES = [
    # ---- SHA-256 SSE4.1
    T("SSE41_BSWAP_MASK", lambda: _call_args(SSE41, "message_schedule_4ways", "bswap_mask"),
      "sse41.rs `bswap_mask`, index = destination byte (lowest first), value = source byte selector"),
    T("SSE41_SIGMA0", lambda: _shift_xor(SSE41, "sigma0")[0], "sse41.rs sigma0: xor of shifts [dir(0 right,1 left), amount]"),
    T("SSE41_SIGMA1", lambda: _shift_xor(SSE41, "sigma1")[0], "sse41.rs sigma1: xor of shifts"),
    T("SSE41_SIGMA_KINDS", lambda: [_kind(SSE41, f) for f in ("sigma0", "sigma1")],
      "0 = every inner node of sigma0/sigma1 is `_mm_xor_si128`"),
    T("SSE41_GATHER", lambda: _gather_offsets(SSE41), "sse41.rs gather: i32 word offset read into lane j"),
    T("SSE41_MSG_OFFSETS", lambda: _sched_offsets(SSE41, "message_schedule_4ways"), "byte offset `message.add(k)` of w0..w15"),
    T("SSE41_LOOP_BOUND", lambda: _sched(SSE41, "message_schedule_4ways")[0], "`while i < 32`"),
    T("SSE41_LOOP_BODY", lambda: _sched(SSE41, "message_schedule_4ways")[1], "register numbers of the 16 SCHEDULE_ROUND_INC! of the loop"),
    T("SSE41_TAIL", lambda: _sched(SSE41, "message_schedule_4ways")[2], "tail: [w1,w2,w3,w4] of SCHEDULE_ROUND, then `schedule[k] = wk + K32[k]`"),
    T("SSE41_COMPRESS_LANES", lambda: _compress_lanes(SSE41, "compress_4ways"), "`compress_once!(j)` invocations of compress_4ways"),
    T("SSE41_BATCH_BYTES", lambda: _batch(SSE41), "`while block.len() >= 256 { …; block = &block[256..] }`"),
    # ---- SHA-256 AVX
    T("AVX_BSWAP_MASK", lambda: _call_args(AVX, "message_schedule_8ways", "bswap_mask"), "avx.rs `bswap_mask` (32 bytes)"),
    T("AVX_SIGMA0", lambda: _shift_xor(AVX, "sigma0")[0], "avx.rs sigma0"),
    T("AVX_SIGMA1", lambda: _shift_xor(AVX, "sigma1")[0], "avx.rs sigma1"),
    T("AVX_SIGMA_KINDS", lambda: [_kind(AVX, f) for f in ("sigma0", "sigma1")],
      "0 = every inner node is `_mm256_xor_si256`"),
    T("AVX_GATHER", lambda: _gather_offsets(AVX), "avx.rs gather: i32 word offset read into lane j"),
    T("AVX_MSG_OFFSETS", lambda: _sched_offsets(AVX, "message_schedule_8ways"), "byte offset of w0..w15"),
    T("AVX_LOOP_BOUND", lambda: _sched(AVX, "message_schedule_8ways")[0], "`while i < 32`"),
    T("AVX_LOOP_BODY", lambda: _sched(AVX, "message_schedule_8ways")[1], "loop body registers"),
    T("AVX_TAIL", lambda: _sched(AVX, "message_schedule_8ways")[2], "tail"),
    T("AVX_COMPRESS_LANES", lambda: _compress_lanes(AVX, "compress_8ways"), "`compress_once!(j)` invocations of compress_8ways"),
    T("AVX_BATCH_BYTES", lambda: _batch(AVX), "`while block.len() >= 512`"),
    # ---- dispatch (mod.rs files)
    T("DISPATCH_SHA256", lambda: _dispatch("src/hashing/sha2/impl256/mod.rs", None, "digest_block", "digest_block"),
      "impl256::digest_block: [feature (1 sse4.1, 2 avx, 3 avx2), module (0 reference, 1 sse41, 2 avx, 3 avx2)] in source order"),
    T("DISPATCH_BLAKE2B", lambda: _dispatch("src/hashing/blake2/mod.rs", "EngineB", "compress", "compress_b"), "EngineB::compress"),
    T("DISPATCH_BLAKE2S", lambda: _dispatch("src/hashing/blake2/mod.rs", "EngineS", "compress", "compress_s"), "EngineS::compress"),
    # ---- BLAKE2 avx.rs (b and s)
    T("B_ROT16_MASK", lambda: _call_args(B2AVX, "rotate16_epi64", "r16"), "blake2/avx.rs rotate16_epi64 shuffle mask"),
    T("B_ROT24_MASK", lambda: _call_args(B2AVX, "rotate24_epi64", "r24"), "rotate24_epi64 shuffle mask"),
    T("B_ROT32_IMM", lambda: _imm_of(B2AVX, "rotate32_epi64", "shuffle_epi32"), "rotate32_epi64: `_mm_shuffle_epi32` immediate"),
    T("B_ROT63", lambda: _shift_xor(B2AVX, "rotate63_epi64")[0], "rotate63_epi64: xor of shifts"),
    T("ROT_KINDS", lambda: [_kind(B2AVX, "rotate63_epi64"), _kind(B2AVX, "rotate7_epi32"), _kind(B2AVX, "rotate12_epi32"), _kind(B2AVX2, "rot63")],
      "combining operation of rotate63_epi64, rotate7_epi32, rotate12_epi32 (avx.rs), rot63 (avx2.rs): 0 = xor, 1 = or"),
    T("S_ROT7", lambda: _shift_xor(B2AVX, "rotate7_epi32")[0], "rotate7_epi32"),
    T("S_ROT12", lambda: _shift_xor(B2AVX, "rotate12_epi32")[0], "rotate12_epi32"),
    T("S_ROT8_MASK", lambda: _call_args(B2AVX, "rotate8_epi32", "r8"), "rotate8_epi32 mask"),
    T("S_ROT16_MASK", lambda: _call_args(B2AVX, "rotate16_epi32", "r16"), "rotate16_epi32 mask"),
    T("S_DIAG", lambda: _diag_imms(B2AVX, "compress_s_avx", "DIAGONALIZE", "shuffle_epi32"), "[row, imm] of DIAGONALIZE! (blake2s)"),
    T("S_UNDIAG", lambda: _diag_imms(B2AVX, "compress_s_avx", "UNDIAGONALIZE", "shuffle_epi32"), "[row, imm] of UNDIAGONALIZE!"),
    T("B_AVX_LOADS", lambda: _loads(B2AVX, "compress_b_avx", 8), "blake2b load0!..load9!: 8 postfix gather programs each"),
    T("S_AVX_LOADS", lambda: _loads(B2AVX, "compress_s_avx", 4), "blake2s load0!..load9!: 4 postfix gather programs each"),
    T("B_AVX_ROUNDS", lambda: _round_seq(B2AVX, "compress_b_avx"), "load index of each ROUND! of compress_b_avx"),
    T("S_AVX_ROUNDS", lambda: _round_seq(B2AVX, "compress_s_avx"), "load index of each ROUND! of compress_s_avx"),
    # ---- BLAKE2 avx2.rs (b)
    T("B2_ROT16_MASK", lambda: _call_args(B2AVX2, "rot16", "r16"), "blake2/avx2.rs rot16 mask (32 bytes)"),
    T("B2_ROT24_MASK", lambda: _call_args(B2AVX2, "rot24", "r24"), "rot24 mask"),
    T("B2_ROT32_IMM", lambda: _imm_of(B2AVX2, "rot32", "shuffle_epi32"), "rot32 immediate"),
    T("B2_ROT63", lambda: _shift_xor(B2AVX2, "rot63")[0], "rot63: `srli 63 | (v + v)`"),
    T("B2_DIAG", lambda: _diag_imms(B2AVX2, "compress_b_avx2", "DIAGONALIZE", "permute4x64_epi64"), "[vector(1=a,3=c,4=d), imm]"),
    T("B2_UNDIAG", lambda: _diag_imms(B2AVX2, "compress_b_avx2", "UNDIAGONALIZE", "permute4x64_epi64"), "[vector, imm]"),
    T("B_AVX2_LOADS", lambda: _loads(B2AVX2, "compress_b_avx2", 4), "avx2 load0!..load9!: 4 postfix gather programs each"),
    T("B_AVX2_ROUNDS", lambda: _round_seq(B2AVX2, "compress_b_avx2"), "load index of each ROUND!"),
]
