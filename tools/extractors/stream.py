"""Constant tables of the stream-cipher unit (ChaCha engines, Salsa).

CST16/CST32 are associated consts of both ChaCha engines.  The Salsa constants are byte-string literals inside a
`match key.len()` expression of `State::init` (no named const); they are cut out by a regex into a derived
Rust snippet under .cache/ which the generic translator then parses (an absolute `files` path is honoured by
os.path.join).  If the literals cannot be found the snippet is empty and the extraction fails loudly.
"""
import os
import re

from extract_tables import Table, REPO, VERIF

_DERIVED = os.path.join(VERIF, ".cache", "extract", "salsa_constants.rs")


def _derive_salsa():
    out = []
    try:
        src = open(os.path.join(REPO, "src", "salsa20.rs")).read()
        src = re.sub(r"//[^\n]*", "", src)
        m = re.search(r"fn\s+init\s*\([^)]*\)\s*->\s*Self\s*\{(.*?)let\s+key_tail", src, re.S)
        body = m.group(1) if m else ""
        for klen in (16, 32):
            mm = re.search(r"\b%d\s*=>\s*(b\"(?:[^\"\\]|\\.)*\")" % klen, body)
            if mm:
                # the `b` prefix is dropped: the translator's tokenizer reads a plain string literal as its bytes
                out.append("const SALSA_CST%d: &[u8] = %s;" % (klen, mm.group(1)[1:]))
    except OSError:
        pass
    os.makedirs(os.path.dirname(_DERIVED), exist_ok=True)
    content = "\n".join(out) + "\n"
    if not os.path.exists(_DERIVED) or open(_DERIVED).read() != content:
        with open(_DERIVED, "w") as f:
            f.write(content)


_derive_salsa()

TABLES = [
    Table(lean_file="Stream", lean_name="CST16_reference", rust_name="CST16", files="src/chacha/reference.rs",
          elem="UInt32", doc="ChaCha constant words for 16-byte keys, portable engine"),
    Table(lean_file="Stream", lean_name="CST32_reference", rust_name="CST32", files="src/chacha/reference.rs",
          elem="UInt32", doc="ChaCha constant words for 32-byte keys, portable engine"),
    Table(lean_file="Stream", lean_name="CST16_sse2", rust_name="CST16", files="src/chacha/sse2.rs",
          elem="UInt32", doc="ChaCha constant words for 16-byte keys, SSE2 engine"),
    Table(lean_file="Stream", lean_name="CST32_sse2", rust_name="CST32", files="src/chacha/sse2.rs",
          elem="UInt32", doc="ChaCha constant words for 32-byte keys, SSE2 engine"),
    Table(lean_file="Stream", lean_name="SALSA_CST16", rust_name="SALSA_CST16", files=_DERIVED,
          elem="UInt8", doc="Salsa constant bytes for 16-byte keys (literal in salsa20.rs State::init)"),
    Table(lean_file="Stream", lean_name="SALSA_CST32", rust_name="SALSA_CST32", files=_DERIVED,
          elem="UInt8", doc="Salsa constant bytes for 32-byte keys (literal in salsa20.rs State::init)"),
]
