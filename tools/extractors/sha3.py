"""Tables of src/hashing/sha3.rs and src/hashing/keccak.rs -> lean/CxVerif/Extracted/Sha3.lean.

Constant tables (RC, ROTC, PIL, M5, B, NROUNDS) are found by name.  The digest sizes and the domain-separation
length are not `const`s but macro arguments (`sha3_impl!(Sha3_224, Context224, 28, ...)`, `Engine<$digestlength, 2>`);
they are read from the macro invocations / the macro body by the `post` functions below (the `B` constant is only
the anchor that makes the generic extractor open the file).
Each `*_VARIANTS` row is `[bits in the type name, DIGESTLEN argument, DSLEN argument of Engine<_, DSLEN>]`.
"""
import os
import re

from extract_tables import Table, ExtractError, REPO, strip_rust_comments

F3 = "src/hashing/sha3.rs"
FK = "src/hashing/keccak.rs"


def _variants(path, macro):
    def post(_v):
        src = strip_rust_comments(open(os.path.join(REPO, path)).read())
        body = re.search(r"macro_rules!\s*" + macro + r"\s*\{(.*?)\n\}", src, re.S)
        if not body:
            raise ExtractError(f"macro {macro} not found in {path}")
        m = re.search(r"struct\s+\$context\s*\(\s*Engine\s*<\s*\$digestlength\s*,\s*([0-9]+)\s*>\s*\)", body.group(1))
        if not m:
            raise ExtractError(f"Engine<$digestlength, DSLEN> not found in macro {macro}")
        dslen = int(m.group(1))
        rows = []
        for inv in re.finditer(macro + r"!\s*\(\s*([A-Za-z_0-9]+)\s*,\s*([A-Za-z_0-9]+)\s*,\s*([0-9_]+)\s*,", src):
            bits = re.search(r"([0-9]+)$", inv.group(1))
            if not bits:
                raise ExtractError(f"no size in type name {inv.group(1)}")
            rows.append([int(bits.group(1)), int(inv.group(3).replace("_", "")), dslen])
        if not rows:
            raise ExtractError(f"no invocation of {macro}! in {path}")
        return rows
    return post


def _oneshots(_v):
    """[bits, kind] of the one-shot functions of hashing/mod.rs: which context type each of them uses
    (kind 3 = sha3::Sha3_<bits>, kind 0 = keccak::Keccak<bits>)"""
    src = strip_rust_comments(open(os.path.join(REPO, "src/hashing/mod.rs")).read())
    rows = []
    for m in re.finditer(r"pub fn (sha3_|keccak)([0-9]+)\s*\(\s*input\s*:\s*&\[u8\]\s*\)\s*->\s*\[u8;\s*([0-9]+)\]\s*\{\s*"
                         r"(sha3::Sha3_|keccak::Keccak)([0-9]+)::new\(\)\s*\.update\(input\)\s*\.finalize\(\)\s*\}", src):
        rows.append([3 if m.group(1) == "sha3_" else 0, int(m.group(2)), int(m.group(3)),
                     3 if m.group(4).startswith("sha3") else 0, int(m.group(5))])
    if not rows:
        raise ExtractError("one-shot sha3/keccak functions not found in src/hashing/mod.rs")
    return rows


TABLES = [
    Table("Sha3", "RC", "RC", F3, elem="UInt64", doc="Keccak-f round constants"),
    Table("Sha3", "ROTC", "ROTC", F3, elem="Nat", doc="rotation amounts along the rho-pi walk"),
    Table("Sha3", "PIL", "PIL", F3, elem="Nat", doc="lane indices along the rho-pi walk"),
    Table("Sha3", "M5", "M5", F3, elem="Nat", doc="index mod 5 table"),
    Table("Sha3", "B", "B", F3, elem="Nat", doc="state size in bytes"),
    Table("Sha3", "NROUNDS", "NROUNDS", F3, elem="Nat", doc="number of rounds"),
    Table("Sha3", "SHA3_VARIANTS", "B", F3, elem="Nat", post=_variants(F3, "sha3_impl"),
          doc="[bits, DIGESTLEN, DSLEN] of every sha3_impl! invocation"),
    Table("Sha3", "KECCAK_VARIANTS", "B", F3, elem="Nat", post=_variants(FK, "keccak_impl"),
          doc="[bits, DIGESTLEN, DSLEN] of every keccak_impl! invocation"),
    Table("Sha3", "ONESHOTS", "B", F3, elem="Nat", post=_oneshots,
          doc="[fn family (3=sha3_,0=keccak), fn bits, output array length, context family, context bits] of the one-shot fns of hashing/mod.rs"),
]
