"""Constant tables of src/curve25519/scalar/scalar64.rs -> lean/CxVerif/Extracted/Scalar64.lean"""
from extract_tables import Table

F = "src/curve25519/scalar/scalar64.rs"

TABLES = [
    Table("Scalar64", "M", "M", F, "Nat", doc="group order L in 5 limbs of 56 bits"),
    Table("Scalar64", "MU", "MU", F, "Nat", doc="Barrett constant floor(2^512 / L) in 5 limbs of 56 bits"),
    Table("Scalar64", "MASK16", "MASK16", F, "Nat", doc="2^16-1"),
    Table("Scalar64", "MASK40", "MASK40", F, "Nat", doc="2^40-1"),
    Table("Scalar64", "MASK56", "MASK56", F, "Nat", doc="2^56-1"),
    Table("Scalar64", "ZERO", "ZERO", F, "Nat", scope="Scalar", doc="Scalar::ZERO limbs"),
    Table("Scalar64", "ONE", "ONE", F, "Nat", scope="Scalar", doc="Scalar::ONE limbs"),
    Table("Scalar64", "TEST_L", "L", F, "Nat", scope="canonical", doc="test constant: bytes of L"),
    Table("Scalar64", "TEST_LM1", "LM1", F, "Nat", scope="canonical", doc="test constant: bytes of L-1"),
    Table("Scalar64", "TEST_LP1", "LP1", F, "Nat", scope="canonical", doc="test constant: bytes of L+1"),
]
