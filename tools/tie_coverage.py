#!/usr/bin/env python3
"""tie_coverage.py — which functions of /repo/src are reached by a source-level translator (and hence by a tie theorem)?

Lists every `fn` of /repo/src (outside `#[cfg(test)]` modules, tests and benches) and marks it TIED when some kernel
spec of tools/kernels/*.py translates a function of that name in that file (specs without a file are matched by
name).  Writes /verif/coverage/tie_coverage.json and prints a per-file table.  This is the list behind the statement
"exactly which parts of the code are modelled rather than verified": an untied function is covered by the hand model
and the differential correspondence only (or is dispatch / formatting / test support code)."""
import importlib
import json
import os
import pkgutil
import re
import sys

HERE = os.path.dirname(os.path.abspath(__file__))
sys.path.insert(0, HERE)
V = os.path.dirname(HERE)
REPO = os.environ.get("CX_REPO", "/repo")


def rust_fns(path):
    src = open(path).read()
    # cut #[cfg(test)] modules (brace matching) and bench modules
    out, i = [], 0
    text = src
    for m in list(re.finditer(r"#\[cfg\((?:test|all\(test[^\]]*)\)\]\s*(?:pub\s+)?mod\s+\w+\s*\{", text)) + \
            list(re.finditer(r"#\[cfg\(all\(test, feature = \"with-bench\"\)\)\]\s*mod\s+\w+\s*\{", text)):
        j, depth = m.end(), 1
        while j < len(text) and depth:
            depth += {"{": 1, "}": -1}.get(text[j], 0)
            j += 1
        text = text[:m.start()] + " " * (j - m.start()) + text[j:]
    text = re.sub(r"//[^\n]*", lambda mm: " " * len(mm.group(0)), text)
    for m in re.finditer(r"\bfn\s+([A-Za-z_][A-Za-z0-9_]*)", text):
        # macro-template names ($name) are not functions of their own
        if text[max(0, m.start() - 1)] == "$":
            continue
        out.append((m.group(1), text.count("\n", 0, m.start()) + 1))
    return out


def spec_fns():
    tied = {}
    for m in sorted(pkgutil.iter_modules([os.path.join(HERE, "kernels")])):
        mod = importlib.import_module("kernels." + m.name)
        for k in getattr(mod, "KERNELS", []):
            fn = getattr(k, "fn", None)
            if not isinstance(fn, str):
                continue
            f = None
            for attr in ("file", "mod", "module", "path"):
                v = getattr(k, attr, None)
                if isinstance(v, str):
                    f = v
                    break
                vf = getattr(v, "file", None) if v is not None else None
                if isinstance(vf, str):
                    f = vf
                    break
            tied.setdefault(fn, []).append((f, m.name))
    return tied


def main():
    tied = spec_fns()
    files = {}
    for root, _, names in os.walk(os.path.join(REPO, "src")):
        for n in sorted(names):
            if not n.endswith(".rs") or n in ("tests.rs", "testrng.rs", "precomp.rs"):
                continue
            p = os.path.join(root, n)
            rel = os.path.relpath(p, REPO)
            fns = rust_fns(p)
            rows = []
            for name, line in fns:
                hits = tied.get(name, [])
                # a spec counts only when it names THIS file (full relative path, or a module path that ends the same way);
                # specs that carry no file are reported as name-only matches and are NOT counted as tied
                def same(f):
                    f = f.replace("::", "/")
                    if not f.endswith(".rs"):
                        f = f + ".rs"
                    return rel.endswith(f) or f.endswith(rel) or rel.replace("/mod.rs", ".rs").endswith(f)
                ok = [u for (f, u) in hits if f is not None and same(f)]
                nameonly = [u for (f, u) in hits if f is None]
                rows.append({"fn": name, "line": line, "tied_by": sorted(set(ok)), "name_only": sorted(set(nameonly))})
            files[rel] = rows
    tot = sum(len(r) for r in files.values())
    t = sum(1 for r in files.values() for x in r if x["tied_by"])
    no = sum(1 for r in files.values() for x in r if not x["tied_by"] and x.get("name_only"))
    os.makedirs(os.path.join(V, "coverage"), exist_ok=True)
    json.dump({"functions": tot, "tied": t, "name_only_not_counted": no, "files": files}, open(os.path.join(V, "coverage", "tie_coverage.json"), "w"), indent=1)
    for rel, rows in sorted(files.items()):
        if not rows:
            continue
        k = sum(1 for x in rows if x["tied_by"])
        un = [x["fn"] for x in rows if not x["tied_by"]]
        print(f"{k:4d}/{len(rows):4d}  {rel}" + ("   untied: " + ",".join(un[:14]) + (" …" if len(un) > 14 else "") if un else ""))
    print(f"TOTAL {t}/{tot} function definitions of /repo/src are translated from source (spec names the file) and tied to the model by a theorem; "
          f"{no} more match a spec by name only (spec without file information) and are not counted")


if __name__ == "__main__":
    main()
