#!/usr/bin/env python3
"""ktx_simd_hwtest — test vectors for lean/CxVerif/Util/Intrinsics.lean from the REAL instructions.

Not part of a check run (the check machine need not have AVX2): run by hand on an x86-64 machine with AVX2 + a Rust
toolchain; it writes lean/CxVerif/Util/IntrinsicsHwTest.lean (committed), whose `example`s are re-checked by Lean's kernel
on every build.  For every intrinsic of Util/Intrinsics.lean it draws pseudo-random operands (fixed seed) and immediates
(the ones the sources use plus a few others), lets a small Rust program execute the `core::arch::x86_64` intrinsic and
prints   example : <lean call on the operands> = <what the CPU returned> := by decide.

    python3 tools/ktx_simd_hwtest.py            # regenerate the Lean file
"""
import os
import random
import subprocess
import sys
import tempfile

HERE = os.path.dirname(os.path.abspath(__file__))
OUT = os.path.join(HERE, "..", "lean", "CxVerif", "Util", "IntrinsicsHwTest.lean")
R = random.Random(20260928)


def r32():
    c = R.random()
    if c < 0.15:
        return R.choice([0, 0xFFFFFFFF, 0x80000000, 0x7FFFFFFF, 1])
    return R.getrandbits(32)


def v128():
    return [r32() for _ in range(4)]


def v256():
    return [r32() for _ in range(8)]


def rs128(v):     # rust expression
    return "_mm_set_epi32(%s)" % ", ".join(f"0x{x:08x}u32 as i32" for x in reversed(v))


def rs256(v):
    return "_mm256_set_epi32(%s)" % ", ".join(f"0x{x:08x}u32 as i32" for x in reversed(v))


def l128(v):
    return "⟨" + ", ".join(f"0x{x:08x}" for x in v) + "⟩"


def l256(v):
    return "⟨" + l128(v[:4]) + ", " + l128(v[4:]) + "⟩"


TESTS = []     # (kind of result, rust expr, lean lhs)


def t(kind, rust, lean):
    TESTS.append((kind, rust, lean))


def un128(name, imms=None, n=3):
    for imm in (imms or [None]):
        for _ in range(n if imm is None else 2):
            a = v128()
            if imm is None:
                t("128", f"{name}({rs128(a)})", f"{name} {l128(a)}")
            else:
                t("128", f"{name}::<{imm}>({rs128(a)})", f"{name} {l128(a)} {imm}")


def bin128(name, imms=None, n=3):
    for imm in (imms or [None]):
        for _ in range(n if imm is None else 2):
            a, b = v128(), v128()
            if imm is None:
                t("128", f"{name}({rs128(a)}, {rs128(b)})", f"{name} {l128(a)} {l128(b)}")
            else:
                t("128", f"{name}::<{imm}>({rs128(a)}, {rs128(b)})", f"{name} {l128(a)} {l128(b)} {imm}")


def un256(name, imms=None, n=3):
    for imm in (imms or [None]):
        for _ in range(n if imm is None else 2):
            a = v256()
            if imm is None:
                t("256", f"{name}({rs256(a)})", f"{name} {l256(a)}")
            else:
                t("256", f"{name}::<{imm}>({rs256(a)})", f"{name} {l256(a)} {imm}")


def bin256(name, imms=None, n=3):
    for imm in (imms or [None]):
        for _ in range(n if imm is None else 2):
            a, b = v256(), v256()
            if imm is None:
                t("256", f"{name}({rs256(a)}, {rs256(b)})", f"{name} {l256(a)} {l256(b)}")
            else:
                t("256", f"{name}::<{imm}>({rs256(a)}, {rs256(b)})", f"{name} {l256(a)} {l256(b)} {imm}")


def build_tests():
    for nm in ("_mm_add_epi32", "_mm_add_epi64", "_mm_xor_si128", "_mm_or_si128", "_mm_unpacklo_epi64", "_mm_unpackhi_epi64",
               "_mm_unpacklo_epi32", "_mm_unpackhi_epi32"):
        bin128(nm)
    un128("_mm_slli_epi32", [0, 7, 12, 13, 14, 15, 25, 31, 32, 200])
    un128("_mm_srli_epi32", [0, 3, 7, 10, 17, 18, 19, 31, 32, 255])
    un128("_mm_slli_epi64", [0, 1, 33, 63, 64, 100])
    un128("_mm_srli_epi64", [0, 1, 31, 63, 64, 255])
    un128("_mm_shuffle_epi32", [0x39, 0x4E, 0x93, 0xB1, 0x1B, 0x00, 0xFF, 0x72])
    un128("_mm_shufflehi_epi16", [0x4E, 0x1B, 0xB1, 0x27])
    un128("_mm_slli_si128", [0, 4, 8, 12, 3, 15, 16, 200])
    un128("_mm_srli_si128", [0, 4, 8, 12, 5, 15, 16, 255])
    bin128("_mm_blend_epi16", [0xF0, 0x0C, 0xC0, 0x30, 0x3C, 0x03, 0x33, 0x0F, 0xA5, 0x00, 0xFF])
    bin128("_mm_alignr_epi8", [8, 0, 1, 4, 15, 16, 17, 24, 31, 32, 100])
    # shuffle_ps through the casts
    for imm in (0x88, 0xDD, 0x1B, 0xE4):
        for _ in range(2):
            a, b = v128(), v128()
            t("128", f"_mm_castps_si128(_mm_shuffle_ps::<{imm}>(_mm_castsi128_ps({rs128(a)}), _mm_castsi128_ps({rs128(b)})))",
              f"_mm_castps_si128 (_mm_shuffle_ps (_mm_castsi128_ps {l128(a)}) (_mm_castsi128_ps {l128(b)}) {imm})")
    # pshufb: random selectors incl. the high bit, and the masks of the sources
    for _ in range(4):
        bin128("_mm_shuffle_epi8", n=1)
    for mask in ([12, 13, 14, 15, 8, 9, 10, 11, 4, 5, 6, 7, 0, 1, 2, 3], [2, 3, 4, 5, 6, 7, 0, 1, 10, 11, 12, 13, 14, 15, 8, 9][::-1],
                 [0x80, 1, 0x8F, 3, 0x7F, 0x10, 0x1F, 0xFF, 0, 0, 5, 5, 0x85, 9, 0x0A, 0x4B]):
        a = v128()
        args = ", ".join(f"0x{m:02x}u8 as i8" for m in mask)
        largs = " ".join(f"0x{m:02x}" for m in mask)
        t("128", f"_mm_shuffle_epi8({rs128(a)}, _mm_set_epi8({args}))", f"_mm_shuffle_epi8 {l128(a)} (_mm_set_epi8 {largs})")
        t("128", f"_mm_shuffle_epi8({rs128(a)}, _mm_setr_epi8({args}))", f"_mm_shuffle_epi8 {l128(a)} (_mm_setr_epi8 {largs})")
    for _ in range(2):
        bs = [R.getrandbits(8) for _ in range(16)]
        args = ", ".join(f"0x{m:02x}u8 as i8" for m in bs)
        largs = " ".join(f"0x{m:02x}" for m in bs)
        t("128", f"_mm_set_epi8({args})", f"_mm_set_epi8 {largs}")
        t("128", f"_mm_setr_epi8({args})", f"_mm_setr_epi8 {largs}")
    for imm in range(4):
        a, x = v128(), r32()
        t("128", f"_mm_insert_epi32::<{imm}>({rs128(a)}, 0x{x:08x}u32 as i32)", f"_mm_insert_epi32 {l128(a)} 0x{x:08x} {imm}")
        t("u32", f"_mm_extract_epi32::<{imm}>({rs128(a)}) as u32", f"_mm_extract_epi32 {l128(a)} {imm}")
    for _ in range(2):
        x = r32()
        t("128", f"_mm_cvtsi32_si128(0x{x:08x}u32 as i32)", f"_mm_cvtsi32_si128 0x{x:08x}")
        t("128", f"_mm_set1_epi32(0x{x:08x}u32 as i32)", f"_mm_set1_epi32 0x{x:08x}")
        e = [r32() for _ in range(4)]
        t("128", "_mm_set_epi32(%s)" % ", ".join(f"0x{y:08x}u32 as i32" for y in e), "_mm_set_epi32 " + " ".join(f"0x{y:08x}" for y in e))
        q = [R.getrandbits(64) for _ in range(2)]
        t("128", "_mm_set_epi64x(%s)" % ", ".join(f"0x{y:016x}u64 as i64" for y in q), "_mm_set_epi64x " + " ".join(f"0x{y:016x}" for y in q))
        t("128", f"_mm_set1_epi64x(0x{q[0]:016x}u64 as i64)", f"_mm_set1_epi64x 0x{q[0]:016x}")
    t("128", "_mm_set_epi64x(0, -1i64)", "_mm_set_epi64x 0 0xFFFFFFFFFFFFFFFF")
    t("128", "_mm_set_epi32(0, -1i32, 7, 9)", "_mm_set_epi32 0 0xFFFFFFFF 7 9")
    # sign extensions used by the translator for `as` casts
    for x in (0x80000000, 0x7FFFFFFF, 0xFFFFFFFF, 5, r32()):
        t("u64", f"(0x{x:08x}u32 as i32 as i64) as u64", f"sext32to64 0x{x:08x}")
    for x in (0x80, 0x7F, 0xFF, 3):
        t("u32", f"(0x{x:02x}u8 as i8 as i32) as u32", f"sext8to32 0x{x:02x}")
    # --- 256
    for nm in ("_mm256_add_epi32", "_mm256_add_epi64", "_mm256_xor_si256", "_mm256_or_si256", "_mm256_unpacklo_epi64",
               "_mm256_unpackhi_epi64"):
        bin256(nm, n=2)
    un256("_mm256_slli_epi32", [13, 14, 15, 25, 32])
    un256("_mm256_srli_epi32", [3, 7, 10, 17, 18, 19, 40])
    un256("_mm256_slli_epi64", [1, 64])
    un256("_mm256_srli_epi64", [63, 1, 64])
    un256("_mm256_shuffle_epi32", [0xB1, 0x4E, 0x1B])
    un256("_mm256_permute4x64_epi64", [0x93, 0x4E, 0x39, 0x1B, 0x00, 0xE4])
    bin256("_mm256_blend_epi32", [0xF0, 0x33, 0xA5, 0x00, 0xFF])
    bin256("_mm256_alignr_epi8", [8, 3, 16, 20, 32])
    for _ in range(3):
        bin256("_mm256_shuffle_epi8", n=1)
    for mask in ([28, 29, 30, 31, 24, 25, 26, 27, 20, 21, 22, 23, 16, 17, 18, 19, 12, 13, 14, 15, 8, 9, 10, 11, 4, 5, 6, 7, 0, 1, 2, 3],
                 [3, 4, 5, 6, 7, 0, 1, 2, 11, 12, 13, 14, 15, 8, 9, 10, 3, 4, 5, 6, 7, 0, 1, 2, 11, 12, 13, 14, 15, 8, 9, 10]):
        a = v256()
        args = ", ".join(f"0x{m:02x}u8 as i8" for m in mask)
        largs = " ".join(f"0x{m:02x}" for m in mask)
        t("256", f"_mm256_shuffle_epi8({rs256(a)}, _mm256_set_epi8({args}))", f"_mm256_shuffle_epi8 {l256(a)} (_mm256_set_epi8 {largs})")
        t("256", f"_mm256_shuffle_epi8({rs256(a)}, _mm256_setr_epi8({args}))", f"_mm256_shuffle_epi8 {l256(a)} (_mm256_setr_epi8 {largs})")
    for imm in range(8):
        a, x = v256(), r32()
        t("256", f"_mm256_insert_epi32::<{imm}>({rs256(a)}, 0x{x:08x}u32 as i32)", f"_mm256_insert_epi32 {l256(a)} 0x{x:08x} {imm}")
        t("u32", f"_mm256_extract_epi32::<{imm}>({rs256(a)}) as u32", f"_mm256_extract_epi32 {l256(a)} {imm}")
    a = v128()
    t("256", f"_mm256_broadcastsi128_si256({rs128(a)})", f"_mm256_broadcastsi128_si256 {l128(a)}")
    t("128", f"_mm256_castsi256_si128(_mm256_castsi128_si256({rs128(a)}))", f"(_mm256_castsi128_si256 {l128(a)}).lo")
    x = r32()
    t("256", f"_mm256_set1_epi32(0x{x:08x}u32 as i32)", f"_mm256_set1_epi32 0x{x:08x}")
    q = [R.getrandbits(64) for _ in range(4)]
    t("256", "_mm256_set_epi64x(%s)" % ", ".join(f"0x{y:016x}u64 as i64" for y in q), "_mm256_set_epi64x " + " ".join(f"0x{y:016x}" for y in q))
    t("256", "_mm256_set_epi64x(0, -1i64, 3, 4)", "_mm256_set_epi64x 0 0xFFFFFFFFFFFFFFFF 3 4")
    # --- memory: loads at several offsets of a byte buffer / of word arrays
    mem = [R.getrandbits(8) for _ in range(40)]
    lmem = "[" + ", ".join(f"0x{b:02x}" for b in mem) + "]"
    rmem = "[" + ", ".join(f"0x{b:02x}u8" for b in mem) + "]"
    for off in (0, 1, 7, 16, 24):
        t("128", f"{{ let m: [u8; 40] = {rmem}; _mm_loadu_si128(m.as_ptr().add({off}) as *const __m128i) }}",
          f"_mm_loadu_si128 {lmem} {off}", )
    for off in (0, 3, 36):
        t("u32", f"{{ let m: [u8; 40] = {rmem}; core::ptr::read_unaligned(m.as_ptr().add({off}) as *const i32) as u32 }}", f"read_i32 {lmem} {off}")
    t("256", f"{{ let m: [u8; 40] = {rmem}; _mm256_loadu_si256(m.as_ptr().add(5) as *const __m256i) }}", f"_mm256_loadu_si256 {lmem} 5")
    a32 = [r32() for _ in range(6)]
    t("128", "{ let m: [u32; 6] = [%s]; _mm_loadu_si128(m.as_ptr().add(1) as *const __m128i) }" % ", ".join(f"0x{x:08x}" for x in a32),
      "_mm_loadu_si128_u32 [%s] 4" % ", ".join(f"0x{x:08x}" for x in a32))
    a64 = [R.getrandbits(64) for _ in range(8)]
    for off in (0, 16, 48):
        t("128", "{ let m: [u64; 8] = [%s]; _mm_loadu_si128((m.as_ptr() as *const __m128i).add(%d)) }" % (", ".join(f"0x{x:016x}" for x in a64), off // 16),
          "_mm_loadu_si128_u64 [%s] %d" % (", ".join(f"0x{x:016x}" for x in a64), off))
    t("256", "{ let m: [u64; 8] = [%s]; _mm256_loadu_si256((m.as_ptr() as *const __m256i).add(1)) }" % ", ".join(f"0x{x:016x}" for x in a64),
      "_mm256_loadu_si256_u64 [%s] 32" % ", ".join(f"0x{x:016x}" for x in a64))
    # stores
    v = v128()
    t("bytes40", f"{{ let mut m: [u8; 40] = {rmem}; _mm_storeu_si128(m.as_mut_ptr().add(9) as *mut __m128i, {rs128(v)}); m }}",
      f"_mm_storeu_si128 {lmem} 9 {l128(v)}")
    t("u64x8", "{ let mut m: [u64; 8] = [%s]; _mm_storeu_si128((m.as_mut_ptr() as *mut __m128i).add(2), %s); m }" % (", ".join(f"0x{x:016x}" for x in a64), rs128(v)),
      "_mm_storeu_si128_u64 [%s] 32 %s" % (", ".join(f"0x{x:016x}" for x in a64), l128(v)))
    w = v256()
    t("u64x8", "{ let mut m: [u64; 8] = [%s]; _mm256_storeu_si256((m.as_mut_ptr() as *mut __m256i).add(1), %s); m }" % (", ".join(f"0x{x:016x}" for x in a64), rs256(w)),
      "_mm256_storeu_si256_u64 [%s] 32 %s" % (", ".join(f"0x{x:016x}" for x in a64), l256(w)))
    t("u32x6", "{ let mut m: [u32; 6] = [%s]; _mm_storeu_si128(m.as_mut_ptr().add(2) as *mut __m128i, %s); m }" % (", ".join(f"0x{x:08x}" for x in a32), rs128(v)),
      "_mm_storeu_si128_u32 [%s] 8 %s" % (", ".join(f"0x{x:08x}" for x in a32), l128(v)))


RUST_HEAD = """#![allow(unused_unsafe, overflowing_literals)]
use core::arch::x86_64::*;
unsafe fn p128(id: usize, v: __m128i) { let mut o = [0u32; 4]; _mm_storeu_si128(o.as_mut_ptr() as *mut __m128i, v);
  println!("{} {:08x} {:08x} {:08x} {:08x}", id, o[0], o[1], o[2], o[3]); }
unsafe fn p256(id: usize, v: __m256i) { let mut o = [0u32; 8]; _mm256_storeu_si256(o.as_mut_ptr() as *mut __m256i, v);
  println!("{} {:08x} {:08x} {:08x} {:08x} {:08x} {:08x} {:08x} {:08x}", id, o[0], o[1], o[2], o[3], o[4], o[5], o[6], o[7]); }
fn main() { unsafe {
"""


def main():
    build_tests()
    body = []
    for i, (kind, rust, _) in enumerate(TESTS):
        if kind == "128":
            body.append(f"p128({i}, {rust});")
        elif kind == "256":
            body.append(f"p256({i}, {rust});")
        elif kind == "u32":
            body.append(f'println!("{i} {{:08x}}", {rust});')
        elif kind == "u64":
            body.append(f'println!("{i} {{:016x}}", {rust});')
        elif kind == "bytes40":
            body.append(f'{{ let m = {rust}; print!("{i}"); for b in m.iter() {{ print!(" {{:02x}}", b); }} println!(); }}')
        elif kind in ("u64x8",):
            body.append(f'{{ let m = {rust}; print!("{i}"); for b in m.iter() {{ print!(" {{:016x}}", b); }} println!(); }}')
        elif kind in ("u32x6",):
            body.append(f'{{ let m = {rust}; print!("{i}"); for b in m.iter() {{ print!(" {{:08x}}", b); }} println!(); }}')
    src = RUST_HEAD + "\n".join(body) + "\n} }\n"
    with tempfile.TemporaryDirectory() as d:
        p = os.path.join(d, "hw.rs")
        open(p, "w").write(src)
        subprocess.run(["rustc", "--edition", "2021", "-O", "-C", "target-feature=+avx2,+avx,+sse4.1,+ssse3", "-o", os.path.join(d, "hw"), p], check=True)
        out = subprocess.run([os.path.join(d, "hw")], check=True, capture_output=True, text=True).stdout
    res = {}
    for line in out.splitlines():
        f = line.split()
        res[int(f[0])] = f[1:]
    lines = ["-- GENERATED by tools/ktx_simd_hwtest.py from the real x86-64 instructions (AVX2 machine). Do not edit.",
             "import CxVerif.Util.Intrinsics",
             "/-!",
             "  Util.IntrinsicsHwTest — TESTS (not theorems): every intrinsic definition of Util/Intrinsics.lean evaluated by Lean's kernel",
             "  on pseudo-random operands equals what the CPU instruction returned for the same operands.",
             "-/",
             "namespace Cx.Intrinsics.HwTest",
             "open Cx.Intrinsics",
             ""]
    for i, (kind, _, lean) in enumerate(TESTS):
        r = res[i]
        if kind == "128":
            rhs = "(⟨" + ", ".join("0x" + x for x in r) + "⟩ : M128i)"
            if lean.startswith(("_mm_loadu", "_mm_load_")):
                rhs = ".ok " + rhs
        elif kind == "256":
            rhs = "(⟨⟨" + ", ".join("0x" + x for x in r[:4]) + "⟩, ⟨" + ", ".join("0x" + x for x in r[4:]) + "⟩⟩ : M256i)"
            if lean.startswith("_mm256_loadu"):
                rhs = ".ok " + rhs
        elif kind == "u32":
            rhs = "(0x" + r[0] + " : UInt32)"
            if lean.startswith("read_i32"):
                rhs = ".ok " + rhs
        elif kind == "u64":
            rhs = "(0x" + r[0] + " : UInt64)"
        else:
            rhs = ".ok [" + ", ".join("0x" + x for x in r) + "]"
        lines.append(f"example : {lean} = {rhs} := by {'rfl' if rhs.startswith('.ok') else 'decide'}")
    lines += ["", "end Cx.Intrinsics.HwTest", ""]
    open(OUT, "w").write("\n".join(lines))
    print(f"{len(TESTS)} vectors -> {os.path.normpath(OUT)}")


if __name__ == "__main__":
    sys.exit(main())
